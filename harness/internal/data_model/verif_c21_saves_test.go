//go:build verif

package data_model

// C21, chunked storage: save histories through ONE living storage object.
//
// Every other part of this check opens a storage object, reads, writes once and throws the object away. The real
// users do not: MappingsCache.Save and JournalFast.save rewrite the whole file (ResetToStartOfFile + all chunks +
// FinishWriteChunk) many times through the object that was opened at start-up, and the journal/mapping appenders
// add chunks behind what was read. So the object's private state (the size the file had when it was OPENED, the
// position, the hash chain, the write error, the reading-finished flag) meets files it did not see at open time.
//
// Family: for every start image (absent file; every small file of the alphabet; every such file with its last 3
// bytes missing - a broken tail) one object is opened and read to the end/error, then every sequence of
// 1..2 (thorough 1..3) operations of
//     rewrite(L)  - ResetToStartOfFile, the chunk list L (incl. the EMPTY list: a cache that lost everything), FinishWriteChunk
//     append(L)   - the non-empty chunk list L behind the current position, FinishWriteChunk
// runs on that one object, L over every list of 0..2 chunks x three body sizes x two content families (in family
// "same" a shorter list is a byte-identical prefix of a longer one, so a stale tail continues the hash chain).
// Oracle (statement: "reloading a chunked storage file yields exactly the saved items"), after EVERY operation: a
// new object over the file bytes reads, without error, exactly the reference list (rewrite: L; append: previous + L;
// start: what the object itself read from the start image). The same histories (rewrites only, two start images)
// also run through the real-file back end.

import (
	"fmt"
	"os"
	"path/filepath"
	"sync/atomic"

	"github.com/VKCOM/statshouse/internal/verif/mc"
)

type c21SaveOp struct {
	name    string
	rewrite bool
	list    [][]byte
}

func c21WriteList(st *ChunkedStorage2, rewrite bool, list [][]byte) error {
	if rewrite {
		st.ResetToStartOfFile()
	}
	chunk := st.StartWriteChunk(c21Magic, 0)
	var err error
	for i, b := range list {
		chunk = append(chunk, b...)
		if i < len(list)-1 {
			if chunk, err = st.finishChunk(chunk); err != nil {
				return err
			}
		}
	}
	return st.FinishWriteChunk(chunk)
}

func c21SameList(a, b [][]byte) bool { return len(a) == len(b) && c21IsPrefix(a, b) }

func c21ListStr(l [][]byte) string {
	s := "["
	for i, b := range l {
		if i > 0 {
			s += " "
		}
		s += fmt.Sprintf("%d:%x", len(b), b[:min(len(b), 4)])
	}
	return s + "]"
}

// c21JudgeResave compares a reload with the reference list and names the way it differs.
func (c *c21Ctx) c21JudgeResave(backend, desc string, got [][]byte, err error, want [][]byte, file []byte) bool {
	c.rep.Outcome(fmt.Sprintf("resave:%s:%d:%d:%v", backend, len(want), len(got), err != nil))
	if err == nil && c21SameList(got, want) {
		return true
	}
	what := "other-chunks"
	switch {
	case len(got) > len(want) && c21IsPrefix(want, got):
		what = "chunks-of-an-earlier-save-served"
	case c21SameList(got, want) && err != nil:
		what = "error-behind-the-saved-chunks"
	case len(got) < len(want) && c21IsPrefix(got, want):
		what = "saved-chunks-missing"
	}
	c.rep.Violate("C21:chunked-resave-reload-differs:"+what, fmt.Sprintf("%s back end, one storage object: %s | reload returned %d chunk(s) %s, error %v; the last save left %d chunk(s) %s; file is %d bytes",
		backend, desc, len(got), c21ListStr(got), err, len(want), c21ListStr(want), len(file)), map[string]any{"image_hex": fmt.Sprintf("%x", file[:min(len(file), 400)])})
	return false
}

func (c *c21Ctx) c21SaveHistories(files []*c21File, dir string) {
	depth := mc.Pick(2, 3)
	// the chunk-list alphabet: empty + every file of at most 2 chunks
	var ops []c21SaveOp
	var starts []*c21File
	starts = append(starts, &c21File{name: "absent file"})
	ops = append(ops, c21SaveOp{name: "rewrite([])", rewrite: true})
	for _, f := range files {
		if len(f.chunks) > 2 {
			continue
		}
		ops = append(ops, c21SaveOp{name: "rewrite(" + f.name + ")", rewrite: true, list: f.chunks})
		ops = append(ops, c21SaveOp{name: "append(" + f.name + ")", list: f.chunks})
		starts = append(starts, f)
		starts = append(starts, &c21File{name: f.name + " without its last 3 bytes", data: f.data[:len(f.data)-3]})
	}
	c.rep.Bounds["resave_history_ops"] = fmt.Sprintf("%d (rewrite of every list of 0..2 chunks, append of every non-empty one)", len(ops))
	c.rep.Bounds["resave_history_starts"] = len(starts)
	c.rep.Bounds["resave_history_depth"] = depth
	var histories, reloads int64
	c21Parallel(len(starts)*len(ops), func(r *c21Reader, unit int) {
		start, first := starts[unit/len(ops)], unit%len(ops)
		if r.second == nil {
			r.second = c21NewReader()
		}
		idx := make([]int, depth)
		idx[0] = first
		var h, rl int64
		// every sequence of 1..depth operations beginning with `first`: a depth-first walk that re-runs the prefix
		var walk func(n int)
		walk = func(n int) {
			// run the history idx[:n] on one object
			var st *ChunkedStorage2
			fresh := (h+int64(unit))%257 == 0 // cross-check: a genuinely new object made by the constructor
			var fp []byte
			if fresh {
				fp = append([]byte(nil), start.data...)
				st = NewChunkedStorage2Slice(&fp)
			} else {
				st = r.open(start.data)
			}
			want, _, _ := c21Drain(st, c21Magic)
			desc := "open " + start.name + fmt.Sprintf(" (%d bytes, %d chunk(s) read)", len(start.data), len(want))
			ok := true
			for i := 0; i < n && ok; i++ {
				op := &ops[idx[i]]
				desc += "; " + op.name
				if err := c21WriteList(st, op.rewrite, op.list); err != nil {
					c.rep.Violate("C21:chunked-resave-error", fmt.Sprintf("slice back end: %s | write failed: %v", desc, err), nil)
					return
				}
				if op.rewrite {
					want = op.list
				} else {
					want = append(append([][]byte(nil), want...), op.list...)
				}
				if i < n-1 {
					continue // judged when the shorter history ran
				}
				cur := r.Bytes()
				if fresh {
					cur = fp
				}
				got, err, calls := c21Drain(r.second.open(cur), c21Magic)
				c.calls.Add(int64(calls))
				rl++
				ok = c.c21JudgeResave("slice", desc, got, err, want, cur)
			}
			h++
			if !ok || n == depth {
				return // nothing is explored behind a violating history
			}
			for o := range ops {
				idx[n] = o
				walk(n + 1)
			}
		}
		walk(1)
		c.execs.Add(rl)
		c.nontriv.Add(h)
		atomic.AddInt64(&histories, h)
		atomic.AddInt64(&reloads, rl)
	})
	// the real-file back end: rewrites only, from an absent file and from one two-chunk file
	var fileHist int64
	var fileStarts []*c21File
	fileStarts = append(fileStarts, starts[0])
	for _, f := range files {
		if len(f.chunks) == 2 {
			fileStarts = append(fileStarts, f)
			break
		}
	}
	var rew []c21SaveOp
	for _, op := range ops {
		if op.rewrite {
			rew = append(rew, op)
		}
	}
	for si, start := range fileStarts {
		for a := range rew {
			if mc.Expired() {
				break
			}
			path := filepath.Join(dir, fmt.Sprintf("resave%d_%d", si, a))
			if err := os.WriteFile(path, start.data, 0o666); err != nil {
				c.rep.Infra(err.Error())
				return
			}
			for b := range rew {
				// one object per (a, b): reopen the start image
				_ = os.WriteFile(path, start.data, 0o666)
				fp, err := os.OpenFile(path, os.O_RDWR, 0o666)
				if err != nil {
					c.rep.Infra(err.Error())
					return
				}
				st := NewChunkedStorage2File(fp)
				_, _, _ = c21Drain(st, c21Magic)
				desc := "open " + start.name
				good := true
				for _, op := range []*c21SaveOp{&rew[a], &rew[b]} {
					desc += "; " + op.name
					if err := c21WriteList(st, true, op.list); err != nil {
						c.rep.Violate("C21:chunked-resave-error", fmt.Sprintf("file back end: %s | write failed: %v", desc, err), nil)
						good = false
						break
					}
					fp2, err := os.Open(path)
					if err != nil {
						c.rep.Infra(err.Error())
						good = false
						break
					}
					got, e2, _ := c21Drain(NewChunkedStorage2File(fp2), c21Magic)
					disk, _ := os.ReadFile(path)
					fp2.Close()
					c.execs.Add(1)
					if !c.c21JudgeResave("file", desc, got, e2, op.list, disk) {
						good = false
						break
					}
				}
				_ = good
				fp.Close()
				fileHist++
			}
			os.Remove(path)
		}
	}
	c.rep.Parts["resave_histories"] = map[string]any{"histories": histories, "reloads_judged": reloads, "file_backend_histories": fileHist, "depth": depth, "ops": len(ops), "starts": len(starts)}
}
