//go:build verif

package data_model

// C21 (chunked storage half): reloading a ChunkedStorage2 file yields exactly the saved chunks; a truncated or
// corrupted file yields a prefix of the saved chunks and never a damaged item.
//
// Full enumeration: every small file of 1..3/4 chunks over three body sizes (chunk boundaries are forced through
// the unexported finishChunk, because FinishItem only flushes after ChunkSize/2 and the maxChunkSize argument of
// StartWriteChunk is not consulted) x every damaged image of it:
//   truncation at every length, a flip of every byte (several masks), the tail from every offset zero-filled,
//   every chunk dropped / duplicated / every pair swapped, and every crash image of overwriting an older
//   generation O with a newer one N (N[:p]+O[p:] for every p: Save rewrites from offset 0 and truncates last).
// One genuinely large two-chunk file written through FinishItem (first chunk 560 KB) gets the same damage at a
// stride plus every byte around the chunk headers/boundaries, through the slice and the real-file back ends.
// Oracle: the chunks returned by ReadNext until error/end are byte-identical to a prefix of the saved chunk list
// (for generation images: of N's or of O's list, never a mixture); the intact file returns all of them and no
// error; after any read, appending one more chunk and re-reading yields exactly (what was read) + (the new chunk).

import (
	"bytes"
	"fmt"
	"os"
	"path/filepath"
	"runtime"
	"sync"
	"sync/atomic"
	"testing"

	"github.com/VKCOM/statshouse/internal/verif/mc"
)

const c21Magic = ChunkedMagicMappings

type c21File struct {
	name   string
	data   []byte
	chunks [][]byte // bodies
	starts []int    // start offset of every chunk, then the file length
}

func c21Body(pos, size int, same bool) []byte {
	// items: [len][bytes]...; one item per 6 bytes so that bodies hold 1..2 items
	b := make([]byte, 0, size)
	seed := pos + 1
	if same {
		seed = 9
	}
	for len(b) < size {
		n := size - len(b) - 1
		if n > 5 {
			n = 5
		}
		b = append(b, byte(n))
		for k := 0; k < n; k++ {
			b = append(b, byte(0x30+seed*17+k*3+len(b)))
		}
	}
	return b
}

// c21Drain reads a storage until error or end and returns copies of the chunks.
func c21Drain(st *ChunkedStorage2, magic uint32) (got [][]byte, err error, calls int) {
	for {
		var chunk []byte
		chunk, err = st.ReadNext(magic)
		calls++
		if err != nil || len(chunk) == 0 {
			return
		}
		got = append(got, append([]byte(nil), chunk...))
		if calls > 64 {
			return got, fmt.Errorf("c21: ReadNext does not end"), calls
		}
	}
}

// c21Write saves the bodies as one chunk each through the real writer on the slice back end.
func c21Write(name string, bodies [][]byte) (*c21File, error) {
	var fp []byte
	st := NewChunkedStorage2Slice(&fp)
	if got, err, _ := c21Drain(st, c21Magic); err != nil || len(got) != 0 {
		return nil, fmt.Errorf("empty file does not read as empty: %v", err)
	}
	f := &c21File{name: name}
	chunk := st.StartWriteChunk(c21Magic, 0)
	var err error
	for i, b := range bodies {
		f.starts = append(f.starts, int(st.offset))
		chunk = append(chunk, b...)
		f.chunks = append(f.chunks, b)
		if i < len(bodies)-1 {
			if chunk, err = st.finishChunk(chunk); err != nil {
				return nil, err
			}
		}
	}
	if err = st.FinishWriteChunk(chunk); err != nil {
		return nil, err
	}
	f.data = append([]byte(nil), fp...)
	f.starts = append(f.starts, len(f.data))
	return f, nil
}

// c21Reader wraps the recycled storage object (see verif_c21_export.go); every 512th image is cross-checked
// against a genuinely fresh object.
type c21Reader struct {
	*VerifC21Reader
	n      int
	second *c21Reader // for the reload after an append
}

func c21NewReader() *c21Reader { return &c21Reader{VerifC21Reader: VerifC21NewReader()} }

func (r *c21Reader) open(img []byte) *ChunkedStorage2 { return r.Open(img) }

type c21Ctx struct {
	rep     *mc.Report
	execs   atomic.Int64
	calls   atomic.Int64
	nontriv atomic.Int64
}

func c21IsPrefix(got, list [][]byte) bool {
	if len(got) > len(list) {
		return false
	}
	for i := range got {
		if !bytes.Equal(got[i], list[i]) {
			return false
		}
	}
	return true
}

// c21Check reads one image and evaluates the oracle. allowed = the chunk lists the result may be a prefix of.
func (c *c21Ctx) c21Check(r *c21Reader, kind string, desc func() string, img []byte, allowed [][][]byte, intact bool, nontrivial bool) {
	c.execs.Add(1)
	if nontrivial {
		c.nontriv.Add(1)
	}
	fail := func(what, format string, a ...any) {
		c.rep.Violate("C21:chunked-"+kind+"-"+what, fmt.Sprintf(format, a...)+" | "+desc(), map[string]any{"image_hex": fmt.Sprintf("%x", img[:min(len(img), 400)])})
	}
	var got [][]byte
	var err error
	var st *ChunkedStorage2
	func() {
		defer func() {
			if p := recover(); p != nil {
				fail("panic", "ReadNext panicked: %v", p)
				err = fmt.Errorf("panic")
			}
		}()
		st = r.open(img)
		var calls int
		got, err, calls = c21Drain(st, c21Magic)
		c.calls.Add(int64(calls))
	}()
	r.n++
	if r.n%512 == 0 { // cross-check the recycled object against a fresh one
		cp := append([]byte(nil), img...)
		g2, e2, _ := c21Drain(NewChunkedStorage2Slice(&cp), c21Magic)
		if len(g2) != len(got) || (e2 == nil) != (err == nil) {
			c.rep.Infra(fmt.Sprintf("c21: recycled storage object behaves differently from a fresh one on %s", desc()))
		}
	}
	c.rep.Outcome(fmt.Sprintf("%s:%d:%v", kind, len(got), err != nil))
	ok := false
	for _, l := range allowed {
		if c21IsPrefix(got, l) {
			ok = true
		}
	}
	if !ok {
		what := "yields-changed-chunk"
		mixed := true
		for i, g := range got {
			hit := false
			for _, l := range allowed {
				for _, sc := range l {
					if bytes.Equal(g, sc) {
						hit = true
					}
				}
			}
			_ = i
			if !hit {
				mixed = false
			}
		}
		if mixed {
			what = "yields-non-prefix-sequence"
		}
		fail(what, "ReadNext returned %d chunk(s) %x which is not a prefix of the saved chunk list", len(got), got)
		return
	}
	if intact && (err != nil || len(got) != len(allowed[0])) {
		fail("reload-incomplete", "intact file: ReadNext returned %d of %d chunks, error %v", len(got), len(allowed[0]), err)
		return
	}
	if len(img) > 1<<16 {
		return
	}
	// append after the read and reload: exactly what was read plus the new chunk
	extra := []byte{3, 'n', 'e', 'w'}
	func() {
		defer func() {
			if p := recover(); p != nil {
				fail("append-panic", "appending after the read panicked: %v", p)
			}
		}()
		chunk := st.StartWriteChunk(c21Magic, 0)
		chunk = append(chunk, extra...)
		if err := st.FinishWriteChunk(chunk); err != nil {
			fail("append-error", "appending after the read failed: %v", err)
			return
		}
		if r.second == nil {
			r.second = c21NewReader()
		}
		g2, e2, calls := c21Drain(r.second.open(r.Bytes()), c21Magic)
		c.calls.Add(int64(calls))
		want := append(append([][]byte(nil), got...), extra)
		if e2 != nil || len(g2) != len(want) || !c21IsPrefix(g2, want) {
			fail("append-after-read-reload-differs", "after reading %d chunk(s) and appending one, reload returned %d chunk(s) %x, error %v", len(got), len(g2), g2, e2)
		}
	}()
}

var c21Masks = []byte{0x01, 0x80, 0xFF}

func (c *c21Ctx) c21Damage(r *c21Reader, f *c21File, masks []byte) {
	full := [][][]byte{f.chunks}
	c.c21Check(r, "intact", func() string { return f.name }, f.data, full, true, false)
	L := len(f.data)
	chunkOf := func(p int) int {
		for i := 0; i+1 < len(f.starts); i++ {
			if p < f.starts[i+1] {
				return i
			}
		}
		return len(f.chunks)
	}
	for t := 0; t < L; t++ {
		c.c21Check(r, "truncated", func() string { return fmt.Sprintf("%s truncated to %d of %d bytes", f.name, t, L) }, f.data[:t], full, false, chunkOf(t) > 0)
	}
	img := make([]byte, L)
	for p := 0; p < L; p++ {
		for _, m := range masks {
			copy(img, f.data)
			img[p] ^= m
			c.c21Check(r, "flipped", func() string { return fmt.Sprintf("%s byte %d of %d xor %#x", f.name, p, L, m) }, img, full, false, chunkOf(p) > 0)
		}
		copy(img, f.data)
		changed := false
		for q := p; q < L; q++ {
			if img[q] != 0 {
				changed = true
			}
			img[q] = 0
		}
		if changed {
			c.c21Check(r, "zero-tail", func() string { return fmt.Sprintf("%s bytes %d..%d zeroed", f.name, p, L) }, img, full, false, chunkOf(p) > 0)
		}
	}
	n := len(f.chunks)
	raw := func(i int) []byte { return f.data[f.starts[i]:f.starts[i+1]] }
	build := func(order []int) []byte {
		var b []byte
		for _, i := range order {
			b = append(b, raw(i)...)
		}
		return b
	}
	for k := 0; k < n; k++ {
		var drop, dup []int
		for i := 0; i < n; i++ {
			if i != k {
				drop = append(drop, i)
			}
			dup = append(dup, i)
			if i == k {
				dup = append(dup, i)
			}
		}
		if n > 1 {
			c.c21Check(r, "chunk-dropped", func() string { return fmt.Sprintf("%s chunk %d of %d removed", f.name, k, n) }, build(drop), full, false, true)
		}
		c.c21Check(r, "chunk-duplicated", func() string { return fmt.Sprintf("%s chunk %d of %d duplicated", f.name, k, n) }, build(dup), full, false, true)
		for l := k + 1; l < n; l++ {
			if bytes.Equal(raw(k), raw(l)) {
				continue // swapping identical byte ranges is the intact file
			}
			sw := make([]int, n)
			for i := range sw {
				sw[i] = i
			}
			sw[k], sw[l] = l, k
			c.c21Check(r, "chunks-swapped", func() string { return fmt.Sprintf("%s chunks %d and %d of %d swapped", f.name, k, l, n) }, build(sw), full, false, true)
		}
	}
}

// c21Generations: every crash image of overwriting the older file o with the newer file nw from offset 0.
func (c *c21Ctx) c21Generations(r *c21Reader, o, nw *c21File) {
	allowed := [][][]byte{nw.chunks, o.chunks}
	for p := 1; p < len(nw.data) && p < len(o.data); p++ {
		img := append(append([]byte(nil), nw.data[:p]...), o.data[p:]...)
		c.c21Check(r, "overwrite-crash", func() string { return fmt.Sprintf("new %s written up to byte %d over old %s", nw.name, p, o.name) }, img, allowed, false, true)
	}
	if len(o.data) > len(nw.data) { // everything written, not truncated yet
		img := append(append([]byte(nil), nw.data...), o.data[len(nw.data):]...)
		c.c21Check(r, "overwrite-crash", func() string { return fmt.Sprintf("new %s complete over longer old %s, not truncated yet", nw.name, o.name) }, img, allowed, false, true)
	}
}

func c21Parallel(n int, f func(r *c21Reader, i int)) {
	w := runtime.GOMAXPROCS(0)
	var wg sync.WaitGroup
	var next atomic.Int64
	for k := 0; k < w; k++ {
		wg.Add(1)
		go func() {
			defer wg.Done()
			r := c21NewReader()
			for {
				i := int(next.Add(1)) - 1
				if i >= n || mc.Expired() {
					return
				}
				f(r, i)
			}
		}()
	}
	wg.Wait()
}

// c21Large writes a two-chunk file through the public FinishItem path (the first chunk is flushed at ChunkSize/2).
func c21Large(st *ChunkedStorage2) (chunks [][]byte, err error) {
	if got, e, _ := c21Drain(st, c21Magic); e != nil || len(got) != 0 {
		return nil, fmt.Errorf("empty file does not read as empty: %v", e)
	}
	chunk := st.StartWriteChunk(c21Magic, 0)
	var cur []byte
	for i := 0; i < 19; i++ {
		item := make([]byte, 40000)
		for k := range item {
			item[k] = byte(i*31 + k%253 + 1)
		}
		chunk = append(chunk, item...)
		cur = append(cur, item...)
		before := len(chunk)
		if chunk, err = st.FinishItem(chunk); err != nil {
			return nil, err
		}
		if len(chunk) < before { // flushed
			chunks = append(chunks, cur)
			cur = nil
		}
	}
	if err = st.FinishWriteChunk(chunk); err != nil {
		return nil, err
	}
	if len(cur) > 0 {
		chunks = append(chunks, cur)
	}
	return chunks, nil
}

func TestVerifC21(t *testing.T) {
	rep := mc.NewReport("C21")
	defer func() {
		if err := rep.Write(); err != nil {
			t.Fatal(err)
		}
	}()
	c := &c21Ctx{rep: rep}
	maxChunks := mc.Pick(3, 4)
	masks := c21Masks
	if mc.Thorough() {
		masks = []byte{0x01, 0x02, 0x04, 0x08, 0x10, 0x20, 0x40, 0x80, 0xFF}
	}
	sizes := []int{1, 5, 12}
	rep.Rule = "chunked storage: full enumeration of small multi-chunk files (chunk boundaries forced with finishChunk) x every damaged image (truncation at every length, flip of every byte, zeroed tail from every offset, chunk dropped/duplicated/swapped, every crash image of overwriting an older generation), plus one 760 KB two-chunk file written through FinishItem damaged at a stride and around every header/boundary; " +
		"non-trivial = the damage lies behind at least one intact chunk or reorders/mixes chunks, so a non-empty proper prefix has to be produced and the hash chain decides"
	rep.Bounds["chunks_per_file"] = fmt.Sprintf("1..%d", maxChunks)
	rep.Bounds["body_sizes"] = sizes
	rep.Bounds["flip_masks"] = fmt.Sprintf("%x", masks)
	rep.Assume("xxh3-128 collisions are not enumerated (a damaged chunk is accepted with probability 2^-128)")
	rep.Assume("the recycled reader object is reset in-package to the constructor's field values; every 512th image is cross-checked against a fresh object")

	var files []*c21File
	for _, same := range []bool{false, true} {
		for n := 1; n <= maxChunks; n++ {
			idx := make([]int, n)
			for {
				var bodies [][]byte
				name := fmt.Sprintf("file{same=%v sizes=", same)
				for i, k := range idx {
					bodies = append(bodies, c21Body(i, sizes[k], same))
					name += fmt.Sprintf("%d,", sizes[k])
				}
				f, err := c21Write(name+"}", bodies)
				if err != nil {
					t.Fatal(err)
				}
				files = append(files, f)
				i := n - 1
				for ; i >= 0; i-- {
					idx[i]++
					if idx[i] < len(sizes) {
						break
					}
					idx[i] = 0
				}
				if i < 0 {
					break
				}
			}
		}
	}
	rep.Bounds["small_files"] = len(files)
	c21Parallel(len(files), func(r *c21Reader, i int) { c.c21Damage(r, files[i], masks) })
	// generations: all ordered pairs within the same content family
	type pair struct{ o, n *c21File }
	var pairs []pair
	for _, o := range files {
		for _, n := range files {
			if o != n && (o.name[:14] == n.name[:14]) {
				pairs = append(pairs, pair{o, n})
			}
		}
	}
	rep.Bounds["generation_pairs"] = len(pairs)
	c21Parallel(len(pairs), func(r *c21Reader, i int) { c.c21Generations(r, pairs[i].o, pairs[i].n) })
	rep.Sample(map[string]any{"file": files[len(files)/2].name, "hex": fmt.Sprintf("%x", files[len(files)/2].data)})

	// the large file: slice back end for the stride, real file back end around the boundaries
	var big []byte
	bigChunks, err := c21Large(NewChunkedStorage2Slice(&big))
	if err != nil || len(bigChunks) != 2 {
		rep.Violate("C21:chunked-large-write", fmt.Sprintf("writing the large file through FinishItem gave %d chunks, error %v", len(bigChunks), err), nil)
		return
	}
	bf := &c21File{name: fmt.Sprintf("large file (%d bytes, chunks %d+%d)", len(big), len(bigChunks[0]), len(bigChunks[1])), data: big, chunks: bigChunks}
	b1 := chunkHeaderSize + len(bigChunks[0]) + chunkHashSize
	bf.starts = []int{0, b1, len(big)}
	rep.Bounds["large_file_bytes"] = len(big)
	stride := mc.Pick(4099, 997)
	rep.Bounds["large_file_stride"] = stride
	posSet := map[int]bool{}
	for p := 0; p < len(big); p += stride {
		posSet[p] = true
	}
	for _, centre := range []int{0, chunkHeaderSize + len(bigChunks[0]), b1, len(big)} {
		for d := -40; d <= 40; d++ {
			if p := centre + d; p >= 0 && p < len(big) {
				posSet[p] = true
			}
		}
	}
	var positions []int
	for p := range posSet {
		positions = append(positions, p)
	}
	full := [][][]byte{bigChunks}
	near := func(p int) bool {
		for _, centre := range []int{0, chunkHeaderSize + len(bigChunks[0]), b1, len(big)} {
			if p >= centre-40 && p <= centre+40 {
				return true
			}
		}
		return false
	}
	dir := filepath.Join(os.Getenv("VERIF_SCRATCH"), "c21")
	if os.Getenv("VERIF_SCRATCH") == "" {
		dir = filepath.Join(os.TempDir(), "c21")
	}
	_ = os.MkdirAll(dir, 0o777)
	defer os.RemoveAll(dir)
	c.c21SaveHistories(files, dir) // save histories through one living storage object (verif_c21_saves_test.go)
	var fileSeq atomic.Int64
	viaFile := func(kind, desc string, img []byte) {
		// the same image through the real file back end (fresh object, real ReadAt)
		path := filepath.Join(dir, fmt.Sprintf("img%d", fileSeq.Add(1)))
		if err := os.WriteFile(path, img, 0o666); err != nil {
			rep.Infra(err.Error())
			return
		}
		defer os.Remove(path)
		fp, err := os.OpenFile(path, os.O_RDWR, 0o666)
		if err != nil {
			rep.Infra(err.Error())
			return
		}
		defer fp.Close()
		c.execs.Add(1)
		got, _, calls := c21Drain(NewChunkedStorage2File(fp), c21Magic)
		c.calls.Add(int64(calls))
		if !c21IsPrefix(got, bigChunks) {
			rep.Violate("C21:chunked-"+kind+"-yields-changed-chunk", fmt.Sprintf("file back end: ReadNext returned %d chunk(s) that are not a prefix of the saved list | %s", len(got), desc), nil)
		}
	}
	c.c21Check(c21NewReader(), "intact", func() string { return bf.name }, big, full, true, false)
	viaFile("intact", bf.name, big)
	c21Parallel(len(positions), func(r *c21Reader, i int) {
		p := positions[i]
		nt := p >= b1
		d := fmt.Sprintf("%s truncated to %d", bf.name, p)
		c.c21Check(r, "truncated", func() string { return d }, big[:p], full, false, nt)
		if near(p) {
			viaFile("truncated", d, big[:p])
		}
		img := make([]byte, len(big))
		for _, m := range masks {
			copy(img, big)
			img[p] ^= m
			d = fmt.Sprintf("%s byte %d xor %#x", bf.name, p, m)
			dd := d
			c.c21Check(r, "flipped", func() string { return dd }, img, full, false, nt)
			if near(p) && m == 0xFF {
				viaFile("flipped", d, img)
			}
		}
		copy(img, big)
		for q := p; q < len(img); q++ {
			img[q] = 0
		}
		c.c21Check(r, "zero-tail", func() string { return fmt.Sprintf("%s bytes %d.. zeroed", bf.name, p) }, img, full, false, nt)
	})
	// real-file writer: the large file written through NewChunkedStorage2File reloads to the same chunks
	{
		path := filepath.Join(dir, "large")
		fp, err := os.OpenFile(path, os.O_CREATE|os.O_RDWR, 0o666)
		if err != nil {
			rep.Infra(err.Error())
		} else {
			ch, err := c21Large(NewChunkedStorage2File(fp))
			c.execs.Add(1)
			disk, _ := os.ReadFile(path)
			if err != nil || len(ch) != 2 || !bytes.Equal(disk, big) {
				rep.Violate("C21:chunked-file-backend-differs", fmt.Sprintf("writing the large file through the file back end: %d chunks, error %v, %d bytes (slice back end %d bytes)", len(ch), err, len(disk), len(big)), nil)
			}
			got, e2, _ := c21Drain(NewChunkedStorage2File(fp), c21Magic)
			if e2 != nil || len(got) != 2 || !c21IsPrefix(got, bigChunks) {
				rep.Violate("C21:chunked-intact-reload-incomplete", fmt.Sprintf("large file through the file back end reloads %d chunks, error %v", len(got), e2), nil)
			}
			fp.Close()
		}
	}
	if mc.Expired() {
		rep.Cap("wall_budget")
	}
	n := c.execs.Load()
	rep.AddCounts(n, c.calls.Load(), n, c.nontriv.Load())
	t.Logf("C21 chunked: files=%d pairs=%d images=%d readnext_calls=%d nontrivial=%d violations=%d", len(files), len(pairs), n, c.calls.Load(), c.nontriv.Load(), rep.NumViolations())
}
