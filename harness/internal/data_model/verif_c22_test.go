//go:build verif

package data_model

// C22: query time axes are aligned, gap-free and bounded.
//
// Full enumeration of a boundary grid of (start, end, step, now, location, week start,
// screen width, mode, extend, metric resolution, offset) through the real
// GetTimescale / Timescale.GetLODs, every result checked against the invariants of the
// statement, which are written here independently of the package's own helpers
// (own floor arithmetic, own calendar stepping through time.Date, alignment decided in
// local standard time of the zone and not through utcOffset arithmetic).

import (
	"fmt"
	"runtime"
	"sort"
	"strings"
	"sync"
	"testing"
	"time"

	"github.com/VKCOM/statshouse/internal/format"
	"github.com/VKCOM/statshouse/internal/verif/mc"
)

const (
	c22Day   = int64(86400)
	c22Week  = 7 * c22Day
	c22Month = 31 * c22Day // the "monthly step" marker value
)

// the table resolutions of the statement, written down independently of LODTables
var c22TableSteps = []int64{1, 5, 15, 60, 300, 900, 3600, 4 * 3600, c22Day, c22Week, c22Month}

func c22IsTableStep(s int64) bool {
	for _, v := range c22TableSteps {
		if v == s {
			return true
		}
	}
	return false
}

func c22FloorMod(a, b int64) int64 {
	m := a % b
	if m < 0 {
		m += b
	}
	return m
}

func c22FloorDiv(a, b int64) int64 {
	return (a - c22FloorMod(a, b)) / b
}

type c22Zone struct {
	name string
	loc  *time.Location
	std  int64   // standard (non-DST) offset in seconds east of UTC
	dst  []int64 // instants of offset changes used as anchors
}

func c22LoadZone(name string, years []int) (*c22Zone, error) {
	loc, err := time.LoadLocation(name)
	if err != nil {
		return nil, err
	}
	z := &c22Zone{name: name, loc: loc}
	_, o1 := time.Date(2024, 1, 15, 12, 0, 0, 0, time.UTC).In(loc).Zone()
	_, o2 := time.Date(2024, 7, 15, 12, 0, 0, 0, time.UTC).In(loc).Zone()
	z.std = int64(o1)
	if int64(o2) < z.std {
		z.std = int64(o2)
	}
	off := func(t int64) int {
		_, o := time.Unix(t, 0).In(loc).Zone()
		return o
	}
	for _, y := range years {
		from := time.Date(y, 1, 1, 0, 0, 0, 0, time.UTC).Unix()
		to := time.Date(y+1, 1, 1, 0, 0, 0, 0, time.UTC).Unix()
		for t := from; t < to; t += 3600 {
			if off(t) != off(t+3600) {
				lo, hi := t, t+3600 // off(lo) != off(hi)
				for hi-lo > 1 {
					mid := (lo + hi) / 2
					if off(mid) == off(lo) {
						lo = mid
					} else {
						hi = mid
					}
				}
				z.dst = append(z.dst, hi)
			}
		}
	}
	return z, nil
}

// c22RefUTCOffset is the offset the API configures for (location, week start): the zone's
// standard offset plus whole days such that 7-day buckets begin on the week start day
// (1970-01-01 was a Thursday). The internal/api run of this property checks that
// calcUTCOffset returns exactly these values.
func c22RefUTCOffset(z *c22Zone, ws int) int64 {
	return z.std + int64(4-ws)*c22Day
}

func c22Month0(t int64, z *c22Zone) int {
	tt := time.Unix(t, 0).In(z.loc)
	return tt.Year()*12 + int(tt.Month()) - 1
}

// c22Aligned: is t aligned to step in the zone's local (standard) time / calendar?
// A month-aligned instant is the first instant of a calendar month of the location (this is
// local midnight of the 1st except where that midnight falls into a DST gap).
func c22Aligned(t, step int64, z *c22Zone, ws int) bool {
	if step == c22Month {
		return c22Month0(t-1, z) != c22Month0(t, z)
	}
	l := t + z.std // local standard seconds
	switch {
	case step == c22Week:
		if c22FloorMod(l, c22Day) != 0 {
			return false
		}
		return c22FloorMod(4+c22FloorDiv(l, c22Day), 7) == int64(ws)
	case step <= c22Day:
		return c22FloorMod(l, step) == 0 // every such step divides a day: time of day is a multiple of the step
	}
	return false
}

// c22RefNext: the point after the aligned point t at the given step. For months: the first
// instant of the next calendar month (found by bisection on the local month number when the
// direct computation does not land on a month change).
func c22RefNext(t, step int64, z *c22Zone) int64 {
	if step != c22Month {
		return t + step
	}
	tt := time.Unix(t, 0).In(z.loc)
	c := time.Date(tt.Year(), tt.Month()+1, 1, 0, 0, 0, 0, z.loc).Unix()
	m := c22Month0(t, z)
	if c > t && c22Month0(c, z) == m+1 && c22Month0(c-1, z) == m {
		return c
	}
	lo, hi := t, t+62*c22Day // month(lo) <= m < month(hi)
	for hi-lo > 1 {
		mid := (lo + hi) / 2
		if c22Month0(mid, z) <= m {
			lo = mid
		} else {
			hi = mid
		}
	}
	return hi
}

// c22MisalignedSig: a monthly point that sits on the 1st of a month but not at its first
// instant is the signature of month stepping by "same wall clock time one month later".
func c22MisalignedSig(p, step int64, z *c22Zone) string {
	if step == c22Month && time.Unix(p, 0).In(z.loc).Day() == 1 {
		return "monthly-points-shifted-after-month-start-in-dst-gap"
	}
	return "misaligned-point"
}

// c22PointCost estimates how many single steps the code under test walks for a point query
// (it counts steps one by one and has no point limit in this mode).
func c22PointCost(c *c22Case) int64 {
	age := c.now - (c.start - c.p.offset)
	fin := int64(3600)
	if age < c22Switches[1] {
		fin = 1
	} else if age < c22Switches[0] {
		fin = 60
	}
	if c.step == c22Month {
		return 1
	}
	if int64(c.p.res) > fin {
		fin = int64(c.p.res)
	}
	return (c.end - c.start) / fin
}

type c22Profile struct {
	mode   QueryMode
	extend bool
	width  int64
	res    int
	offset int64
	two    bool // a second metric (resolution 1, offset 0) takes part in the query
}

type c22Case struct {
	zone             *c22Zone
	ws               int
	start, end, step int64
	now              int64
	p                c22Profile
	off2             int64 // offset of the second metric (when p.two)
	fam              bool  // case of grid D (metric-offset family): result classes are recorded
}

func (c *c22Case) String() string {
	s := fmt.Sprintf("loc=%s weekStart=%d start=%d end=%d step=%d now=%d mode=%d extend=%v width=%d res=%d offset=%d two=%v",
		c.zone.name, c.ws, c.start, c.end, c.step, c.now, c.p.mode, c.p.extend, c.p.width, c.p.res, c.p.offset, c.p.two)
	if c.p.two && c.off2 != 0 {
		s += fmt.Sprintf(" offset2=%d", c.off2)
	}
	return s
}

type c22Viol struct {
	sig, msg string
	detail   map[string]any
}

type c22Acc struct {
	viols                     []c22Viol // published sorted at the end: examples do not depend on worker timing
	calls, nontrivial, points int64
	outcomes                  map[string]struct{}
	kinds                     map[string]int64
	samples                   []string
}

func c22NewAcc() *c22Acc {
	return &c22Acc{outcomes: map[string]struct{}{}, kinds: map[string]int64{}}
}

func (a *c22Acc) violate(sig, msg string, detail map[string]any) {
	// keep the three smallest examples per signature (smallest, not first: independent of which
	// worker saw which case)
	a.viols = append(a.viols, c22Viol{sig, msg, detail})
	n, worst := 0, -1
	for i, v := range a.viols {
		if v.sig == sig {
			n++
			if worst < 0 || v.msg > a.viols[worst].msg {
				worst = i
			}
		}
	}
	if n > 3 {
		a.viols = append(a.viols[:worst], a.viols[worst+1:]...)
	}
}

func (a *c22Acc) publish(rep *mc.Report) {
	sort.Slice(a.viols, func(i, j int) bool {
		if a.viols[i].sig != a.viols[j].sig {
			return a.viols[i].sig < a.viols[j].sig
		}
		return a.viols[i].msg < a.viols[j].msg
	})
	for _, v := range a.viols {
		rep.Violate(v.sig, v.msg, v.detail)
	}
	sort.Strings(a.samples)
	for _, s := range a.samples {
		rep.Sample(s)
	}
}

func (a *c22Acc) merge(b *c22Acc) {
	for _, v := range b.viols {
		a.violate(v.sig, v.msg, v.detail)
	}
	a.calls += b.calls
	a.nontrivial += b.nontrivial
	a.points += b.points
	for k := range b.outcomes {
		a.outcomes[k] = struct{}{}
	}
	for k, v := range b.kinds {
		a.kinds[k] += v
	}
	a.samples = append(a.samples, b.samples...)
}

// c22Run performs one call of the real code and checks every clause of the statement.
func c22Run(rep *mc.Report, acc *c22Acc, c *c22Case) {
	if c.p.mode == PointQuery && c22PointCost(c) > 100000 {
		acc.kinds["skipped-long-point-query"]++
		return
	}
	acc.calls++
	z := c.zone
	utc := c22RefUTCOffset(z, c.ws)
	metric := &format.MetricMetaValue{Resolution: c.p.res}
	var metric2 *format.MetricMetaValue
	args := GetTimescaleArgs{
		Start: c.start, End: c.end, Step: c.step, TimeNow: c.now, ScreenWidth: c.p.width,
		Mode: c.p.mode, Extend: c.p.extend, Metric: metric, Offset: c.p.offset,
		Location: z.loc, UTCOffset: utc,
	}
	args.QueryStat.Add(metric, c.p.offset) // what GetLODs(args) does
	if c.p.two {
		metric2 = &format.MetricMetaValue{Resolution: 1}
		args.QueryStat.Add(metric2, c.off2)
	}
	viol := func(sig, msg string, ts *Timescale) {
		d := map[string]any{"case": c.String(), "utc_offset": utc}
		if ts != nil {
			d["lods"] = fmt.Sprint(ts.LODs)
			d["start_x"] = ts.StartX
			n := len(ts.Time)
			if n > 6 {
				d["time_head"] = fmt.Sprint(ts.Time[:3])
				d["time_tail"] = fmt.Sprint(ts.Time[n-3:])
			} else {
				d["time"] = fmt.Sprint(ts.Time)
			}
			d["len"] = n
		}
		acc.violate("C22:"+sig, msg+" ["+c.String()+"]", d)
	}
	var ts Timescale
	var err error
	func() {
		defer func() {
			if r := recover(); r != nil {
				err = fmt.Errorf("PANIC: %v", r)
			}
		}()
		ts, err = GetTimescale(args)
	}()
	maxOff := c.p.offset
	if c.p.two && c.off2 > maxOff {
		maxOff = c.off2
	}
	if maxOff < 0 {
		maxOff = 0
	}
	point := c.p.mode == PointQuery
	if err != nil {
		msg := err.Error()
		switch {
		case strings.HasPrefix(msg, "PANIC"):
			viol("panic", msg, nil)
			acc.kinds["panic"]++
		case err == errQueryOutOfRange:
			acc.kinds["err-too-many-points"]++
			acc.outcomes["err-range"] = struct{}{}
		case strings.HasPrefix(msg, "offset "):
			acc.kinds["err-offset-not-multiple"]++
			acc.outcomes["err-offset"] = struct{}{}
			if c.fam {
				// which level step refused which offset: shows that the grid holds offsets that are
				// multiples of a finer level step and not of the coarsest one
				var o, st int64
				fmt.Sscanf(msg, "offset %d is not multiple of step %d", &o, &st)
				acc.kinds[fmt.Sprintf("D-refused:coarsest-step=%d", st)]++
				acc.outcomes[fmt.Sprintf("D-refused offset=%d step=%d", o, st)] = struct{}{}
			}
		default:
			// an internal failure instead of a time axis for a well-formed query
			acc.kinds["err-internal"]++
			if c.end > c.start && c.step >= 0 {
				viol("internal-error-at-lod-switch-edge", "no time axis, internal error: "+msg, nil)
			}
		}
		return
	}
	T := ts.Time
	if len(T) == 0 {
		acc.kinds["empty"]++
		acc.outcomes["empty"] = struct{}{}
		future := c.start > c.now // (a start after now with shifted data in the past may or may not be answered: not judged)
		if c.end > c.start && c.step >= 0 && !future && (!point || c.p.extend) {
			viol("empty-axis", "no points although the range is not empty and not in the future", &ts)
		}
		return
	}
	acc.points += int64(len(T))
	L := ts.LODs
	// --- levels: table resolutions, finer toward the present
	for i, l := range L {
		if !c22IsTableStep(l.Step) {
			viol("step-not-a-table-resolution", fmt.Sprintf("level %d has step %d", i, l.Step), &ts)
			return
		}
		if i > 0 && l.Step > L[i-1].Step {
			viol("levels-not-finer-toward-now", fmt.Sprintf("level %d step %d after step %d", i, l.Step, L[i-1].Step), &ts)
		}
		if l.Len <= 0 {
			viol("empty-level", fmt.Sprintf("level %d has %d points", i, l.Len), &ts)
			return
		}
	}
	var key strings.Builder
	fmt.Fprintf(&key, "n=%d sx=%d vs=%d ve=%d", len(T), ts.StartX, ts.ViewStartX, ts.ViewEndX)
	for _, l := range L {
		fmt.Fprintf(&key, " %d*%d", l.Len, l.Step)
	}
	if point {
		acc.kinds["point"]++
		// Time is one interval [Time[0], Time[1]) made of whole steps of the single level
		if len(T) != 2 || len(L) != 1 {
			viol("point-query-shape", fmt.Sprintf("point query returned %d times, %d levels", len(T), len(L)), &ts)
			return
		}
		st := L[0].Step
		if !(T[0] < T[1]) {
			viol("not-increasing", "point query interval is not increasing", &ts)
			return
		}
		for _, p := range T {
			if !c22Aligned(p, st, z, c.ws) {
				viol(c22MisalignedSig(p, st, z), fmt.Sprintf("point query bound %d (%s) of [%d,%d) not aligned to step %d", p, time.Unix(p, 0).In(z.loc).Format(time.RFC3339), T[0], T[1], st), &ts)
				break
			}
		}
		if c.p.extend && (T[0] > c.start || T[1] < c.end) {
			viol("range-not-covered", "extended point query interval does not cover the requested range", &ts)
		}
		acc.outcomes[key.String()] = struct{}{}
		if T[0] != c.start || T[1] != c.end {
			acc.nontrivial++
		}
		return
	}
	acc.kinds["axis"]++
	// --- points: strictly increasing, consecutive difference = step of their level, aligned
	sum := 0
	for _, l := range L {
		sum += l.Len
	}
	if sum != len(T) {
		viol("level-lengths-do-not-match-points", fmt.Sprintf("levels hold %d points, axis has %d", sum, len(T)), &ts)
		return
	}
	if len(T) > MaxSlice {
		viol("point-limit", fmt.Sprintf("%d points > limit %d", len(T), MaxSlice), &ts)
	}
	idx := 0
	for _, l := range L {
		for j := 0; j < l.Len; j++ {
			p := T[idx]
			if !c22Aligned(p, l.Step, z, c.ws) {
				viol(c22MisalignedSig(p, l.Step, z), fmt.Sprintf("point %d (index %d, %s) not aligned to step %d", p, idx, time.Unix(p, 0).In(z.loc).Format(time.RFC3339), l.Step), &ts)
				return
			}
			if idx+1 < len(T) {
				q := T[idx+1]
				if q <= p {
					viol("not-increasing", fmt.Sprintf("points %d,%d at index %d", p, q, idx), &ts)
					return
				}
				if q != c22RefNext(p, l.Step, z) {
					sig := "gap-or-overlap"
					if ms := c22MisalignedSig(q, l.Step, z); ms != "misaligned-point" {
						sig = ms
					}
					viol(sig, fmt.Sprintf("points %d,%d at index %d differ by %d, level step %d", p, q, idx, q-p, l.Step), &ts)
					return
				}
			}
			idx++
		}
	}
	// --- indices and coverage
	// (StartX == len(Time) is the documented "empty" answer: no aligned point lies inside the range)
	if !(0 <= ts.StartX && ts.StartX <= ts.ViewStartX && ts.ViewStartX <= ts.ViewEndX && ts.ViewEndX <= len(T)) {
		viol("index-out-of-order", fmt.Sprintf("StartX=%d ViewStartX=%d ViewEndX=%d len=%d", ts.StartX, ts.ViewStartX, ts.ViewEndX, len(T)), &ts)
		return
	}
	for j := 0; j < ts.StartX; j++ {
		if T[j] >= c.start {
			viol("start-index", fmt.Sprintf("point %d at index %d < StartX=%d is inside the requested range", T[j], j, ts.StartX), &ts)
			break
		}
	}
	if ts.StartX == 0 && T[0] > c.start {
		viol("start-not-covered", fmt.Sprintf("first point %d after requested start", T[0]), &ts)
	}
	lastStep := L[len(L)-1].Step
	if c22RefNext(T[len(T)-1], lastStep, z) < c.end {
		sig := "end-not-covered"
		if lastStep == c22Month && maxOff != 0 {
			// months are counted on the range shifted by the offset, points are generated on the unshifted one
			sig = "monthly-axis-with-offset-shorter-than-range"
		}
		viol(sig, fmt.Sprintf("last point %d + step %d ends before requested end", T[len(T)-1], lastStep), &ts)
	}
	// --- per-level ranges handed to storage
	checkLODs := func(m *format.MetricMetaValue, off int64) {
		var lods []LOD
		func() {
			defer func() {
				if r := recover(); r != nil {
					viol("panic", fmt.Sprintf("GetLODs: %v", r), &ts)
				}
			}()
			lods = ts.GetLODs(m, off)
		}()
		if lods == nil {
			return
		}
		if len(lods) != len(L) {
			viol("lod-ranges-count", fmt.Sprintf("%d ranges for %d levels", len(lods), len(L)), &ts)
			return
		}
		idx := 0
		for i, r := range lods {
			if r.StepSec != L[i].Step {
				viol("lod-range-step", fmt.Sprintf("range %d step %d, level step %d", i, r.StepSec, L[i].Step), &ts)
				return
			}
			if i > 0 && r.FromSec != lods[i-1].ToSec {
				viol("lod-ranges-not-contiguous", fmt.Sprintf("range %d starts at %d, previous ends at %d", i, r.FromSec, lods[i-1].ToSec), &ts)
				return
			}
			if !c22Aligned(r.FromSec, r.StepSec, z, c.ws) {
				viol("lod-range-misaligned", fmt.Sprintf("range %d starts at %d, step %d", i, r.FromSec, r.StepSec), &ts)
				return
			}
			// the range holds exactly the points of its level
			e := r.FromSec
			for k := 0; k < L[i].Len; k++ {
				e = c22RefNext(e, r.StepSec, z)
			}
			if r.ToSec != e {
				viol("lod-range-does-not-match-points", fmt.Sprintf("range %d [%d,%d) does not hold %d steps of %d", i, r.FromSec, r.ToSec, L[i].Len, r.StepSec), &ts)
				return
			}
			if off == 0 || r.StepSec != c22Month {
				// (with a monthly step the meaning of a seconds offset is left open by the statement)
				if r.FromSec != T[idx]-off {
					sig := "lod-range-does-not-match-points"
					if off != 0 {
						// contiguous, aligned, of the right length - but moved by something else than the metric's offset
						sig = "lod-ranges-shifted-by-other-than-metric-offset"
					}
					viol(sig, fmt.Sprintf("range %d starts at %d, first point of the level %d, offset %d: shifted by %d", i, r.FromSec, T[idx], off, T[idx]-r.FromSec), &ts)
					return
				}
			}
			idx += L[i].Len
		}
	}
	checkLODs(metric, c.p.offset)
	if metric2 != nil {
		checkLODs(metric2, c.off2)
	}
	if c.fam {
		fmt.Fprintf(&key, " off=%d", c.p.offset)
		if c.p.two {
			fmt.Fprintf(&key, ",%d", c.off2)
		}
		if maxOff != 0 || c.p.offset != 0 {
			cls := "one-level"
			if len(L) > 1 {
				cls = fmt.Sprintf("levels=%d..%d", L[0].Step, L[len(L)-1].Step)
			}
			acc.kinds["D-accepted-with-offset:"+cls]++
		}
	}
	acc.outcomes[key.String()] = struct{}{}
	if len(L) > 1 || ts.StartX == len(T) || T[ts.StartX] != c.start || L[0].Step == c22Month {
		acc.nontrivial++
		if len(L) > 2 && len(acc.samples) < 2 {
			acc.samples = append(acc.samples, c.String()+" => "+key.String())
		}
	}
}

func c22Dedupe(a []int64) []int64 {
	sort.Slice(a, func(i, j int) bool { return a[i] < a[j] })
	out := a[:0]
	for i, v := range a {
		if i == 0 || v != a[i-1] {
			out = append(out, v)
		}
	}
	return out
}

// c22Anchors: boundaries of the zone: standard-time midnights (a Wednesday, a Monday, a
// Sunday), wall-clock midnights in both seasons, month ends (after 29-day February, after a
// 30-day month, year end), every offset change of the scanned years.
func c22Anchors(z *c22Zone) (near, far []int64) {
	stdMid := func(y int, m time.Month, d int) int64 {
		return time.Date(y, m, d, 0, 0, 0, 0, time.UTC).Unix() - z.std
	}
	loc := func(y int, m time.Month, d int) int64 { return time.Date(y, m, d, 0, 0, 0, 0, z.loc).Unix() }
	near = append(near, stdMid(2024, 6, 12), stdMid(2024, 6, 10), stdMid(2024, 6, 9),
		loc(2024, 6, 12), loc(2024, 1, 10), loc(2024, 3, 1), loc(2024, 5, 1), loc(2025, 1, 1))
	lo, hi := loc(2023, 12, 1), loc(2025, 2, 1)
	for _, t := range z.dst {
		if t >= lo && t < hi {
			near = append(near, t)
		} else {
			far = append(far, t)
		}
	}
	far = append(far, 0, 1<<31-1)
	return c22Dedupe(near), c22Dedupe(far)
}

type c22Point struct {
	t   int64
	far bool
}

// c22Points: anchors +- deltas. Far anchors (epoch edges, offset changes of other years) get
// +-{0,1} only.
func c22Points(z *c22Zone, d int64, deltas []int64) []c22Point {
	near, far := c22Anchors(z)
	seen := map[int64]bool{}
	var out []c22Point
	add := func(t int64, f bool) {
		if !seen[t] {
			seen[t] = true
			out = append(out, c22Point{t, f})
		}
	}
	for _, a := range near {
		for _, k := range deltas { // k in units: 0, +-1 second (code 1), +-step (code 2)
			switch k {
			case 0:
				add(a, false)
			case 1, -1:
				add(a+k, false)
			case 2:
				add(a+d, false)
			case -2:
				add(a-d, false)
			}
		}
	}
	for _, a := range far {
		add(a-1, true)
		add(a, true)
		add(a+1, true)
	}
	sort.Slice(out, func(i, j int) bool { return out[i].t < out[j].t })
	return out
}

var c22Switches = []int64{33*c22Day - 120, 52*3600 - 2} // distance of the level switches from now

func c22Parallel(n int, f func(i int)) {
	w := runtime.GOMAXPROCS(0)
	var wg sync.WaitGroup
	ch := make(chan int, n)
	for i := 0; i < n; i++ {
		ch <- i
	}
	close(ch)
	for k := 0; k < w; k++ {
		wg.Add(1)
		go func() {
			defer wg.Done()
			for i := range ch {
				f(i)
			}
		}()
	}
	wg.Wait()
}

func TestVerifC22(t *testing.T) {
	rep := mc.NewReport("C22")
	rep.Rule = "grid A: every (start,end) pair, start<end, of {zone boundaries: standard-time and wall-clock midnights, week starts, month ends after 29/30/31-day months, both DST transitions; epoch 0, 2^31-1 and offset changes of other years} +- {0,1,step} x every table step, the month step, 0 and a non-table step x now in {inside, at end, far after, start + each level-switch distance; thorough: +-1 around those, before start} x 5 zones x week starts x query profiles; grid B: the full product mode x extend x width x metric resolution x offset x second metric x step on fixed ranges (level-switch edges, DST transitions, months); grid C: ranges of exactly 1,2,7679,7680,7681 steps; plus the rounding primitives on the same boundary set. Non-trivial = axis with more than one level, or a start that had to be rounded, or monthly steps, or a point interval that differs from the request"
	thorough := mc.Thorough()
	zoneNames := []string{"UTC", "Europe/Moscow", "America/New_York", "Asia/Kolkata", "Pacific/Chatham"}
	var zones []*c22Zone
	for _, n := range zoneNames {
		z, err := c22LoadZone(n, []int{2011, 2014, 2024})
		if err != nil {
			t.Fatalf("zone %s: %v", n, err)
		}
		zones = append(zones, z)
	}
	type zw struct {
		z  *c22Zone
		ws int
	}
	var zws []zw // (zone, week start) combinations of grid A
	for _, z := range zones {
		for ws := 0; ws < 7; ws++ {
			dstZone := z.name == "America/New_York" || z.name == "Pacific/Chatham"
			if ws == 1 || (ws == 0 && z.name == "America/New_York") || (thorough && ((dstZone && (ws == 0 || ws == 6)) || (ws == 0 && z.name == "UTC"))) {
				zws = append(zws, zw{z, ws})
			}
		}
	}
	steps := append([]int64{0, 7}, c22TableSteps...)
	stepsA := steps
	if !thorough {
		stepsA = append([]int64{0}, c22TableSteps...) // the non-table step 7 is enumerated in grid B
	}
	deltas := mc.Pick([]int64{-1, 0, 1, 2}, []int64{-2, -1, 0, 1, 2})
	profilesA := []c22Profile{
		{RangeQuery, false, 0, 1, 0, false},
		{InstantQuery, true, 4000, 5, c22Week, true},
		{PointQuery, false, 100, 60, 0, false},
	}
	if thorough {
		profilesA = append(profilesA,
			c22Profile{RangeQuery, true, 1, 15, c22Month, false},
			c22Profile{PointQuery, true, 0, 1, c22Week, false},
		)
	}
	rep.Bounds["zones"] = zoneNames
	rep.Bounds["zone_weekstart_combinations_grid_a"] = len(zws)
	rep.Bounds["steps"] = steps
	rep.Bounds["deltas_per_anchor"] = len(deltas)
	rep.Bounds["grid_a_profiles"] = len(profilesA)
	rep.Assume("alignment 'in the configured time zone' is decided in the zone's standard time (fixed offset incl. week start, as the API configures it once at start-up); months are calendar months of the location; wall-clock alignment of >=4h steps during DST is not demanded")
	rep.Assume("time zone database of the host (/usr/share/zoneinfo) and Go's time.Date as the meaning of the calendar")

	total := c22NewAcc()
	var mu sync.Mutex

	// ---------------- grid A
	type unit struct {
		zw
		step int64
		x    int
	}
	var units []unit
	for _, c := range zws {
		for _, s := range stepsA {
			d := s
			if d == 0 {
				d = 1
			}
			n := len(c22Points(c.z, d, deltas))
			for x := 0; x < n; x++ {
				units = append(units, unit{c, s, x})
			}
		}
	}
	var capped bool
	c22Parallel(len(units), func(i int) {
		if mc.Expired() {
			mu.Lock()
			capped = true
			mu.Unlock()
			return
		}
		u := units[i]
		acc := c22NewAcc()
		d := u.step
		if d == 0 {
			d = 1
		}
		pts := c22Points(u.z, d, deltas)
		// quick: a far point is paired with the other far points and with three near points only
		nearSel := map[int]bool{}
		if !thorough {
			var ni []int
			for k, p := range pts {
				if !p.far {
					ni = append(ni, k)
				}
			}
			nearSel[ni[0]], nearSel[ni[len(ni)/2]], nearSel[ni[len(ni)-1]] = true, true, true
		}
		x := u.x
		for y := x + 1; y < len(pts); y++ {
			if !thorough && (pts[x].far || pts[y].far) && !((pts[x].far || nearSel[x]) && (pts[y].far || nearSel[y])) {
				continue
			}
			s, e := pts[x].t, pts[y].t
			nows := []int64{s + (e-s)/2, e, e + 400*c22Day, s + c22Switches[0], s + c22Switches[1]}
			if thorough {
				nows = append(nows, s-1, s+c22Switches[0]-1, s+c22Switches[0]+1, s+c22Switches[1]-1, s+c22Switches[1]+1)
			}
			nows = c22Dedupe(nows)
			for _, now := range nows {
				for _, p := range profilesA {
					c := c22Case{zone: u.z, ws: u.ws, start: s, end: e, step: u.step, now: now, p: p}
					c22Run(rep, acc, &c)
				}
			}
		}
		mu.Lock()
		total.merge(acc)
		mu.Unlock()
	})
	if capped {
		rep.Cap("wall_budget")
	}
	gridA := total.calls

	// ---------------- grid B: full product of the query parameters on fixed ranges
	modes := []QueryMode{RangeQuery, InstantQuery, PointQuery, TagsQuery}
	widths := []int64{0, 1, 100, 4000}
	ress := []int{1, 5, 15, 60}
	offsets := []int64{0, 1, 3600, c22Week, c22Month}
	stepsB := steps
	if !thorough {
		stepsB = []int64{0, 7, 1, 60, 3600, c22Day, c22Month}
	}
	type rng struct{ s, e, now int64 }
	type unitB struct {
		z  *c22Zone
		ws int
		r  rng
	}
	var unitsB []unitB
	for _, z := range zones {
		day := time.Date(2024, 6, 10, 0, 0, 0, 0, time.UTC).Unix() - z.std
		may := time.Date(2024, 5, 1, 0, 0, 0, 0, z.loc).Unix()
		sep := time.Date(2024, 9, 1, 0, 0, 0, 0, z.loc).Unix()
		ranges := []rng{
			{day, day + 600, day + 610},
			{day, day + c22Switches[1], day + c22Switches[1]},
			{day, day + c22Switches[0], day + c22Switches[0]},
			{day - 40*c22Day + 17, day + 100, day + 100},
			{may, sep + 1, sep + c22Day},
			{day + 3, day + 4, day + 4},
			{may - 1, may + 1, may + 2},
		}
		for _, t := range z.dst {
			if t > day-400*c22Day && t < day+400*c22Day {
				ranges = append(ranges, rng{t - 3*3600, t + 3*3600, t + 4*3600})
			}
		}
		wss := []int{1}
		if thorough {
			ranges = append(ranges,
				rng{day - 1, day + c22Week + 1, day + 10*c22Day},
				rng{day - 400*c22Day, day, day},
				rng{day + 59, day + 3601, day + 3600},
				rng{0, day, day},
				rng{day, day + 7200, day + 7210},
			)
			wss = []int{1, 0, 6}
		}
		for _, ws := range wss {
			for _, r := range ranges {
				unitsB = append(unitsB, unitB{z, ws, r})
			}
		}
	}
	c22Parallel(len(unitsB), func(i int) {
		u := unitsB[i]
		acc := c22NewAcc()
		for _, st := range stepsB {
			for _, m := range modes {
				for _, ext := range []bool{false, true} {
					for _, w := range widths {
						for _, rs := range ress {
							for _, off := range offsets {
								for _, two := range []bool{false, true} {
									c := c22Case{zone: u.z, ws: u.ws, start: u.r.s, end: u.r.e, step: st, now: u.r.now,
										p: c22Profile{m, ext, w, rs, off, two}}
									c22Run(rep, acc, &c)
								}
							}
						}
					}
				}
			}
		}
		mu.Lock()
		total.merge(acc)
		mu.Unlock()
	})
	gridB := total.calls - gridA

	// ---------------- grid C: ranges of exactly k steps around the point limit
	type unitC struct {
		zw
		step int64
	}
	var unitsC []unitC
	for _, c := range zws {
		if !thorough && c.ws != 1 {
			continue
		}
		for _, st := range c22TableSteps {
			unitsC = append(unitsC, unitC{c, st})
		}
	}
	c22Parallel(len(unitsC), func(i int) {
		u := unitsC[i]
		z, st := u.z, u.step
		acc := c22NewAcc()
		near, _ := c22Anchors(z)
		if !thorough {
			near = []int64{near[0], near[len(near)/2], near[len(near)-1]}
		}
		for _, a := range near {
			for _, d := range []int64{-1, 0, 1} {
				for _, k := range []int64{1, 2, 7679, 7680, 7681} {
					s := a + d
					e := s + k*st
					if st == c22Month {
						if k > 2 {
							continue
						}
						e = s + k*c22Month
					}
					for _, now := range []int64{e, e + 5, s + (e-s)/2} {
						for _, p := range []c22Profile{
							{RangeQuery, false, 0, 1, 0, false},
							{RangeQuery, true, 0, 1, 0, false},
							{RangeQuery, false, 4000, 1, 0, false},
							{PointQuery, false, 0, 1, 0, false},
						} {
							for _, qs := range []int64{st, 0} {
								c := c22Case{zone: z, ws: u.ws, start: s, end: e, step: qs, now: now, p: p}
								c22Run(rep, acc, &c)
							}
						}
					}
				}
			}
		}
		mu.Lock()
		total.merge(acc)
		mu.Unlock()
	})
	gridC := total.calls - gridA - gridB

	// ---------------- grid D: the metric offset (time shift) as a dimension, on one- and two-level timescales
	//
	// The axis is shared by all metrics of a query; each metric's storage ranges are the axis moved
	// back by that metric's offset. That only works when the offset is a whole number of steps of
	// every level, which the code under test decides per query (it may refuse). Here: every offset
	// of an alphabet built from the table steps themselves (each step, three times each step, the sum
	// of each two neighbouring steps, the monthly marker, 4 weeks, 2 days, three negative ones - i.e. for every level step
	// s there are offsets below s, equal to s, multiples of s and non-multiples between them) x the
	// offset of a second metric (absent or from the same alphabet) x ranges whose ends sit on both
	// sides of both level switches (so that the unshifted and/or the shifted range straddles a
	// switch: two-level axes 1h+{15m,5m,1m} and 1m+{15s,5s,1s}) x requested steps x profiles. The
	// oracle is c22Run unchanged: an accepted query must satisfy every clause (coverage; storage
	// ranges contiguous, aligned, of the level's length and equal to the level's points minus the
	// metric's offset), a refused one ("offset is not multiple of step") is not judged.
	var offAlpha []int64
	{
		fixed := []int64{1, 5, 15, 60, 300, 900, 3600, 4 * 3600, c22Day, c22Week}
		offAlpha = append(offAlpha, 0, c22Month, 4*c22Week, 2*c22Day)
		offAlpha = append(offAlpha, -60, -2700, -c22Day) // shifts into the future
		for i, st := range fixed {
			offAlpha = append(offAlpha, st, 3*st)
			if i > 0 {
				offAlpha = append(offAlpha, st+fixed[i-1])
			}
		}
		offAlpha = c22Dedupe(offAlpha)
	}
	const noSecond = int64(-1)
	off2Alpha := mc.Pick([]int64{noSecond, 0, 60, 900, 3600, c22Day},
		[]int64{noSecond, 0, 1, 15, 60, 300, 900, 2700, 3600, 4 * 3600, c22Day, c22Week, c22Month})
	stepsD := mc.Pick([]int64{0, 60, 900}, []int64{0, 1, 60, 900, 3600})
	profilesD := []c22Profile{
		{RangeQuery, false, 0, 1, 0, false},
		{InstantQuery, true, 4000, 5, 0, false},
		{RangeQuery, false, 0, 60, 0, false},
	}
	if thorough {
		profilesD = append(profilesD, c22Profile{TagsQuery, true, 100, 1, 0, false})
	}
	e0, e1 := c22Switches[0], c22Switches[1] // ages of the two level switches
	startAges := []int64{e0 + 37*c22Day, e0 + 7*c22Day, e0 + c22Day, e0 + 7200, e1 + c22Day, e1 + 3600, e1 + 120, 5 * 3600, 3 * 3600}
	endAges := []int64{e0 - 3*3600, e0 - 3*c22Day, e1 - 300, e1 - 1800, e1 - 10*3600, 1800, 0}
	startShifts := mc.Pick([]int64{0, 7}, []int64{0, 7, 1799})
	type unitD struct {
		zw
		now, s, e int64
	}
	var unitsD []unitD
	for _, c := range zws {
		if !thorough && !(c.ws == 1 && (c.z.name == "UTC" || c.z.name == "Asia/Kolkata" || c.z.name == "Pacific/Chatham")) {
			continue
		}
		if thorough && !(c.ws == 1 || (c.ws == 0 && c.z.name == "America/New_York")) {
			continue
		}
		day := time.Date(2024, 6, 10, 0, 0, 0, 0, time.UTC).Unix() - c.z.std
		nowsD := []int64{day + 47*3600}
		if thorough && c.z.name == "UTC" {
			nowsD = append(nowsD, day+40000+17) // a now that is not aligned to anything
		}
		for _, now := range nowsD {
			for _, sa := range startAges {
				for _, ea := range endAges {
					for _, sh := range startShifts {
						if s, e := now-sa-sh, now-ea; s < e {
							unitsD = append(unitsD, unitD{c, now, s, e})
						}
					}
				}
			}
		}
	}
	rep.Bounds["grid_d_offset_alphabet"] = offAlpha
	rep.Bounds["grid_d_second_metric_offsets"] = len(off2Alpha)
	rep.Bounds["grid_d_ranges"] = len(unitsD)
	rep.Bounds["grid_d_steps"] = stepsD
	rep.Bounds["grid_d_profiles"] = len(profilesD)
	var cappedD bool
	startD := time.Now() // for the log line only
	c22Parallel(len(unitsD), func(i int) {
		if mc.Expired() {
			mu.Lock()
			cappedD = true
			mu.Unlock()
			return
		}
		u := unitsD[i]
		acc := c22NewAcc()
		for _, st := range stepsD {
			for _, p := range profilesD {
				for _, off := range offAlpha {
					for _, o2 := range off2Alpha {
						q := p
						q.offset = off
						c := c22Case{zone: u.z, ws: u.ws, start: u.s, end: u.e, step: st, now: u.now, p: q, fam: true}
						if o2 != noSecond {
							c.p.two, c.off2 = true, o2
						}
						c22Run(rep, acc, &c)
					}
				}
			}
		}
		mu.Lock()
		total.merge(acc)
		mu.Unlock()
	})
	if cappedD && !capped {
		rep.Cap("wall_budget")
	}
	gridD := total.calls - gridA - gridB - gridC
	wallD := time.Since(startD)

	// ---------------- the rounding primitives themselves
	var prim int64
	for _, z := range zones {
		near, far := c22Anchors(z)
		for ws := 0; ws < 7; ws++ {
			utc := c22RefUTCOffset(z, ws)
			for _, st := range c22TableSteps {
				for _, a := range append(append([]int64{}, near...), far...) {
					for _, d := range []int64{-st, -1, 0, 1, st, -3 * c22Week, 3*c22Week + 1} {
						tm := a + d
						prim++
						r := startOfLOD(tm, st, z.loc, utc)
						if !c22Aligned(r, st, z, ws) || r > tm || c22RefNext(r, st, z) <= tm {
							rep.Violate("C22:round-down", fmt.Sprintf("startOfLOD(%d, step %d, %s, weekStart %d) = %d is not the aligned point at or before t", tm, st, z.name, ws, r), nil)
						}
						if f := StepForward(r, st, z.loc); f != c22RefNext(r, st, z) {
							rep.Violate("C22:step-forward", fmt.Sprintf("StepForward(%d, step %d, %s) = %d, want %d", r, st, z.name, f, c22RefNext(r, st, z)), nil)
						}
						if st != c22Month {
							if rt := roundTime(tm, st, utc); rt != r {
								rep.Violate("C22:round-down", fmt.Sprintf("roundTime(%d,%d,%d)=%d, startOfLOD=%d", tm, st, utc, rt, r), nil)
							}
						}
						// endOfLOD: walks whole steps from the start; without "le" it ends at or after the end
						// (the level covers its part of the range), with "le" it never passes the end
						for _, k := range []int64{0, 1, 3} {
							end := r
							for j := int64(0); j < k; j++ {
								end = c22RefNext(end, st, z)
							}
							for _, de := range []int64{0, 1, -1} {
								e2 := end + de
								got, n := endOfLOD(r, st, e2, false, z.loc)
								walked := r
								for j := 0; j < n; j++ {
									walked = c22RefNext(walked, st, z)
								}
								if got != walked || got < e2 || n < 0 {
									rep.Violate("C22:end-of-lod", fmt.Sprintf("endOfLOD(%d, step %d, end %d) = (%d,%d): not %d whole steps from the start or short of the end, in %s", r, st, e2, got, n, n, z.name), nil)
								}
								gotLE, nLE := endOfLOD(r, st, e2, true, z.loc)
								walked = r
								for j := 0; j < nLE; j++ {
									walked = c22RefNext(walked, st, z)
								}
								if gotLE != walked || (nLE > 0 && gotLE > e2) {
									rep.Violate("C22:end-of-lod", fmt.Sprintf("endOfLOD(%d, step %d, end %d, le) = (%d,%d): not whole steps from the start or past the end, in %s", r, st, e2, gotLE, nLE, z.name), nil)
								}
								prim++
							}
						}
					}
				}
			}
		}
	}

	for k := range total.outcomes {
		rep.Outcome(k)
	}
	total.publish(rep)
	rep.Bounds["grid_a_calls"] = gridA
	rep.Bounds["grid_b_calls"] = gridB
	rep.Bounds["grid_c_calls"] = gridC
	rep.Bounds["grid_d_calls"] = gridD
	rep.Bounds["primitive_checks"] = prim
	rep.Bounds["result_kinds"] = total.kinds
	rep.Bounds["points_checked"] = total.points
	rep.AddCounts(total.calls+prim, total.calls+prim, total.calls+prim, total.nontrivial)
	if err := rep.Write(); err != nil {
		t.Fatal(err)
	}
	t.Logf("C22 data_model: calls A=%d B=%d C=%d D=%d prim=%d points=%d outcomes=%d kinds=%v violations=%d gridD_wall=%v",
		gridA, gridB, gridC, gridD, prim, total.points, len(total.outcomes), total.kinds, rep.NumViolations(), wallD)
}
