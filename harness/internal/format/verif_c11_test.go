//go:build verif

package format

// C11: tag values are normalized and raw tag values parsed exactly.
// Full enumeration of inputs against an independent reference of the stated algebra.

import (
	"bytes"
	"fmt"
	"math/big"
	"runtime"
	"strconv"
	"sync"
	"testing"
	"unicode"
	"unicode/utf8"

	"github.com/VKCOM/statshouse/internal/verif/mc"
)

// c11RefValid is the statement's definition of a valid tag value, written independently.
func c11RefValid(s []byte) bool {
	if len(s) > 128 || !utf8.Valid(s) {
		return false
	}
	prevSpace := true // leading space is invalid
	for i := 0; i < len(s); {
		r, n := utf8.DecodeRune(s[i:])
		i += n
		if r == ' ' {
			if prevSpace {
				return false
			}
			prevSpace = true
			continue
		}
		if unicode.IsSpace(r) || !unicode.IsPrint(r) {
			return false
		}
		prevSpace = false
	}
	return len(s) == 0 || !prevSpace
}

func c11CheckString(rep *mc.Report, s []byte) {
	in := append([]byte{}, s...)
	forced := ForceValidStringValue(string(in))
	fail := func(sig, msg string) {
		rep.Violate("C11:"+sig, fmt.Sprintf("%s: input %q forced %q", msg, in, forced), map[string]any{"input_hex": fmt.Sprintf("%x", in)})
	}
	if !c11RefValid([]byte(forced)) {
		fail("forced-invalid", "forced value is not a valid tag value")
	}
	refValid := c11RefValid(in)
	if refValid && forced != string(in) {
		fail("not-identity", "forcing changed an already valid value")
	}
	if got := ValidStringValue(string(in)); got != refValid {
		fail("valid-predicate", fmt.Sprintf("ValidStringValue=%v, reference=%v", got, refValid))
	}
	if got := ValidStringValueBytes(in); got != refValid {
		fail("valid-predicate-bytes", fmt.Sprintf("ValidStringValueBytes=%v, reference=%v", got, refValid))
	}
	if again := ForceValidStringValue(forced); again != forced {
		fail("not-idempotent", fmt.Sprintf("forcing twice gives %q", again))
	}
	fb := ForceValidStringValueBytes(append([]byte{}, in...))
	if string(fb) != forced {
		fail("bytes-variant", fmt.Sprintf("ForceValidStringValueBytes gives %q", fb))
	}
	strict, err := AppendValidStringValue(nil, append([]byte{}, in...))
	if err != nil {
		if utf8.Valid(in) {
			fail("strict-fails-on-valid-utf8", "strict normalization failed on valid UTF-8")
		}
	} else if string(strict) != forced {
		fail("strict-differs", fmt.Sprintf("strict normalization gives %q", strict))
	}
	// appending must not disturb the destination prefix
	pre := []byte("pfx")
	st2, err2 := AppendValidStringValue(pre, append([]byte{}, in...))
	if err2 == nil && (!bytes.HasPrefix(st2, []byte("pfx")) || string(st2[3:]) != forced) {
		fail("append-prefix", fmt.Sprintf("append to prefix gives %q", st2))
	}
}

var c11Tokens = [][]byte{
	[]byte(" "), []byte("\t"), []byte("\u00a0"), {0}, {0x7f}, []byte("a"), []byte("\u00e9"), []byte("\u20ac"),
	[]byte("\u2028"), []byte("\u2029"), {0x80}, {0xc0, 0xaf}, {0xff}, []byte("\U0001F600"),
}

func c11Parallel(n int, f func(worker, i int)) {
	w := runtime.GOMAXPROCS(0)
	var wg sync.WaitGroup
	ch := make(chan int, 256)
	for k := 0; k < w; k++ {
		wg.Add(1)
		go func(k int) {
			defer wg.Done()
			for i := range ch {
				f(k, i)
			}
		}(k)
	}
	for i := 0; i < n; i++ {
		ch <- i
	}
	close(ch)
	wg.Wait()
}

func c11RawRef(s string) (ok32 bool, v32 int64, ok64 bool, v64 *big.Int, dontCare bool) {
	// reference: an optional '-' followed by one or more ASCII digits; '+' is a don't-care
	if len(s) == 0 {
		return false, 0, false, nil, false
	}
	body := s
	if body[0] == '+' {
		return false, 0, false, nil, true
	}
	if body[0] == '-' {
		body = body[1:]
	}
	if len(body) == 0 {
		return false, 0, false, nil, false
	}
	for i := 0; i < len(body); i++ {
		if body[i] < '0' || body[i] > '9' {
			return false, 0, false, nil, false
		}
	}
	v, _ := new(big.Int).SetString(s, 10)
	lo32, hi32 := big.NewInt(-1<<31), big.NewInt(1<<32-1)
	lo64 := new(big.Int).Neg(new(big.Int).Lsh(big.NewInt(1), 63))
	hi64 := new(big.Int).Sub(new(big.Int).Lsh(big.NewInt(1), 64), big.NewInt(1))
	ok32 = v.Cmp(lo32) >= 0 && v.Cmp(hi32) <= 0
	ok64 = v.Cmp(lo64) >= 0 && v.Cmp(hi64) <= 0
	if ok32 {
		v32 = v.Int64()
	}
	return ok32, v32, ok64, v, false
}

func c11CheckRaw(rep *mc.Report, s string) {
	ok32, v32, ok64, v64, dontCare := c11RawRef(s)
	got32, gok32 := ContainsRawTagValueBytes([]byte(s))
	lo, hi, gok64 := ContainsRawTagValue64Bytes([]byte(s))
	fail := func(sig, msg string) {
		rep.Violate("C11:raw-"+sig, fmt.Sprintf("%s: input %q", msg, s), map[string]any{"input": s})
	}
	if !dontCare {
		if gok32 != ok32 {
			fail("accept32", fmt.Sprintf("32-bit raw accepted=%v, reference=%v", gok32, ok32))
		}
		if gok64 != ok64 {
			fail("accept64", fmt.Sprintf("64-bit raw accepted=%v, reference=%v", gok64, ok64))
		}
	}
	if gok32 && !dontCare && ok32 {
		// bit pattern decodes back: as int32 for negatives, as uint32 otherwise
		var back int64
		if v32 < 0 {
			back = int64(got32)
		} else {
			back = int64(uint32(got32))
		}
		if back != v32 {
			fail("roundtrip32", fmt.Sprintf("stored %d decodes to %d, want %d", got32, back, v32))
		}
	}
	if gok64 && !dontCare && ok64 {
		bits := uint64(uint32(lo)) | uint64(uint32(hi))<<32
		var back *big.Int
		if v64.Sign() < 0 {
			back = big.NewInt(int64(bits))
		} else {
			back = new(big.Int).SetUint64(bits)
		}
		if back.Cmp(v64) != 0 {
			fail("roundtrip64", fmt.Sprintf("stored lo=%d hi=%d decodes to %s, want %s", lo, hi, back, v64))
		}
	}
}

func TestVerifC11(t *testing.T) {
	rep := mc.NewReport("C11")
	rep.Rule = "every byte string up to length L over all 256 bytes; every string up to length M over 14 representative byte sequences (spaces, NBSP, NUL, DEL, 1-4 byte runes, LS/PS, stray continuation, overlong, 0xff); 'a'*n padded strings around the 128-byte limit; every raw string up to length 5 over [0-9+- ] and all neighbours of the range limits. Non-trivial = input that is not already a valid tag value (normalisation has to act) or raw string that parses as an integer"
	maxAll := mc.Pick(2, 3)
	maxTok := mc.Pick(5, 6)
	rep.Bounds["all_bytes_max_len"] = maxAll
	rep.Bounds["token_alphabet_max_len"] = maxTok

	var nontrivial, total int64
	var mu sync.Mutex
	// part 1: all byte strings up to maxAll; unit of work = first byte
	for L := 0; L <= maxAll; L++ {
		if L == 0 {
			c11CheckString(rep, nil)
			total++
			continue
		}
		c11Parallel(256, func(_ int, first int) {
			buf := make([]byte, L)
			buf[0] = byte(first)
			var nt, tot int64
			var rec func(pos int)
			rec = func(pos int) {
				if pos == L {
					tot++
					if !c11RefValid(buf) {
						nt++
					}
					c11CheckString(rep, buf)
					return
				}
				for b := 0; b < 256; b++ {
					buf[pos] = byte(b)
					rec(pos + 1)
				}
			}
			rec(1)
			mu.Lock()
			nontrivial += nt
			total += tot
			mu.Unlock()
		})
	}
	rep.Sample(map[string]string{"input_hex": "20c3a920", "forced": ForceValidStringValue(" \u00e9 ")})
	// part 2: token strings
	nt := len(c11Tokens)
	for L := 1; L <= maxTok; L++ {
		c11Parallel(nt, func(_ int, first int) {
			idx := make([]int, L)
			idx[0] = first
			var ntc, tot int64
			var buf []byte
			var rec func(pos int)
			rec = func(pos int) {
				if pos == L {
					buf = buf[:0]
					for _, k := range idx {
						buf = append(buf, c11Tokens[k]...)
					}
					tot++
					if !c11RefValid(buf) {
						ntc++
					}
					c11CheckString(rep, buf)
					return
				}
				for k := 0; k < nt; k++ {
					idx[pos] = k
					rec(pos + 1)
				}
			}
			rec(1)
			mu.Lock()
			nontrivial += ntc
			total += tot
			mu.Unlock()
		})
	}
	// part 3: length boundary: 'a'*n + token string (<=3 tokens) [+ 'a'*m]
	var boundary [][]byte
	for n := 118; n <= 131; n++ {
		for L := 0; L <= 3; L++ {
			idx := make([]int, L)
			var rec func(pos int)
			rec = func(pos int) {
				if pos == L {
					b := bytes.Repeat([]byte("a"), n)
					for _, k := range idx {
						b = append(b, c11Tokens[k]...)
					}
					boundary = append(boundary, b, append(append([]byte{}, b...), 'b', 'b'))
					return
				}
				for k := 0; k < nt; k++ {
					idx[pos] = k
					rec(pos + 1)
				}
			}
			rec(0)
		}
	}
	c11Parallel(len(boundary), func(_ int, i int) { c11CheckString(rep, boundary[i]) })
	mu.Lock()
	total += int64(len(boundary))
	nontrivial += int64(len(boundary)) / 2
	mu.Unlock()
	rep.Sample(map[string]any{"boundary_len": len(boundary[len(boundary)-1]), "forced_len": len(ForceValidStringValue(string(boundary[len(boundary)-1])))})

	// part 4: raw tag values
	const rawAlpha = "0123456789+- "
	var rawTotal, rawNT int64
	for L := 0; L <= 5; L++ {
		idx := make([]int, L)
		var rec func(pos int)
		rec = func(pos int) {
			if pos == L {
				b := make([]byte, L)
				for i, k := range idx {
					b[i] = rawAlpha[k]
				}
				rawTotal++
				if ok32, _, _, _, _ := c11RawRef(string(b)); ok32 {
					rawNT++
				}
				c11CheckRaw(rep, string(b))
				return
			}
			for k := 0; k < len(rawAlpha); k++ {
				idx[pos] = k
				rec(pos + 1)
			}
		}
		rec(0)
	}
	limits := []string{"-2147483648", "2147483648", "2147483647", "4294967295", "4294967296", "-9223372036854775808", "9223372036854775808", "9223372036854775807", "18446744073709551615", "18446744073709551616", "0"}
	for _, l := range limits {
		base, _ := new(big.Int).SetString(l, 10)
		for d := -3; d <= 3; d++ {
			v := new(big.Int).Add(base, big.NewInt(int64(d)))
			for _, pre := range []string{"", "0", "00", "+", " "} {
				for _, suf := range []string{"", " ", "0", "_", "e0"} {
					s := v.String()
					if v.Sign() < 0 {
						s = "-" + pre + s[1:]
					} else {
						s = pre + s
					}
					s += suf
					rawTotal++
					rawNT++
					c11CheckRaw(rep, s)
				}
			}
		}
	}
	rep.Sample(map[string]any{"raw": "-2147483648", "parsed": strconv.Itoa(func() int { v, _ := ContainsRawTagValueBytes([]byte("-2147483648")); return int(v) }())})
	rep.AddCounts(total+rawTotal, total+rawTotal, total+rawTotal, nontrivial+rawNT)
	if err := rep.Write(); err != nil {
		t.Fatal(err)
	}
	t.Logf("C11: %d strings, %d raw strings, violations=%d", total, rawTotal, rep.NumViolations())
}
