//go:build verif

package metadata

// C15 part 5 — the durability window (added after the independently seeded change
// /verif/seeded/C15-r3 was missed).
//
// Parts 1-4 drive the metadata database over a real fsbinlog that makes every event durable
// before the next request is sent, so a version is always durable by the time anybody sees it.
// A server does not live like that: the engine runs in WaitCommit mode, a SaveEntity is
// ACKNOWLEDGED only after the binlog has announced (Engine.Commit) that its event is durable,
// and a reader (JournalEvents) that has looked at rows of still-uncommitted writes is parked
// behind them. Between "appended" and "durable" lies a window in which several requests are in
// flight, and the binlog decides how far each commit announcement reaches. The property's
// "every successful create or edit assigns a new, globally unique version greater than all
// previous ones" is quantified over restarts as well: a version that has left the process
// (acknowledged to the editor or delivered by the journal) and is not durable will be assigned
// again, to another edit, after a crash.
//
// This family makes the binlog's commit granularity an explorer choice. The real DBV2 (real
// sqlite engine, real SQLite) runs over an in-memory binlog (c15MemBinlog, implements
// fsbinlog.BinlogReadWrite) whose durable offset moves only when the explorer says so. Every
// history over the alphabet
//
//	create metric "a" | create metric "b" | edit the entity the clients know first, from the
//	latest version they were handed | read the journal from 0 |
//	commit up to the end of the FIRST not yet durable event | commit everything appended |
//	announce the current durable offset once more
//
// is executed up to the depth bound. Requests are issued from goroutines, one at a time: the
// driver waits until the request has either answered or is parked in the engine's commit-wait
// queue (observed through the shim VerifC15WaitQLen, no timing assumption; the engine runs every
// callback under the read-write connection's mutex, so requests execute in the order issued and
// the only freedom is WHEN each is answered - which is what the commit choices decide). After a
// commit announcement the driver collects exactly as many answers as callers left the queue.
//
// Oracle (no reference for accept/refuse here - parts 1-4 do that; this part judges durability):
//
//	(1) at the moment an answer is handed out, every (entity, version) in it - the acknowledged
//	    event of a SaveEntity, every event of a journal page - is contained in the durable prefix
//	    of the binlog (decoded independently with the TL readers)
//	      -> C15:version-handed-out-before-durable:<ack|journal>
//	(2) after every history: crash (only the durable prefix survives), restart of the real
//	    OpenDB on a fresh file over that prefix, one more create: every (entity, version, name)
//	    handed out before the crash is still there (same entity at that or a later version), and
//	    the new create gets a version greater than every version handed out before
//	      -> C15:handed-out-version-lost-after-restart, C15:version-assigned-twice-after-restart
//
// (2) is the property's clause itself, (1) is the invariant that implies it and names the guilty
// answer. A crash point is the end of a history; BFS enumerates every prefix as a history, so
// the crash is tried at every point.

import (
	"context"
	"fmt"
	"os"
	"runtime"
	"sort"
	"strings"
	"sync"
	"testing"
	"time"

	"github.com/VKCOM/statshouse/internal/data_model/gen2/tlmetadata"
	"github.com/VKCOM/statshouse/internal/format"
	"github.com/VKCOM/statshouse/internal/verif/mc"
	"github.com/VKCOM/statshouse/internal/vkgo/basictl"
	binlog2 "github.com/VKCOM/statshouse/internal/vkgo/binlog"
	"github.com/VKCOM/statshouse/internal/vkgo/binlog/fsbinlog"
)

// c15MemBinlog keeps the binlog in memory. Appends are accepted at once; nothing becomes durable
// until announce() is called (or, with auto, at the append itself).
type c15MemBinlog struct {
	mu      sync.Mutex
	engine  binlog2.Engine
	data    []byte
	ends    []int64 // end offset of every event appended through Append (not of replayed ones)
	durable int64
	auto    bool
	stop    chan struct{}
	once    sync.Once
}

func c15NewMemBinlog(durablePrefix []byte, auto bool) *c15MemBinlog {
	return &c15MemBinlog{data: append([]byte(nil), durablePrefix...), durable: int64(len(durablePrefix)), auto: auto, stop: make(chan struct{})}
}

func (b *c15MemBinlog) Run(offset int64, snapshotMeta []byte, controlMeta []byte, engine binlog2.Engine) error {
	b.mu.Lock()
	b.engine = engine
	durable := b.durable
	if offset > durable {
		b.mu.Unlock()
		return fmt.Errorf("verif C15 mem binlog: database is at offset %d, durable binlog ends at %d", offset, durable)
	}
	replay := append([]byte(nil), b.data[offset:durable]...)
	b.mu.Unlock()
	if len(replay) > 0 {
		if _, err := engine.Apply(replay); err != nil {
			return err
		}
	}
	if err := engine.Commit(durable, nil, durable); err != nil {
		return err
	}
	if err := engine.ChangeRole(binlog2.ChangeRoleInfo{IsMaster: true, IsReady: true}); err != nil {
		return err
	}
	<-b.stop
	return nil
}

func (b *c15MemBinlog) Append(onOffset int64, payload []byte) (int64, error) {
	b.mu.Lock()
	if onOffset != int64(len(b.data)) {
		n := len(b.data)
		b.mu.Unlock()
		return 0, fmt.Errorf("verif C15 mem binlog: append at %d, binlog ends at %d", onOffset, n)
	}
	b.data = append(b.data, payload...)
	for len(b.data) != int(onOffset)+fsbinlog.AddPadding(len(payload)) {
		b.data = append(b.data, 0)
	}
	n := int64(len(b.data))
	b.ends = append(b.ends, n)
	auto := b.auto
	b.mu.Unlock()
	if auto {
		b.announce(n)
	}
	return n, nil
}

func (b *c15MemBinlog) AppendASAP(onOffset int64, payload []byte) (int64, error) {
	return b.Append(onOffset, payload)
}

// announce: the binlog is durable up to off (>= the current durable offset); the engine is told
// through its Commit callback, as fsbinlog does after an fsync.
func (b *c15MemBinlog) announce(off int64) {
	b.mu.Lock()
	if off > b.durable {
		b.durable = off
	}
	e := b.engine
	b.mu.Unlock()
	_ = e.Commit(off, nil, off)
}

func (b *c15MemBinlog) state() (size, durable int64, pendingEnds []int64) {
	b.mu.Lock()
	defer b.mu.Unlock()
	for _, e := range b.ends {
		if e > b.durable {
			pendingEnds = append(pendingEnds, e)
		}
	}
	return int64(len(b.data)), b.durable, pendingEnds
}

func (b *c15MemBinlog) durablePrefix() []byte {
	b.mu.Lock()
	defer b.mu.Unlock()
	return append([]byte(nil), b.data[:b.durable]...)
}

func (b *c15MemBinlog) EngineStatus(status binlog2.EngineStatus) {}
func (b *c15MemBinlog) GetStartCmd() (binlog2.StartCmd, bool)    { return binlog2.StartCmd{}, false }
func (b *c15MemBinlog) RequestShutdown()                         { b.once.Do(func() { close(b.stop) }) }
func (b *c15MemBinlog) RequestReindex(diff bool, fast bool)      {}
func (b *c15MemBinlog) AddStats(stats map[string]string)         {}
func (b *c15MemBinlog) WriteLoop(ri fsbinlog.PositionInfo) (fsbinlog.PositionInfo, error) {
	return ri, nil
}
func (b *c15MemBinlog) ReadAll(offset int64, snapshotMeta []byte, engine binlog2.Engine) (fsbinlog.PositionInfo, error) {
	return fsbinlog.PositionInfo{}, nil
}

// c15DurableVersions decodes a binlog prefix (only SaveEntity events occur in this family) into
// the set of "id@version" it makes durable, with the name each carries.
func c15DurableVersions(prefix []byte) (map[string]string, error) {
	out := map[string]string{}
	var ce tlmetadata.CreateEntityEvent
	var ee tlmetadata.EditEntityEvent
	data := prefix
	for len(data) > 0 {
		tag, rest, err := basictl.NatReadTag(data)
		if err != nil {
			return nil, err
		}
		switch tag {
		case ce.TLTag():
			if rest, err = ce.ReadTL1(rest); err != nil {
				return nil, err
			}
			out[fmt.Sprintf("%d@%d", ce.Metric.Id, ce.Metric.Version)] = ce.Metric.Name
		case ee.TLTag():
			if rest, err = ee.ReadTL1(rest); err != nil {
				return nil, err
			}
			out[fmt.Sprintf("%d@%d", ee.Metric.Id, ee.Metric.Version)] = ee.Metric.Name
		default:
			return nil, fmt.Errorf("unexpected event tag %#x in the binlog of the durability family", tag)
		}
		used := len(data) - len(rest)
		pad := fsbinlog.AddPadding(used) - used
		if pad > len(rest) {
			pad = len(rest)
		}
		data = rest[pad:]
	}
	return out, nil
}

type c15DurAnswer struct {
	events []tlmetadata.Event // acknowledged event (1) or journal page
	err    error
}

type c15DurPending struct {
	label   string
	journal bool
	done    chan c15DurAnswer
}

// c15HandOut is one answer that left the process.
type c15HandOut struct {
	What      string   `json:"what"`
	Events    []string `json:"events"`
	DurableAt int64    `json:"binlog_durable_offset_when_handed_out"`
	Appended  int64    `json:"binlog_appended_offset_when_handed_out"`
	AfterOp   int      `json:"handed_out_during_operation"`
}

type c15DurInst struct {
	dir    string
	db     *DBV2
	bl     *c15MemBinlog
	parked []*c15DurPending
	handed []c15HandOut
	// what the clients know: id -> latest (version, name) handed out
	knownVer  map[int64]int64
	knownName map[int64]string
	maxHanded int64
	opIdx     int
	viol      *mc.Verdict
	trace     []string
}

func c15DurOptions() Options {
	clock := &vmetaClock{}
	clock.Set(c15T0)
	return c15Options(clock)
}

func c15DurOpen(dir, file string, bl *c15MemBinlog) (*DBV2, error) {
	vmetaQuiet()
	db, err := OpenDB(dir+"/"+file, c15DurOptions(), bl)
	if err != nil {
		return nil, err
	}
	db.eng.VerifC15StopTxLoop()
	return db, nil
}

const c15DurPollLimit = 60 * time.Second // infrastructure guard only: a request that neither answers nor parks

func c15DurPause(i int) {
	if i < 200 {
		runtime.Gosched()
	} else {
		time.Sleep(50 * time.Microsecond)
	}
}

func c15DurEvLine(e tlmetadata.Event) string {
	return fmt.Sprintf("id=%d name=%q version=%d", e.Id, e.Name, e.Version)
}

// handOut records an answer that has just been delivered and checks oracle (1).
func (x *c15DurInst) handOut(p *c15DurPending, a c15DurAnswer) {
	if a.err != nil {
		x.trace = append(x.trace, fmt.Sprintf("op %d: %s answered: refused (%s)", x.opIdx, p.label, c15Answer(a.err)))
		return // a refusal carries no version
	}
	size, durable, _ := x.bl.state()
	ho := c15HandOut{What: p.label, DurableAt: durable, Appended: size, AfterOp: x.opIdx}
	dur, derr := c15DurableVersions(x.bl.durablePrefix())
	for _, e := range a.events {
		ho.Events = append(ho.Events, c15DurEvLine(e))
		if e.Version > x.knownVer[e.Id] {
			x.knownVer[e.Id], x.knownName[e.Id] = e.Version, e.Name
		}
		if e.Version > x.maxHanded {
			x.maxHanded = e.Version
		}
	}
	x.handed = append(x.handed, ho)
	x.trace = append(x.trace, fmt.Sprintf("op %d: %s answered %v (binlog durable to %d of %d)", x.opIdx, p.label, ho.Events, durable, size))
	if derr != nil {
		if x.viol == nil {
			x.viol = &mc.Verdict{Violation: "HARNESS: cannot decode the durable binlog prefix: " + derr.Error(), Sig: "C15:harness-binlog-decode"}
		}
		return
	}
	for _, e := range a.events {
		if _, ok := dur[fmt.Sprintf("%d@%d", e.Id, e.Version)]; !ok && x.viol == nil {
			kind := "ack"
			if p.journal {
				kind = "journal"
			}
			x.viol = &mc.Verdict{
				Sig:       "C15:version-handed-out-before-durable:" + kind,
				Violation: fmt.Sprintf("%s was answered with %s while the binlog is durable only up to offset %d of %d appended: that version does not survive a crash and will be assigned again", p.label, c15DurEvLine(e), durable, size),
			}
		}
	}
}

// issue starts the request and waits until it has answered or is parked behind the binlog.
func (x *c15DurInst) issue(label string, journal bool, fn func() c15DurAnswer) (parked bool, answer c15DurAnswer, err error) {
	before := x.db.eng.VerifC15WaitQLen()
	p := &c15DurPending{label: label, journal: journal, done: make(chan c15DurAnswer, 1)}
	go func() { p.done <- fn() }()
	t0 := time.Now()
	for i := 0; ; i++ {
		select {
		case a := <-p.done:
			x.handOut(p, a)
			return false, a, nil
		default:
		}
		if x.db.eng.VerifC15WaitQLen() > before {
			x.parked = append(x.parked, p)
			x.trace = append(x.trace, fmt.Sprintf("op %d: %s executed, parked until the binlog commits", x.opIdx, label))
			return true, c15DurAnswer{}, nil
		}
		if time.Since(t0) > c15DurPollLimit {
			return false, c15DurAnswer{}, fmt.Errorf("%s neither answered nor parked", label)
		}
		c15DurPause(i)
	}
}

// announce moves the durable offset and collects the answers of the callers the engine released.
func (x *c15DurInst) announce(off int64) (released int, err error) {
	before := x.db.eng.VerifC15WaitQLen()
	x.bl.announce(off)
	released = before - x.db.eng.VerifC15WaitQLen()
	x.trace = append(x.trace, fmt.Sprintf("op %d: binlog announces durable offset %d, engine releases %d parked caller(s)", x.opIdx, off, released))
	// the released callers answer asynchronously: wait until all of them have, then hand the answers out in
	// the order the requests were issued (one announcement releases them together; a fixed order keeps
	// traces and outcome keys identical between runs)
	t0 := time.Now()
	answers := make(map[*c15DurPending]c15DurAnswer, released)
	for i := 0; len(answers) < released; i++ {
		progress := false
		for _, p := range x.parked {
			if _, have := answers[p]; have {
				continue
			}
			select {
			case a := <-p.done:
				answers[p] = a
				progress = true
			default:
			}
		}
		if !progress {
			if time.Since(t0) > c15DurPollLimit {
				return released, fmt.Errorf("engine released %d parked callers, only %d answered", released, len(answers))
			}
			c15DurPause(i)
		}
	}
	var still []*c15DurPending
	for _, p := range x.parked {
		if a, ok := answers[p]; ok {
			x.handOut(p, a)
		} else {
			still = append(still, p)
		}
	}
	x.parked = still
	return released, nil
}

const (
	c15DurCreateA = iota
	c15DurCreateB
	c15DurEditFirstKnown
	c15DurJournal
	c15DurCommitNext
	c15DurCommitAll
	c15DurReannounce
	c15DurNumOps
)

var c15DurOpNames = []string{
	"create metric a", "create metric b", "edit the first entity the clients know, from the latest version handed out",
	"read the journal from 0", "binlog commits up to the end of the first non-durable event", "binlog commits everything appended",
	"binlog announces its durable offset once more",
}

func c15DurNames(h []int) []string {
	out := make([]string, len(h))
	for i, o := range h {
		out[i] = c15DurOpNames[o]
	}
	return out
}

// step executes one operation of the alphabet. applicable=false: the operation cannot be formed or
// changed nothing (not extended).
func (x *c15DurInst) step(op int) (applicable bool, err error) {
	ctx := context.Background()
	save := func(label, name string, id, ver int64, create bool) (bool, error) {
		parked, a, err := x.issue(label, false, func() c15DurAnswer {
			ev, err := x.db.SaveEntity(ctx, name, id, ver, fmt.Sprintf(`{"op":%d}`, x.opIdx), create, 0, format.MetricEvent, "who")
			return c15DurAnswer{events: []tlmetadata.Event{ev}, err: err}
		})
		if err != nil {
			return false, err
		}
		return parked || a.err == nil, nil // refused by a rule: nothing changed
	}
	switch op {
	case c15DurCreateA:
		return save(`create "a"`, "a", 0, 0, true)
	case c15DurCreateB:
		return save(`create "b"`, "b", 0, 0, true)
	case c15DurEditFirstKnown:
		if len(x.knownVer) == 0 {
			return false, nil
		}
		ids := make([]int64, 0, len(x.knownVer))
		for id := range x.knownVer {
			ids = append(ids, id)
		}
		sort.Slice(ids, func(i, j int) bool { return ids[i] < ids[j] })
		id := ids[0]
		return save(fmt.Sprintf("edit id=%d from version %d", id, x.knownVer[id]), x.knownName[id], id, x.knownVer[id], false)
	case c15DurJournal:
		handedBefore := len(x.handed)
		maxBefore := x.maxHanded
		nKnown := len(x.knownVer)
		parked, a, err := x.issue("journal read from 0", true, func() c15DurAnswer {
			evs, err := x.db.JournalEvents(ctx, 0, 100)
			return c15DurAnswer{events: evs, err: err}
		})
		if err != nil {
			return false, err
		}
		if a.err != nil {
			return false, fmt.Errorf("journal read failed: %w", a.err)
		}
		// an immediate answer that told the clients nothing new is not extended
		news := parked || x.maxHanded > maxBefore || len(x.knownVer) > nKnown
		_ = handedBefore
		return news, nil
	case c15DurCommitNext, c15DurCommitAll:
		size, _, pending := x.bl.state()
		if len(pending) == 0 || (op == c15DurCommitAll && len(pending) == 1) {
			return false, nil // commit-all of one event is commit-next
		}
		off := pending[0]
		if op == c15DurCommitAll {
			off = size
		}
		_, err := x.announce(off)
		return true, err
	case c15DurReannounce:
		if len(x.parked) == 0 {
			return false, nil
		}
		_, durable, _ := x.bl.state()
		released, err := x.announce(durable)
		return released > 0, err // nobody released: nothing changed
	}
	return false, fmt.Errorf("unknown op %d", op)
}

type c15DurPart struct {
	rep        *mc.Report
	mu         sync.Mutex
	parkedHist int64 // histories that end with at least one caller parked (the window is open)
	windows    int64 // histories in which a reader was parked behind >= 2 non-durable writes
	handouts   int64
}

func (pt *c15DurPart) run(hist []int) mc.StepResult {
	infra := func(err error) mc.StepResult {
		pt.rep.Infra(fmt.Sprintf("durability family, history %v: %v", c15DurNames(hist), err))
		return mc.StepResult{Applicable: false}
	}
	dir, err := vmetaScratch("c15dur")
	if err != nil {
		return infra(err)
	}
	defer os.RemoveAll(dir)
	bl := c15NewMemBinlog(nil, false)
	db, err := c15DurOpen(dir, "db", bl)
	if err != nil {
		return infra(err)
	}
	x := &c15DurInst{dir: dir, db: db, bl: bl, knownVer: map[int64]int64{}, knownName: map[int64]string{}}
	cleanup := func() {
		// let the abandoned callers of the crashed process go, then close it
		size, _, _ := bl.state()
		bl.announce(size)
		for _, p := range x.parked {
			select {
			case <-p.done:
			case <-time.After(c15DurPollLimit):
			}
		}
		_ = vmetaClose(db)
	}
	applicable := true
	deepWindow := false
	for i, op := range hist {
		x.opIdx = i + 1
		ok, err := x.step(op)
		if err != nil {
			cleanup()
			return infra(err)
		}
		if !ok {
			if i != len(hist)-1 {
				cleanup()
				return infra(fmt.Errorf("operation %d of an explored prefix became inapplicable (nondeterminism)", i+1))
			}
			applicable = false
		}
		_, _, pending := bl.state()
		readers := 0
		for _, p := range x.parked {
			if p.journal {
				readers++
			}
		}
		deepWindow = deepWindow || (readers > 0 && len(pending) >= 2)
	}
	if !applicable {
		cleanup()
		return mc.StepResult{Applicable: false}
	}
	// the crash: what survives is the durable prefix
	prefix := bl.durablePrefix()
	_, durable, _ := bl.state()
	handed := append([]c15HandOut(nil), x.handed...)
	maxHanded := x.maxHanded
	type hv struct {
		id, ver int64
		name    string
	}
	var all []hv
	for id, v := range x.knownVer {
		all = append(all, hv{id, v, x.knownName[id]})
	}
	sort.Slice(all, func(i, j int) bool { return all[i].id < all[j].id })
	viol := x.viol
	nParked := len(x.parked)
	cleanup()

	// restart on a fresh file over the durable prefix, one more save
	bl2 := c15NewMemBinlog(prefix, true)
	db2, err := c15DurOpen(dir, "db2", bl2)
	if err != nil {
		return infra(fmt.Errorf("restart over the durable prefix (%d bytes): %w", len(prefix), err))
	}
	after, err := db2.JournalEvents(context.Background(), 0, 100)
	if err != nil {
		_ = vmetaClose(db2)
		return infra(fmt.Errorf("journal after restart: %w", err))
	}
	created, cerr := db2.SaveEntity(context.Background(), "z", 0, 0, `{"op":"after restart"}`, true, 0, format.MetricEvent, "who")
	_ = vmetaClose(db2)
	if cerr != nil {
		return infra(fmt.Errorf("create after restart: %w", cerr))
	}
	var afterLines []string
	for _, e := range after {
		afterLines = append(afterLines, c15DurEvLine(e))
	}
	detail := map[string]any{"history": c15DurNames(hist), "ops": hist, "trace": x.trace, "handed_out_before_crash": handed,
		"durable_offset_at_crash": durable, "journal_after_restart": afterLines, "create_after_restart": c15DurEvLine(created)}
	if viol == nil {
		for _, h := range all {
			found := false
			for _, a := range after {
				if a.Id == h.id && (a.Version > h.ver || (a.Version == h.ver && a.Name == h.name)) {
					found = true
				}
			}
			if !found {
				viol = &mc.Verdict{Sig: "C15:handed-out-version-lost-after-restart",
					Violation: fmt.Sprintf("id=%d name=%q version=%d was handed out before the crash; after the restart over the durable binlog prefix the journal is %v", h.id, h.name, h.ver, afterLines)}
				break
			}
		}
	}
	if created.Version <= maxHanded {
		v := &mc.Verdict{Sig: "C15:version-assigned-twice-after-restart",
			Violation: fmt.Sprintf("the create after the restart got version %d, but version %d had already been handed out before the crash (%v)", created.Version, maxHanded, handed)}
		if viol == nil || strings.HasPrefix(viol.Sig, "C15:handed-out-version-lost") {
			// keep the more specific (1) signature when it fired; otherwise this one
			if viol == nil {
				viol = v
			} else {
				detail["also"] = v.Violation
			}
		} else {
			detail["consequence_after_restart"] = v.Violation
		}
	}
	pt.mu.Lock()
	pt.handouts += int64(len(handed))
	if nParked > 0 {
		pt.parkedHist++
	}
	if deepWindow {
		pt.windows++
	}
	pt.mu.Unlock()
	var key strings.Builder
	fmt.Fprintf(&key, "durable=%d handed=%v after=%v parked=%d", durable, handed, afterLines, nParked)
	pt.rep.Outcome("dur:" + key.String())
	res := mc.StepResult{Applicable: true, Key: key.String(), Nontrivial: nParked > 0 || deepWindow}
	if viol != nil {
		viol.Detail = detail
		res.Verdict = *viol
		res.Nontrivial = true
	}
	return res
}

func c15RunDurablePart(t *testing.T, rep *mc.Report) {
	depth := mc.Pick(5, 7)
	rep.Bounds["durability_window_depth"] = depth
	rep.Bounds["durability_window_alphabet"] = c15DurOpNames
	rep.Bounds["durability_window_crash"] = "after every history (= at every point): restart of OpenDB on a fresh file over the durable binlog prefix, journal read, one more create"
	rep.Assume("part 5: the engine's wall-clock commit timer (txLoop) is stopped right after open (shim VerifC15StopTxLoop): it only ever commits SQLite state that is already durable in the binlog, so the restart from the durable binlog prefix into a fresh file is the state a crash leaves; a restart from the SQLite file at an intermediate commit is not explored separately")
	rep.Assume("part 5: requests are issued one at a time (the next one after the previous has answered or is parked); the engine executes callbacks under one mutex, so the only freedom between requests in flight is when each is answered, decided by the explored commit announcements")
	pt := &c15DurPart{rep: rep}
	t0 := time.Now()
	st := mc.BFS(pt.run, mc.BFSOptions{NumOps: c15DurNumOps, MaxDepth: depth, Workers: runtime.GOMAXPROCS(0), NoDedup: true, MaxViolations: 12})
	for i, s := range st.Samples {
		if i < 3 {
			rep.Sample(map[string]any{"part": "durability_window", "history": c15DurNames(s)})
		}
	}
	rep.MergeBFS("durability_window", st)
	rep.Parts["durability_window_facts"] = map[string]any{
		"answers_handed_out": pt.handouts, "histories_ending_with_parked_callers": pt.parkedHist,
		"histories_with_a_reader_parked_behind_two_non_durable_writes": pt.windows,
	}
	t.Logf("C15 durability window: depth=%d histories=%d perLevel=%v handouts=%d ending-parked=%d reader-behind-2-writes=%d violations=%d wall=%.1fs",
		st.Depth, st.Transitions, st.PerLevel, pt.handouts, pt.parkedHist, pt.windows, len(st.Violations), time.Since(t0).Seconds())
}
