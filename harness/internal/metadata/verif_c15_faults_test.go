//go:build verif

package metadata

// C15, part 4 — requests refused by the ENVIRONMENT.
//
// Parts 1-3 only ever let a request fail because a rule of the property refuses it, i.e. inside
// the SaveEntity transaction body. A server also refuses requests for reasons that have nothing to
// do with the rules: the request's context (deadline of the RPC) expires, the binlog does not take
// the event, the engine is not the master. Whatever the reason, a request whose caller was told
// "error" is a refused edit in the sense of the property ("an entity edit succeeds only when ...",
// "every successful create or edit assigns a new version", "of several edits racing from the same
// version exactly one succeeds"): it must leave nothing behind that a later reader could observe.
//
// Fault alphabet, applied to ONE request per history (the request after a prefix that part 1
// reached; the prefix itself is unfaulted):
//
//	ctx@N    the request context expires after its N-th Err() check, for EVERY N from 0 to K-1 where K
//	         is the number of checks the same request makes on the same state without a fault (the
//	         engine checks the context before every statement step, conn.go Rows.Next; so this is
//	         "the deadline hits at every statement boundary of the request", including the engine's
//	         own statements before and after the SaveEntity body);
//	append   the binlog refuses the append of the request's event (binlog.Binlog.Append/AppendASAP
//	         return an error; the interface allows it, fsbinlog does so when its writer is not running);
//	replica  the engine is in replica role while the request is executed (writes are refused after
//	         their body has run).
//
// Oracle (observers of a refused request), all on the real stack:
//   - the answer itself: an accepted request is judged exactly as in part 1; a refusal is excused
//     only if the fault really was delivered (the context did report expiry / the binlog did refuse
//     an append / the error is the replica error);
//   - journal reader: getJournalnew from every start version with page limits 1, 2, 100 still equals
//     the reference model, which has NOT applied the refused request;
//   - history reader: GetHistoryShort + GetEntityVersioned of every entity id (and of the next free
//     id) are what they were before the request;
//   - competing editors: the same request is then retried without a fault, followed by three more
//     requests for the same entity (edit / delete / rename), all four naming the version that was
//     observed BEFORE the faulted request; every answer is judged by the reference model (so exactly
//     the first eligible one wins, with a version greater than all assigned before);
//   - a rebuilt replica: after the primary is closed, a fresh database file is rebuilt from the
//     binlog the primary wrote (real OpenDB replay path); its journal and history equal the primary's.
//
// The same faulted request is explored for every request shape of part 1's alphabet on every state
// of part 1 whose history is within the prefix bound.

import (
	"context"
	"errors"
	"fmt"
	"os"
	"runtime"
	"sort"
	"strconv"
	"strings"
	"sync"
	"sync/atomic"
	"testing"
	"time"

	"github.com/VKCOM/statshouse/internal/data_model/gen2/tlmetadata"
	"github.com/VKCOM/statshouse/internal/verif/mc"
	"github.com/VKCOM/statshouse/internal/vkgo/binlog/fsbinlog"
	"github.com/VKCOM/tl/pkg/rpc"
)

// ---------- the fault-injecting environment ----------

// c15Ctx is a request context whose Err() answers nil `after` times and context.DeadlineExceeded
// from then on (after < 0: never expires). It counts the checks.
type c15Ctx struct {
	context.Context
	after  int64
	checks atomic.Int64
	fired  atomic.Bool
	done   chan struct{}
	once   sync.Once
}

func c15NewCtx(after int64) *c15Ctx {
	return &c15Ctx{Context: context.Background(), after: after, done: make(chan struct{})}
}

func (c *c15Ctx) Err() error {
	k := c.checks.Add(1)
	if c.after >= 0 && k > c.after {
		c.fired.Store(true)
		c.once.Do(func() { close(c.done) })
		return context.DeadlineExceeded
	}
	return nil
}

func (c *c15Ctx) Done() <-chan struct{} { return c.done }

var errC15AppendRefused = errors.New("verif C15: binlog refuses the append")

// c15Binlog is the real fsbinlog with a switch that makes it refuse appends.
type c15Binlog struct {
	fsbinlog.BinlogReadWrite
	refuse  atomic.Bool
	refused atomic.Int64
}

func (b *c15Binlog) Append(onOffset int64, payload []byte) (int64, error) {
	if b.refuse.Load() {
		b.refused.Add(1)
		return onOffset, errC15AppendRefused
	}
	return b.BinlogReadWrite.Append(onOffset, payload)
}

func (b *c15Binlog) AppendASAP(onOffset int64, payload []byte) (int64, error) {
	if b.refuse.Load() {
		b.refused.Add(1)
		return onOffset, errC15AppendRefused
	}
	return b.BinlogReadWrite.AppendASAP(onOffset, payload)
}

const (
	c15FaultCtx = iota
	c15FaultAppend
	c15FaultReplica
)

type c15Fault struct {
	kind int
	n    int64 // c15FaultCtx: the context expires after n checks
}

func (f c15Fault) String() string {
	switch f.kind {
	case c15FaultCtx:
		return fmt.Sprintf("ctx-expires-after-%d-checks", f.n)
	case c15FaultAppend:
		return "binlog-refuses-append"
	}
	return "engine-is-replica"
}

func c15Options(clock *vmetaClock) Options {
	return Options{MaxBudget: 1000, BudgetBonus: 10, StepSec: 3600, GlobalBudget: 1000, Now: clock.Now}
}

func c15NewHandler(db *DBV2) *Handler {
	return &Handler{
		db:                db,
		getJournalClients: &GetJournalClients{clients: map[rpc.LongpollHandle]tlmetadata.GetJournalnew{}},
		getMappingClients: &GetMappingClients{clients: map[rpc.LongpollHandle]tlmetadata.GetNewMappings{}},
		log:               func(s string, args ...interface{}) {},
	}
}

// c15FaultInst: the instance of parts 1-3 (same options, same handler) whose binlog is the real
// fsbinlog behind the c15Binlog switch.
type c15FaultInst struct {
	c15Inst
	bl *c15Binlog
}

func c15OpenFaulty() (*c15FaultInst, error) {
	dir, err := vmetaScratch("c15f")
	if err != nil {
		return nil, err
	}
	vmetaQuiet()
	clock := &vmetaClock{}
	clock.Set(c15T0)
	zero := time.Duration(0)
	bo := fsbinlog.Options{PrefixPath: dir + "/bl", Magic: vmetaBinlogMagic, WriteCallDelay: &zero}
	if _, err := fsbinlog.CreateEmptyFsBinlog(bo); err != nil {
		os.RemoveAll(dir)
		return nil, fmt.Errorf("create binlog: %w", err)
	}
	real, err := fsbinlog.NewFsBinlog(vmetaSilent{}, bo)
	if err != nil {
		os.RemoveAll(dir)
		return nil, fmt.Errorf("open binlog: %w", err)
	}
	bl := &c15Binlog{BinlogReadWrite: real}
	db, err := OpenDB(dir+"/db", c15Options(clock), bl)
	if err != nil {
		os.RemoveAll(dir)
		return nil, err
	}
	return &c15FaultInst{c15Inst: c15Inst{dir: dir, db: db, h: c15NewHandler(db)}, bl: bl}, nil
}

// sendFaulted issues r under the fault. delivered: the environment really did what the fault says
// during this request (so a refusal is the environment's, not a broken rule).
func (x *c15FaultInst) sendFaulted(r c15Req, f c15Fault) (ev tlmetadata.Event, err error, delivered bool) {
	switch f.kind {
	case c15FaultCtx:
		ctx := c15NewCtx(f.n)
		ev, err = x.sendCtx(ctx, r)
		return ev, err, ctx.fired.Load()
	case c15FaultAppend:
		before := x.bl.refused.Load()
		x.bl.refuse.Store(true)
		ev, err = x.send(r)
		x.bl.refuse.Store(false)
		return ev, err, x.bl.refused.Load() > before
	default:
		x.db.eng.VerifC15SetReplica(true)
		ev, err = x.send(r)
		x.db.eng.VerifC15SetReplica(false)
		return ev, err, err != nil && strings.Contains(err.Error(), "replica mode")
	}
}

// c15HistoryLines reads entity_history through the read API for the ids 1..n.
func c15HistoryLines(db *DBV2, n int64) ([]string, error) {
	var out []string
	ctx := context.Background()
	for id := int64(1); id <= n; id++ {
		h, err := db.GetHistoryShort(ctx, id)
		if err != nil {
			return nil, fmt.Errorf("GetHistoryShort(%d): %w", id, err)
		}
		for _, he := range h.Events {
			ev, err := db.GetEntityVersioned(ctx, id, he.Version)
			if err != nil {
				return nil, fmt.Errorf("GetEntityVersioned(%d,%d): %w", id, he.Version, err)
			}
			out = append(out, fmt.Sprintf("entity=%d ver=%d meta=%q | %s", id, he.Version, he.Metadata, c15EvLine(ev)))
		}
	}
	return out, nil
}

func c15JournalLines(x *c15Inst) ([]string, string) {
	evs, bad := x.journalPaged(0, 100)
	if bad != "" {
		return nil, bad
	}
	out := make([]string, len(evs))
	for i, e := range evs {
		out[i] = c15EvLine(e)
	}
	return out, ""
}

// ---------- exploration ----------

type c15FaultViolation struct {
	unit       int
	seq        int
	sig, desc  string
	detail     map[string]any
	infra      bool
	infraError string
}

type c15FaultPart struct {
	ex  *c15Explorer
	rep *mc.Report
	mu  sync.Mutex
	out []c15FaultViolation

	executions, requests, refusedByEnv, unfaultedRuns atomic.Int64
	perKind                                           [3]atomic.Int64
	maxChecks                                         atomic.Int64
}

// prefix replays a history of part 1 on a fresh fault-capable instance (the answers were checked
// against the model in part 1; a disagreement here is nondeterminism = infrastructure).
func (p *c15FaultPart) prefix(hist []int) (*c15FaultInst, *c15Model, error) {
	x, err := c15OpenFaulty()
	if err != nil {
		return nil, nil, err
	}
	m := &c15Model{}
	for _, o := range hist {
		r, ok := p.ex.ops[o].build(m)
		if !ok {
			x.close()
			return nil, nil, fmt.Errorf("prefix %v: request %s cannot be formed", p.ex.names(hist), p.ex.ops[o].name)
		}
		if sig, desc, _ := c15Step(&x.c15Inst, m, r); sig != "" {
			x.close()
			return nil, nil, fmt.Errorf("prefix %v does not replay as in part 1: %s %s", p.ex.names(hist), sig, desc)
		}
	}
	return x, m, nil
}

// followers: what competing clients send after the faulted request, all built from what was
// observable BEFORE it: the same request again, then (for an edit) three more requests for the same
// entity naming the same version; (for a create) the same create once more.
func c15Followers(m *c15Model, r c15Req) []c15Req {
	if r.create {
		return []c15Req{r, r}
	}
	out := []c15Req{r}
	if e := m.byID(r.id); e != nil {
		out = append(out, c15Racers(e)...)
	}
	return out
}

// unit explores one (state, request shape): the unfaulted run that measures K, then one execution per
// fault. Returns nothing; violations are collected in p.out.
func (p *c15FaultPart) unit(unit int, hist []int, op int) {
	names := append(p.ex.names(hist), p.ex.ops[op].name)
	seq := 0
	violate := func(sig, desc string, detail map[string]any) {
		detail["history"] = names
		detail["prefix_ops"] = hist
		detail["faulted_op"] = op
		p.mu.Lock()
		p.out = append(p.out, c15FaultViolation{unit: unit, seq: seq, sig: sig, desc: fmt.Sprintf("history %v, last request faulted: %s", names, desc), detail: detail})
		p.mu.Unlock()
		seq++
	}
	infra := func(err error) {
		p.mu.Lock()
		p.out = append(p.out, c15FaultViolation{unit: unit, seq: seq, infra: true, infraError: fmt.Sprintf("fault part, history %v: %v", names, err)})
		p.mu.Unlock()
		seq++
	}

	// the unfaulted run: K = number of context checks the request makes on this state
	x, m, err := p.prefix(hist)
	if err != nil {
		infra(err)
		return
	}
	r, ok := p.ex.ops[op].build(m)
	if !ok {
		x.close()
		return
	}
	cnt := c15NewCtx(-1)
	ev0, err0 := x.sendCtx(cnt, r)
	k := cnt.checks.Load()
	if sig, desc, _ := c15Judge(m, r, ev0, err0, false); sig != "" {
		// part 1 sends exactly this request on exactly this state (through a background context)
		violate(sig, desc, map[string]any{"failing_request": r.String(), "fault": "none"})
		x.close()
		return
	}
	x.close()
	p.unfaultedRuns.Add(1)
	p.requests.Add(int64(len(hist) + 1))
	if err0 == nil && len(hist) > 0 && unit%7 == 0 {
		p.rep.Sample(map[string]any{"part": "faults", "history": names, "faults_on_last_request": fmt.Sprintf("ctx@0..%d, binlog-refuses-append, engine-is-replica", k-1)})
	}
	for {
		old := p.maxChecks.Load()
		if k <= old || p.maxChecks.CompareAndSwap(old, k) {
			break
		}
	}

	faults := make([]c15Fault, 0, k+2)
	for n := int64(0); n < k; n++ {
		faults = append(faults, c15Fault{kind: c15FaultCtx, n: n})
	}
	faults = append(faults, c15Fault{kind: c15FaultAppend}, c15Fault{kind: c15FaultReplica})
	for _, f := range faults {
		if err := p.execution(hist, op, f, err0 == nil, violate); err != nil {
			infra(err)
			return
		}
	}
}

func (p *c15FaultPart) execution(hist []int, op int, f c15Fault, acceptedUnfaulted bool, violate func(sig, desc string, detail map[string]any)) error {
	x, m, err := p.prefix(hist)
	if err != nil {
		return err
	}
	closed := false
	defer func() {
		if !closed {
			x.close()
		}
	}()
	r, _ := p.ex.ops[op].build(m)
	base := map[string]any{"failing_request": r.String(), "fault": f.String()}
	det := func(extra map[string]any) map[string]any {
		d := map[string]any{}
		for k, v := range base {
			d[k] = v
		}
		for k, v := range extra {
			d[k] = v
		}
		return d
	}
	nextID := int64(len(m.ents) + 1)
	histBefore, err := c15HistoryLines(x.db, nextID)
	if err != nil {
		return err
	}
	followers := c15Followers(m, r)
	nreq := int64(len(hist) + 1)

	ev, rerr, delivered := x.sendFaulted(r, f)
	p.executions.Add(1)
	p.perKind[f.kind].Add(1)
	sig, desc, accepted := c15Judge(m, r, ev, rerr, delivered)
	if sig != "" {
		violate(sig, fmt.Sprintf("under fault %v: %s", f, desc), det(nil))
		p.requests.Add(nreq)
		return nil
	}
	refused := !accepted
	if refused && delivered && acceptedUnfaulted {
		p.refusedByEnv.Add(1)
	}
	pre := ""
	if refused {
		pre = "after-refused-request:"
		base["refusal"] = rerr.Error()
	}
	wrap := func(s string) string { return "C15:" + pre + strings.TrimPrefix(s, "C15:") }
	// The observers are evaluated independently of each other (a refused request that shows in the
	// journal is still retried, competed with and rebuilt), except that the journal is not compared a
	// second time once it has been found to differ.
	journalBad := false

	// observer: journal reader
	if sig, desc, _ := c15CheckJournal(&x.c15Inst, m); sig != "" {
		journalBad = true
		if refused {
			violate("C15:refused-request-visible-in-journal", fmt.Sprintf("%v was refused (%v) under fault %v, but the journal changed: %s", r, rerr, f, desc), det(map[string]any{"journal_oracle": sig}))
		} else {
			violate(sig, fmt.Sprintf("after %v accepted under fault %v: %s", r, f, desc), det(nil))
		}
	}
	// observer: history reader
	if refused {
		histAfter, err := c15HistoryLines(x.db, nextID)
		if err != nil {
			return err
		}
		if strings.Join(histAfter, "\n") != strings.Join(histBefore, "\n") {
			violate("C15:refused-request-visible-in-history", fmt.Sprintf("%v was refused (%v) under fault %v, but the entity history changed from %v to %v", r, rerr, f, histBefore, histAfter), det(nil))
		}
	}
	// observer: competing editors, built from the state observed before the faulted request
	for i, fr := range followers {
		nreq++
		sig, desc, _ := c15Step(&x.c15Inst, m, fr)
		if sig != "" {
			journalBad = true // the model and the database have parted
			what := "the retried request"
			if i > 0 {
				what = fmt.Sprintf("competing request %d", i)
			}
			violate(wrap(sig), fmt.Sprintf("%v under fault %v answered %v; then %s (built from the state observed before it): %s", r, f, c15Answer(rerr), what, desc), det(map[string]any{"follower": fr.String(), "follower_index": i}))
			break
		}
	}
	if !journalBad {
		if sig, desc, _ := c15CheckJournal(&x.c15Inst, m); sig != "" {
			violate(wrap(sig), fmt.Sprintf("%v under fault %v answered %v; after the competing requests: %s", r, f, c15Answer(rerr), desc), det(nil))
		}
	}
	p.requests.Add(nreq)

	// observer: a database rebuilt from the binlog
	primJournal, badj := c15JournalLines(&x.c15Inst)
	if badj != "" {
		return fmt.Errorf("journal of the primary: %s", badj)
	}
	maxID := int64(len(m.ents) + 3) // beyond the model's next id: a faulty tree may hold entities the model does not
	primHist, err := c15HistoryLines(x.db, maxID)
	if err != nil {
		return err
	}
	dir := x.dir
	closed = true
	if err := vmetaClose(x.db); err != nil {
		os.RemoveAll(dir)
		return fmt.Errorf("close primary: %w", err)
	}
	defer os.RemoveAll(dir)
	clock := &vmetaClock{}
	clock.Set(c15T0 + 100000) // the clock of the rebuilt instance must not matter
	db2, err := vmetaOpen(dir, "rebuilt", false, c15Options(clock))
	if err != nil {
		if strings.Contains(err.Error(), "can't apply binlog event") || strings.Contains(err.Error(), "constraint") {
			violate(wrap("C15:rebuild-from-binlog-fails"), fmt.Sprintf("%v under fault %v answered %v; a database cannot be rebuilt from the binlog: %v", r, f, c15Answer(rerr), err), det(nil))
			return nil
		}
		return fmt.Errorf("rebuild from binlog: %w", err)
	}
	x2 := &c15Inst{dir: dir, db: db2, h: c15NewHandler(db2)}
	rebJournal, badj := c15JournalLines(x2)
	rebHist, herr := c15HistoryLines(db2, maxID)
	cerr := vmetaClose(db2)
	if badj != "" {
		return fmt.Errorf("journal of the rebuilt database: %s", badj)
	}
	if herr != nil {
		return herr
	}
	if cerr != nil {
		return fmt.Errorf("close rebuilt: %w", cerr)
	}
	if strings.Join(primJournal, "\n") != strings.Join(rebJournal, "\n") || strings.Join(primHist, "\n") != strings.Join(rebHist, "\n") {
		violate(wrap("C15:rebuilt-from-binlog-differs"), fmt.Sprintf("%v under fault %v answered %v; the primary serves journal %v history %v, a database rebuilt from its binlog serves journal %v history %v", r, f, c15Answer(rerr), primJournal, primHist, rebJournal, rebHist), det(nil))
	}
	return nil
}

func c15Answer(err error) string {
	if err == nil {
		return "success"
	}
	return "error (" + err.Error() + ")"
}

// c15RunFaultPart is part 4 of TestVerifC15.
func c15RunFaultPart(t *testing.T, rep *mc.Report, ex *c15Explorer) {
	t0 := time.Now()
	prefixDepth := mc.Pick(1, 2)
	if v, err := strconv.Atoi(os.Getenv("VERIF_C15_FAULT_PREFIX")); err == nil && v >= 0 { // debugging aid only
		prefixDepth = v
		rep.Cap(fmt.Sprintf("VERIF_C15_FAULT_PREFIX=%d", v))
	}
	rep.Bounds["fault_prefix_depth"] = prefixDepth
	rep.Bounds["fault_alphabet"] = "per (state of part 1 with history <= fault_prefix_depth, request shape of part 1): ctx@N for every N in 0..K-1 (K = context checks of the unfaulted request on that state), binlog refuses the append, engine is replica; one faulted request per history, followed by the retry and the competing requests"
	rep.Assume("environment faults are injected at the seams the code offers: the request context (Err() answers of a wrapper context), the binlog.Binlog interface (a wrapper around the real fsbinlog refuses Append/AppendASAP), the engine role field (set by a shim for the duration of one request; statshouse-metadata itself never opens a replica); faults inside SQLite (I/O errors, full disk) are not explored")

	p := &c15FaultPart{ex: ex, rep: rep}
	type job struct {
		unit int
		hist []int
		op   int
	}
	keys := make([]string, 0, len(ex.states))
	for k, h := range ex.states {
		if len(h) <= prefixDepth {
			keys = append(keys, k)
		}
	}
	sort.Slice(keys, func(i, j int) bool { return c15Less(ex.states[keys[i]], ex.states[keys[j]]) })
	var jobs []job
	for _, k := range keys {
		for op := range ex.ops {
			jobs = append(jobs, job{unit: len(jobs), hist: ex.states[k], op: op})
		}
	}
	ch := make(chan job, len(jobs))
	for _, j := range jobs {
		ch <- j
	}
	close(ch)
	var wg sync.WaitGroup
	var capped atomic.Bool
	for w := 0; w < runtime.GOMAXPROCS(0); w++ {
		wg.Add(1)
		go func() {
			defer wg.Done()
			for j := range ch {
				if mc.Expired() {
					capped.Store(true)
					continue
				}
				p.unit(j.unit, j.hist, j.op)
			}
		}()
	}
	wg.Wait()
	if capped.Load() {
		rep.Cap("fault_phase:wall_budget")
	}
	sort.Slice(p.out, func(i, j int) bool {
		if p.out[i].unit != p.out[j].unit {
			return p.out[i].unit < p.out[j].unit
		}
		return p.out[i].seq < p.out[j].seq
	})
	nviol := 0
	for _, v := range p.out {
		if v.infra {
			rep.Infra(v.infraError)
			continue
		}
		nviol++
		rep.Violate(v.sig, v.desc, v.detail)
	}
	execs := p.executions.Load() + p.unfaultedRuns.Load()
	rep.AddCounts(execs, p.requests.Load(), 0, p.refusedByEnv.Load())
	rep.SetPart("faults", map[string]any{
		"prefix_states": len(keys), "units_state_x_request": len(jobs), "unfaulted_runs": p.unfaultedRuns.Load(),
		"faulted_executions": p.executions.Load(), "ctx_expiry": p.perKind[c15FaultCtx].Load(), "binlog_append_refused": p.perKind[c15FaultAppend].Load(),
		"replica": p.perKind[c15FaultReplica].Load(), "max_context_checks_of_one_request": p.maxChecks.Load(),
		"requests_refused_only_by_the_environment": p.refusedByEnv.Load(), "violations": nviol,
	})
	t.Logf("C15 faults: prefix states=%d units=%d unfaulted=%d faulted executions=%d (ctx=%d append=%d replica=%d) maxK=%d refused-by-environment=%d violations=%d wall=%.1fs",
		len(keys), len(jobs), p.unfaultedRuns.Load(), p.executions.Load(), p.perKind[0].Load(), p.perKind[1].Load(), p.perKind[2].Load(), p.maxChecks.Load(), p.refusedByEnv.Load(), nviol, time.Since(t0).Seconds())
}
