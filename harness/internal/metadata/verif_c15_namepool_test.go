//go:build verif

package metadata

// C15 part 6 — one name pool shared ACROSS entity types.
//
// Names are unique per type only, so the schema lets a metric, a group, a dashboard, a prom config
// and a namespace all be called "t". The clause "entities in a namespace must reference an existing
// namespace" is about entities of TYPE namespace: the prefix of "t:x" resolves to the namespace named
// "t" and to nothing else. Parts 1-5 never give an entity of one type the full name that another
// request uses as namespace prefix (their prefix is "ns", no entity is ever called "ns" except the
// namespace), so a prefix lookup that forgets the type was invisible.
//
// Here the prefix string "t" is also available as the full name of a metric, a group, a dashboard and
// a prom config, created before or after (or instead of) the namespace "t", live or deleted; entities
// are created in "t:" and renamed into "t:" (the rename path resolves the prefix too, and a metric
// called "t" renamed to "t:y" has its own name as prefix). State-hashing BFS like part 1, the same
// reference model (c15Model.expect: a prefixed name resolves only to an entity of type namespace) and
// the same oracles: accept/refuse, namespace id in the SaveEntity answer, the journal from every
// start version; plus, on the real journal alone, every non-zero namespace id is the id of an entity
// of type namespace (c15CheckJournal).

import (
	"runtime"
	"testing"
	"time"

	"github.com/VKCOM/statshouse/internal/format"
	"github.com/VKCOM/statshouse/internal/verif/mc"
)

const c15PoolName = "t"

func c15NamePoolOps() []c15Op {
	in := c15PoolName + ":"
	ops := []c15Op{
		// the prefix string as full name of every type
		c15CreateOp(format.MetricEvent, c15PoolName),
		c15CreateOp(format.MetricsGroupEvent, c15PoolName),
		c15CreateOp(format.DashboardEvent, c15PoolName),
		c15CreateOp(format.PromConfigEvent, c15PoolName),
		c15CreateOp(format.NamespaceEvent, c15PoolName),
		// entities created in the namespace the prefix names
		c15CreateOp(format.MetricEvent, in+"x"),
		c15CreateOp(format.MetricsGroupEvent, in+"x"),
		// a plain entity to be renamed into it
		c15CreateOp(format.MetricEvent, "x"),
	}
	for slot := 0; slot < mc.Pick(2, 3); slot++ {
		ops = append(ops, c15EditOp(slot, false, in+"y", false)) // rename into the namespace (current version)
		ops = append(ops, c15EditOp(slot, false, "", true))      // delete (a deleted entity still owns its name)
	}
	return ops
}

// c15OtherTypeNamed: the prefix of the requested name is the full name of an entity that is NOT a
// namespace (violation attribution only).
func (m *c15Model) otherTypeNamed(name string) bool {
	nsName, _ := format.SplitNamespace(name)
	if nsName == "" {
		return false
	}
	for _, e := range m.ents {
		if e.typ != format.NamespaceEvent && e.name == nsName {
			return true
		}
	}
	return false
}

func c15RunNamePoolPart(t *testing.T, rep *mc.Report) {
	t0 := time.Now()
	ops := c15NamePoolOps()
	ex := &c15Explorer{ops: ops, rep: rep, states: map[string][]int{}}
	depth := mc.Pick(3, 4)
	rep.Bounds["name_pool_depth"] = depth
	rep.Bounds["name_pool_alphabet"] = ex.names(vmetaSeq(len(ops)))
	st := mc.BFS(ex.run, mc.BFSOptions{NumOps: len(ops), MaxDepth: depth, Workers: runtime.GOMAXPROCS(0), MaxViolations: 40})
	for i, s := range st.Samples {
		if i < 2 {
			rep.Sample(map[string]any{"part": "name_pool", "history": ex.names(s)})
		}
	}
	rep.MergeBFS("name_pool", st)
	t.Logf("C15 name pool: depth=%d states=%d transitions=%d perLevel=%v violations=%d wall=%.1fs", st.Depth, st.States, st.Transitions, st.PerLevel, len(st.Violations), time.Since(t0).Seconds())
}
