//go:build verif

package metadata

// C15 — metadata edits are versioned and optimistic-concurrency safe.
//
// Bounded exhaustive exploration of the REAL stack RawEditEntity/RawGetJournal (rpc_handler.go)
// -> DBV2.SaveEntity/JournalEvents (dbv2.go, rules.go) -> sqlite engine -> SQLite + fsbinlog on a
// scratch directory.
//
// Part 1 (mc.BFS, state hashing): every history of create / edit / rename / delete requests up
// to the depth bound, every request checked against a reference map written here.
// Part 2 (races): at EVERY distinct state part 1 reached, for every entity, three requests built
// from the same observed version are executed in all 6 orders on fresh replays of the state (the
// engine runs a request inside one exclusive read-write transaction, so the orders are exactly
// the interleavings of atomic requests), plus once genuinely concurrently from three goroutines.

import (
	"context"
	"fmt"
	"os"
	"runtime"
	"sort"
	"strconv"
	"strings"
	"sync"
	"testing"
	"time"

	"github.com/VKCOM/statshouse/internal/data_model/gen2/tlmetadata"
	"github.com/VKCOM/statshouse/internal/format"
	"github.com/VKCOM/statshouse/internal/verif/mc"
	"github.com/VKCOM/tl/pkg/rpc"
)

const c15T0 = int64(1_700_000_040)

// ---------- reference model ----------

type c15Ent struct {
	id      int64
	typ     int32
	name    string
	version int64
	prev    int64 // the version before the last successful change (0: none)
	ns      int64
	del     uint32
	data    string
}

type c15Model struct {
	ents       []*c15Ent // creation order == slot order
	maxVersion int64     // greatest version ever assigned
}

type c15Req struct {
	create  bool
	typ     int32
	id      int64
	version int64
	name    string
	data    string
	del     uint32
}

func (r c15Req) String() string {
	if r.create {
		return fmt.Sprintf("create(type=%d,%q)", r.typ, r.name)
	}
	return fmt.Sprintf("edit(id=%d,from v%d,name=%q,del=%d,data=%s)", r.id, r.version, r.name, r.del, r.data)
}

const (
	c15MustSucceed = iota
	c15MustFail
	c15Either // the property does not say; the model follows what the implementation did
)

func (m *c15Model) byID(id int64) *c15Ent {
	for _, e := range m.ents {
		if e.id == id {
			return e
		}
	}
	return nil
}

func (m *c15Model) namespace(name string) *c15Ent {
	for _, e := range m.ents {
		if e.typ == format.NamespaceEvent && e.name == name {
			return e
		}
	}
	return nil
}

// expect says what the property demands for a request in the current model state, the clause it
// comes from (used as violation signature) and, for an accepted request, the namespace id the
// entity must carry.
func (m *c15Model) expect(r c15Req) (exp int, clause string, nsID int64) {
	exp = c15MustSucceed
	var self *c15Ent
	if !r.create {
		self = m.byID(r.id)
		if self == nil || self.version != r.version {
			return c15MustFail, "stale-version-edit-accepted", 0 // "succeeds only when it names the entity's current version"
		}
		if self.typ == format.NamespaceEvent && self.name != r.name {
			return c15MustFail, "namespace-rename-accepted", 0 // "namespaces cannot be renamed"
		}
		if self.del != 0 {
			exp = c15Either // editing (undeleting) a deleted entity: not addressed by the property
		}
	}
	if r.typ == format.MetricEvent || r.typ == format.MetricsGroupEvent {
		if nsName, _ := format.SplitNamespace(r.name); nsName != "" {
			ns := m.namespace(nsName)
			if ns == nil {
				return c15MustFail, "missing-namespace-accepted", 0 // "must reference an existing namespace"
			}
			nsID = ns.id
			if ns.del != 0 {
				exp = c15Either // a deleted namespace: "existing"? left open
			}
		}
	}
	for _, e := range m.ents {
		if e != self && e.typ == r.typ && e.name == r.name {
			// same type and same full name (the namespace is part of the name): "unique per type (and namespace)"
			return c15MustFail, "duplicate-name-accepted", 0
		}
	}
	return exp, "valid-request-refused", nsID
}

func (m *c15Model) apply(r c15Req, ev tlmetadata.Event, nsID int64) {
	if ev.Version > m.maxVersion {
		m.maxVersion = ev.Version
	}
	if r.create {
		m.ents = append(m.ents, &c15Ent{id: ev.Id, typ: r.typ, name: r.name, version: ev.Version, ns: nsID, del: r.del, data: r.data})
		return
	}
	e := m.byID(r.id)
	e.prev, e.version, e.name, e.ns, e.del, e.data = e.version, ev.Version, r.name, nsID, r.del, r.data
}

func (m *c15Model) clone() *c15Model {
	c := &c15Model{maxVersion: m.maxVersion}
	for _, e := range m.ents {
		ce := *e
		c.ents = append(c.ents, &ce)
	}
	return c
}

// journal is what JournalEvents(from) must return: latest version of every entity with
// version > from, ascending.
func (m *c15Model) journal(from int64) []string {
	es := append([]*c15Ent(nil), m.ents...)
	sort.Slice(es, func(i, j int) bool { return es[i].version < es[j].version })
	var out []string
	for _, e := range es {
		if e.version > from {
			out = append(out, c15Line(e.id, e.typ, e.ns, e.name, e.version, e.del, e.data))
		}
	}
	return out
}

func c15Line(id int64, typ int32, ns int64, name string, ver int64, del uint32, data string) string {
	if len(data) > 64 { // the large payloads of part 3: compared by length and hash, kept out of messages
		data = fmt.Sprintf("<%d bytes #%x>", len(data), mc.Hash(data))
	}
	return fmt.Sprintf("id=%d type=%d ns=%d name=%q ver=%d del=%d data=%s", id, typ, ns, name, ver, del, data)
}

func c15EvLine(e tlmetadata.Event) string {
	return c15Line(e.Id, e.EventType, e.NamespaceId, e.Name, e.Version, e.Unused, e.Data)
}

// ---------- real instance ----------

type c15Inst struct {
	dir string
	db  *DBV2
	h   *Handler
}

func c15Open() (*c15Inst, error) {
	dir, err := vmetaScratch("c15")
	if err != nil {
		return nil, err
	}
	clock := &vmetaClock{}
	clock.Set(c15T0)
	db, err := vmetaOpen(dir, "db", true, Options{MaxBudget: 1000, BudgetBonus: 10, StepSec: 3600, GlobalBudget: 1000, Now: clock.Now})
	if err != nil {
		os.RemoveAll(dir)
		return nil, err
	}
	// the handler exactly as NewHandler builds it, minus the process-global statshouse
	// measurement callback NewHandler registers (thousands of instances per run)
	h := &Handler{
		db:                db,
		getJournalClients: &GetJournalClients{clients: map[rpc.LongpollHandle]tlmetadata.GetJournalnew{}},
		getMappingClients: &GetMappingClients{clients: map[rpc.LongpollHandle]tlmetadata.GetNewMappings{}},
		log:               func(s string, args ...interface{}) {},
	}
	return &c15Inst{dir: dir, db: db, h: h}, nil
}

func (x *c15Inst) close() {
	_ = vmetaClose(x.db)
	os.RemoveAll(x.dir)
}

// send issues the request through the RPC handler (metadata.editEntitynew).
func (x *c15Inst) send(r c15Req) (tlmetadata.Event, error) {
	return x.sendCtx(context.Background(), r)
}

// sendCtx: the same under a caller-supplied request context (part 4 lets it expire).
func (x *c15Inst) sendCtx(ctx context.Context, r c15Req) (tlmetadata.Event, error) {
	args := tlmetadata.EditEntitynew{Event: tlmetadata.Event{Id: r.id, Name: r.name, EventType: r.typ, Version: r.version, Data: r.data, Unused: r.del}}
	args.Event.SetMetadata("who")
	args.SetCreate(r.create)
	args.SetDelete(r.del != 0)
	hctx := &rpc.HandlerContext{Request: args.WriteTL1(nil)}
	if _, err := x.h.RawEditEntity(ctx, hctx); err != nil {
		return tlmetadata.Event{}, err
	}
	var ev tlmetadata.Event
	if _, err := args.ReadResultTL1(hctx.Response, &ev); err != nil {
		return tlmetadata.Event{}, fmt.Errorf("HARNESS: cannot parse editEntitynew response: %w", err)
	}
	return ev, nil
}

// journalPaged reads the journal through metadata.getJournalnew from `from` with the given page
// size until an empty page, like a journal client (next from = last version received).
func (x *c15Inst) journalPaged(from, page int64) ([]tlmetadata.Event, string) {
	var all []tlmetadata.Event
	for i := 0; i < 1000; i++ {
		args := tlmetadata.GetJournalnew{From: from, Limit: page}
		args.SetReturnIfEmpty(true)
		hctx := &rpc.HandlerContext{Request: args.WriteTL1(nil)}
		if _, err := x.h.RawGetJournal(context.Background(), hctx); err != nil {
			return nil, "getJournalnew failed: " + err.Error()
		}
		var resp tlmetadata.GetJournalResponsenew
		if _, err := args.ReadResultTL1(hctx.Response, &resp); err != nil {
			return nil, "HARNESS: cannot parse getJournalnew response: " + err.Error()
		}
		if len(resp.Events) == 0 {
			return all, ""
		}
		if int64(len(resp.Events)) > page {
			return nil, fmt.Sprintf("page of %d events for limit %d", len(resp.Events), page)
		}
		all = append(all, resp.Events...)
		from = resp.Events[len(resp.Events)-1].Version
	}
	return nil, "journal paging does not terminate"
}

// step sends one request and checks the answer against the model. Returns a violation or "".
func c15Step(x *c15Inst, m *c15Model, r c15Req) (sig, desc string, accepted bool) {
	ev, err := x.send(r)
	return c15Judge(m, r, ev, err, false)
}

// c15Judge checks one answer against the model and applies an accepted request to it. excused: the
// environment gave the server a reason to refuse (part 4: the request context expired, the binlog
// refused the append, the engine is a replica), so a refusal is never "valid-request-refused".
func c15Judge(m *c15Model, r c15Req, ev tlmetadata.Event, err error, excused bool) (sig, desc string, accepted bool) {
	exp, clause, nsID := m.expect(r)
	before := m.maxVersion
	if err != nil && strings.HasPrefix(err.Error(), "HARNESS:") {
		return "C15:harness", err.Error(), false
	}
	if err != nil {
		if exp == c15MustSucceed && !excused {
			return "C15:valid-request-refused", fmt.Sprintf("%v refused (%v) although it names the current version, a free name and an existing namespace", r, err), false
		}
		return "", "", false
	}
	// attribution: the prefix of the requested name is (also) the full name of an entity of another type
	other := ""
	if m.otherTypeNamed(r.name) {
		other = ":prefix-is-name-of-another-type"
	}
	if exp == c15MustFail {
		if clause != "missing-namespace-accepted" {
			other = ""
		}
		return "C15:" + clause + other, fmt.Sprintf("%v accepted (assigned version %d, namespace id %d)", r, ev.Version, ev.NamespaceId), true
	}
	// accepted: the version must be new and greater than every version assigned before
	if ev.Version <= before {
		return "C15:version-not-increasing", fmt.Sprintf("%v was assigned version %d, not greater than the greatest version assigned before (%d)", r, ev.Version, before), true
	}
	if !r.create && ev.Id != r.id {
		return "C15:wrong-entity-answered", fmt.Sprintf("%v answered with entity id %d", r, ev.Id), true
	}
	if ev.NamespaceId != nsID {
		return "C15:wrong-namespace-id" + other, fmt.Sprintf("%v accepted with namespace id %d, the namespace it names has id %d", r, ev.NamespaceId, nsID), true
	}
	m.apply(r, ev, nsID)
	return "", "", true
}

// c15CheckJournal compares the journal (every start version, page sizes 1, 2, 100) with the model.
func c15CheckJournal(x *c15Inst, m *c15Model) (sig, desc string, full string) {
	for from := int64(0); from <= m.maxVersion; from++ {
		want := m.journal(from)
		for _, page := range []int64{1, 2, 100} {
			evs, bad := x.journalPaged(from, page)
			if bad != "" {
				return "C15:journal-read", bad, ""
			}
			got := make([]string, len(evs))
			seen := map[int64]bool{}
			last := from
			for i, e := range evs {
				got[i] = c15EvLine(e)
				if seen[e.Id] {
					return "C15:journal-entity-twice", fmt.Sprintf("journal from %d page %d returns entity %d more than once: %v", from, page, e.Id, got[:i+1]), ""
				}
				seen[e.Id] = true
				if e.Version <= last {
					return "C15:journal-not-ascending", fmt.Sprintf("journal from %d page %d: version %d after %d", from, page, e.Version, last), ""
				}
				last = e.Version
			}
			if strings.Join(got, "\n") != strings.Join(want, "\n") {
				if len(seen) < len(want) {
					// the client has followed the cursor to an empty page and an entity was never delivered
					return "C15:journal-cursor-skips-entity", fmt.Sprintf("following the journal from %d with page limit %d to exhaustion delivers %v, the latest versions are %v", from, page, got, want), ""
				}
				return "C15:journal-differs", fmt.Sprintf("journal from %d page %d = %v, the latest versions are %v", from, page, got, want), ""
			}
			if from == 0 && page == 100 {
				full = strings.Join(got, "\n")
			}
		}
	}
	// names unique per (type, namespace, name) and versions unique over the journal — implied by the
	// comparison with the model, asserted on the real answer as well
	evs, _ := x.journalPaged(0, 100)
	names, vers := map[string]int64{}, map[int64]int64{}
	types := map[int64]int32{}
	for _, e := range evs {
		types[e.Id] = e.EventType
	}
	for _, e := range evs {
		// "entities in a namespace must reference an existing namespace": on the real answer alone
		if e.NamespaceId != 0 {
			if typ, ok := types[e.NamespaceId]; !ok || typ != format.NamespaceEvent {
				return "C15:namespace-id-is-not-a-namespace", fmt.Sprintf("journal: entity %d (type %d, %q) carries namespace id %d, which is %s", e.Id, e.EventType, e.Name, e.NamespaceId,
					map[bool]string{true: fmt.Sprintf("an entity of type %d", typ), false: "no entity at all"}[ok]), ""
			}
		}
		k := fmt.Sprintf("%d/%d/%s", e.EventType, e.NamespaceId, e.Name)
		if o, ok := names[k]; ok {
			return "C15:duplicate-name-accepted", fmt.Sprintf("entities %d and %d share type/namespace/name %s", o, e.Id, k), ""
		}
		names[k] = e.Id
		if o, ok := vers[e.Version]; ok {
			return "C15:version-not-unique", fmt.Sprintf("entities %d and %d share version %d", o, e.Id, e.Version), ""
		}
		vers[e.Version] = e.Id
	}
	return "", "", full
}

// ---------- operations of part 1 ----------

type c15Op struct {
	name  string
	build func(m *c15Model) (c15Req, bool) // false: the request cannot be formed (no such entity yet)
}

func c15CreateOp(typ int32, name string) c15Op {
	return c15Op{name: fmt.Sprintf("create(type=%d,%q)", typ, name), build: func(m *c15Model) (c15Req, bool) {
		return c15Req{create: true, typ: typ, name: name, data: `{"c":1}`}, true
	}}
}

// c15EditOp: slot-th created entity; stale=false names its current version, stale=true the version it
// had before its last change (when it never changed: the current version of the other entity, and
// failing that a version nobody has); newName "" keeps the name; del marks it deleted.
func c15EditOp(slot int, stale bool, newName string, del bool) c15Op {
	v := "current"
	if stale {
		v = "stale"
	}
	what := "same-name"
	if newName != "" {
		what = fmt.Sprintf("name=%q", newName)
	}
	if del {
		what += ",delete"
	}
	return c15Op{name: fmt.Sprintf("edit(slot%d,%s,%s)", slot, v, what), build: func(m *c15Model) (c15Req, bool) {
		if slot >= len(m.ents) {
			return c15Req{}, false
		}
		e := m.ents[slot]
		r := c15Req{typ: e.typ, id: e.id, version: e.version, name: e.name, data: `{"e":1}`}
		if stale {
			r.version = e.prev
			if r.version == 0 && len(m.ents) > 1 {
				r.version = m.ents[1-slot].version // never changed yet: the current version of ANOTHER entity
			}
			if r.version == 0 {
				r.version = e.version + 1000 // a version nobody has
			}
		}
		if newName != "" {
			r.name = newName
		}
		if del {
			r.del = uint32(c15T0)
			r.data = `{"d":1}`
		}
		return r, true
	}}
}

func c15Ops() []c15Op {
	ops := []c15Op{
		c15CreateOp(format.MetricEvent, "a"),
		c15CreateOp(format.MetricEvent, "b"),
		c15CreateOp(format.MetricEvent, "ns:a"),
		c15CreateOp(format.MetricsGroupEvent, "a"),
		c15CreateOp(format.MetricsGroupEvent, "ns:a"),
		c15CreateOp(format.NamespaceEvent, "ns"),
		c15CreateOp(format.NamespaceEvent, "b"),
		c15CreateOp(format.DashboardEvent, "a"),
	}
	for slot := 0; slot < 2; slot++ {
		for _, stale := range []bool{false, true} {
			for _, name := range []string{"", "c", "a", "ns:c"} { // same / free / possibly taken / other namespace
				ops = append(ops, c15EditOp(slot, stale, name, false))
			}
			ops = append(ops, c15EditOp(slot, stale, "", true))
		}
	}
	return ops
}

type c15Explorer struct {
	ops []c15Op
	rep *mc.Report
	mu  sync.Mutex
	// states: canonical key -> shortest (then lexicographically least) history reaching it
	states map[string][]int
}

func (ex *c15Explorer) names(h []int) []string {
	out := make([]string, len(h))
	for i, o := range h {
		out[i] = ex.ops[o].name
	}
	return out
}

func c15Less(a, b []int) bool {
	if len(a) != len(b) {
		return len(a) < len(b)
	}
	for i := range a {
		if a[i] != b[i] {
			return a[i] < b[i]
		}
	}
	return false
}

// replay executes a history on a fresh instance, checking every request. Returns the instance
// (caller closes), the model, the canonical state key and a violation if any.
func (ex *c15Explorer) replay(hist []int) (x *c15Inst, m *c15Model, key string, formable bool, refused bool, v mc.Verdict, err error) {
	x, err = c15Open()
	if err != nil {
		return nil, nil, "", false, false, v, err
	}
	m = &c15Model{}
	for i, o := range hist {
		r, ok := ex.ops[o].build(m)
		if !ok {
			return x, m, "", false, false, v, nil
		}
		sig, desc, accepted := c15Step(x, m, r)
		if i == len(hist)-1 && !accepted {
			refused = true
		}
		if sig != "" {
			v = mc.Verdict{Violation: fmt.Sprintf("history %v: %s", ex.names(hist), desc), Sig: sig, Detail: map[string]any{"history": ex.names(hist), "ops": hist, "failing_request": r.String()}}
			return x, m, "", true, refused, v, nil
		}
	}
	sig, desc, full := c15CheckJournal(x, m)
	if sig != "" {
		v = mc.Verdict{Violation: fmt.Sprintf("history %v: %s", ex.names(hist), desc), Sig: sig, Detail: map[string]any{"history": ex.names(hist), "ops": hist}}
		return x, m, "", true, refused, v, nil
	}
	// State key: the journal (id, type, namespace, name, version, deleted, data of every entity). SaveEntity
	// reads and writes only metrics_v5 (whose rows are exactly the journal; rows are never removed, so the
	// next id and MAX(version)+1 follow from it) and appends to entity_history, which it never reads back;
	// the clock is fixed. Two histories with the same journal therefore have the same futures. The
	// model's prev-version per entity (used to build "stale" requests) is added because it selects the
	// request a later operation sends.
	var sb strings.Builder
	sb.WriteString(full)
	for _, e := range m.ents {
		fmt.Fprintf(&sb, "|%d:%d", e.id, e.prev)
	}
	return x, m, sb.String(), true, refused, v, nil
}

func (ex *c15Explorer) run(hist []int) mc.StepResult {
	x, _, key, formable, refused, v, err := ex.replay(hist)
	if x != nil {
		defer x.close()
	}
	if err != nil {
		ex.rep.Infra(fmt.Sprintf("history %v: %v", ex.names(hist), err))
		return mc.StepResult{Applicable: false}
	}
	if !formable {
		return mc.StepResult{Applicable: false}
	}
	if v.Violation != "" {
		return mc.StepResult{Applicable: true, Key: "violation", Verdict: v}
	}
	ex.rep.Outcome(key)
	ex.mu.Lock()
	if old, ok := ex.states[key]; !ok || c15Less(hist, old) {
		ex.states[key] = append([]int(nil), hist...)
	}
	ex.mu.Unlock()
	// non-trivial: the last request conflicted with the state (it had to be refused)
	return mc.StepResult{Applicable: true, Key: key, Nontrivial: refused}
}

// ---------- part 3: journal paging by bytes ----------

// The journal is a cursor protocol: a client continues from the last version it received. Besides the
// count limit a page is cut by a byte budget (metricBytesReadLimit, a 1 MiB constant, counted over
// the data fields), so with large payloads a page ends early. Part 3 creates and edits entities whose
// data is small or ~600 KiB (two of the large ones exceed the budget, one fits in a request) in every
// order up to the depth bound and runs the same journal oracle: following the cursor to exhaustion
// from every start version delivers each entity's latest version exactly once, ascending.
const c15BigSize = 600 * 1024

var c15BigCreate = `{"p":"` + strings.Repeat("c", c15BigSize) + `"}`
var c15BigEdit = `{"p":"` + strings.Repeat("e", c15BigSize) + `"}`

func c15PagingCreate(big bool) c15Op {
	label, data := "create(small)", `{"c":1}`
	if big {
		label, data = "create(600KiB)", c15BigCreate
	}
	return c15Op{name: label, build: func(m *c15Model) (c15Req, bool) {
		return c15Req{create: true, typ: format.DashboardEvent, name: fmt.Sprintf("p%d", len(m.ents)), data: data}, true
	}}
}

func c15PagingEdit(slot int, big bool) c15Op {
	label, data := fmt.Sprintf("edit(slot%d,small)", slot), `{"e":1}`
	if big {
		label, data = fmt.Sprintf("edit(slot%d,600KiB)", slot), c15BigEdit
	}
	return c15Op{name: label, build: func(m *c15Model) (c15Req, bool) {
		if slot >= len(m.ents) {
			return c15Req{}, false
		}
		e := m.ents[slot]
		return c15Req{typ: e.typ, id: e.id, version: e.version, name: e.name, data: data}, true
	}}
}

func c15PagingOps() []c15Op {
	return []c15Op{
		c15PagingCreate(false), c15PagingCreate(true),
		c15PagingEdit(0, false), c15PagingEdit(0, true),
		c15PagingEdit(1, false), c15PagingEdit(1, true),
	}
}

// ---------- part 2: races ----------

// c15Racers: three requests for one entity, all built from the version observed now.
func c15Racers(e *c15Ent) []c15Req {
	return []c15Req{
		{typ: e.typ, id: e.id, version: e.version, name: e.name, data: `{"r":1}`},
		{typ: e.typ, id: e.id, version: e.version, name: e.name, data: `{"r":2}`, del: uint32(c15T0)},
		{typ: e.typ, id: e.id, version: e.version, name: "z", data: `{"r":3}`}, // rename to a never-used name (refused for a namespace)
	}
}

var c15Perms3 = [][]int{{0, 1, 2}, {0, 2, 1}, {1, 0, 2}, {1, 2, 0}, {2, 0, 1}, {2, 1, 0}}

// raceState runs all orders + the concurrent pass for every entity of one state. Returns executions done.
func (ex *c15Explorer) raceState(hist []int, key string) int {
	execs := 0
	violate := func(sig, desc string, detail map[string]any) {
		detail["history"] = ex.names(hist)
		detail["ops"] = hist
		ex.rep.Violate(sig, fmt.Sprintf("state after %v: %s", ex.names(hist), desc), detail)
	}
	nEnts := -1
	for slot := 0; nEnts < 0 || slot < nEnts; slot++ {
		for pi := 0; pi <= len(c15Perms3); pi++ { // pi == len: the concurrent pass
			x, m, k2, _, _, v, err := ex.replay(hist)
			if err != nil || v.Violation != "" || k2 != key {
				if x != nil {
					x.close()
				}
				ex.rep.Infra(fmt.Sprintf("race phase: replay of %v does not reproduce its state (err=%v violation=%q)", ex.names(hist), err, v.Violation))
				return execs
			}
			execs++
			nEnts = len(m.ents)
			if slot >= nEnts {
				x.close()
				break
			}
			racers := c15Racers(m.ents[slot])
			if pi < len(c15Perms3) {
				// sequential order: the reference decides every answer; in particular after the first
				// accepted request the others name a stale version and must be refused
				order := c15Perms3[pi]
				wins := 0
				firstEligible := false
				for j, ri := range order {
					if j == 0 {
						e, _, _ := m.expect(racers[ri])
						firstEligible = e == c15MustSucceed
					}
					sig, desc, accepted := c15Step(x, m, racers[ri])
					if accepted {
						wins++
					}
					if sig != "" {
						if sig == "C15:stale-version-edit-accepted" && wins > 1 {
							sig = "C15:race-two-winners"
						}
						violate(sig, fmt.Sprintf("racing requests for entity %d in order %v: %s", racers[0].id, order, desc), map[string]any{"order": order, "entity": racers[0].id})
						break
					}
				}
				if firstEligible && wins != 1 {
					violate("C15:race-not-exactly-one-winner", fmt.Sprintf("racing requests for entity %d in order %v: %d accepted", racers[0].id, order, wins), map[string]any{"order": order})
				}
				if sig, desc, _ := c15CheckJournal(x, m); sig != "" {
					violate(sig, fmt.Sprintf("after racing requests for entity %d in order %v: %s", racers[0].id, order, desc), map[string]any{"order": order})
				}
			} else {
				// free-running: three goroutines, released together
				type ans struct {
					ev  tlmetadata.Event
					err error
				}
				res := make([]ans, len(racers))
				start := make(chan struct{})
				var wg sync.WaitGroup
				for i := range racers {
					wg.Add(1)
					go func(i int) {
						defer wg.Done()
						<-start
						res[i].ev, res[i].err = x.send(racers[i])
					}(i)
				}
				close(start)
				wg.Wait()
				eligible := 0
				var winners []int
				for i := range racers {
					if e, _, _ := m.expect(racers[i]); e == c15MustSucceed {
						eligible++
					}
					if res[i].err == nil {
						winners = append(winners, i)
					}
				}
				switch {
				case len(winners) > 1:
					violate("C15:race-two-winners", fmt.Sprintf("concurrent requests %v for entity %d built from version %d: %d accepted", winners, racers[0].id, racers[0].version, len(winners)), map[string]any{"winners": winners})
				case len(winners) == 0 && eligible > 0:
					violate("C15:race-not-exactly-one-winner", fmt.Sprintf("concurrent requests for entity %d built from version %d: none accepted", racers[0].id, racers[0].version), map[string]any{})
				case len(winners) == 1:
					w := winners[0]
					exp, clause, nsID := m.expect(racers[w])
					if exp == c15MustFail {
						violate("C15:"+clause, fmt.Sprintf("concurrent pass: %v accepted", racers[w]), map[string]any{})
					} else if res[w].ev.Version <= m.maxVersion {
						violate("C15:version-not-increasing", fmt.Sprintf("concurrent pass: %v assigned version %d <= %d", racers[w], res[w].ev.Version, m.maxVersion), map[string]any{})
					} else {
						m.apply(racers[w], res[w].ev, nsID)
						if sig, desc, _ := c15CheckJournal(x, m); sig != "" {
							violate(sig, fmt.Sprintf("after concurrent requests for entity %d (winner %d): %s", racers[0].id, w, desc), map[string]any{"winner": w})
						}
					}
				}
			}
			x.close()
		}
	}
	return execs
}

func TestVerifC15(t *testing.T) {
	rep := mc.NewReport("C15")
	if os.Getenv("VERIF_C15_ONLY_DURABLE") != "" { // debugging aid only
		rep.Cap("VERIF_C15_ONLY_DURABLE")
		rep.Rule = "debugging run of part 5 only"
		c15RunDurablePart(t, rep)
		if err := rep.Write(); err != nil {
			t.Fatal(err)
		}
		return
	}
	ops := c15Ops()
	ex := &c15Explorer{ops: ops, rep: rep, states: map[string][]int{}}
	depth := mc.Pick(3, 4)
	if v, err := strconv.Atoi(os.Getenv("VERIF_C15_MAXDEPTH")); err == nil && v > 0 { // debugging aid only
		depth = min(depth, v)
		rep.Cap(fmt.Sprintf("VERIF_C15_MAXDEPTH=%d", v))
	}
	rep.Rule = "part 1: every history up to the depth bound over {create metric a / b / ns:a, group a / ns:a, namespace ns / b, dashboard a; edit of the 1st and 2nd created entity naming its current or a stale version and keeping the name / a free name c / a possibly taken name a / a name in namespace ns:c; delete with current or stale version}, all requests through RawEditEntity, state-hashing BFS over the journal; part 2: at every distinct state reached, for every entity, {edit, delete, rename} built from the same observed version in all 6 orders on fresh replays and once from 3 concurrent goroutines; part 3: every history up to its depth bound of {create, edit 1st, edit 2nd entity} x {small, ~600 KiB data} (two large entities exceed the journal's 1 MiB page byte budget), journal followed by cursor from every start version with page limits 1, 2, 100; part 4: on every state of part 1 within the fault prefix bound, every request shape of part 1 once more with an environment fault (request context expiring after its N-th check for every N below the number of checks of the unfaulted request, binlog refusing the append, engine in replica role), a refused request must be invisible to the journal, the entity history, the retried and competing requests built from the state observed before it, and to a database rebuilt from the binlog; part 5: every history up to its depth bound over {create a, create b, edit of the first entity the clients know from the latest version handed out, journal read, binlog commit up to the first non-durable event / of everything / announced once more} on the real DBV2 over an in-memory binlog whose durable offset only the explorer moves (requests in flight are parked by the engine until their commit), every answer checked against the durable binlog prefix at the moment it is handed out, then crash + restart over the durable prefix + one more create; part 6: every history up to its depth bound over a name pool shared across entity types {create metric / group / dashboard / prom config / namespace all called t, create metric / group t:x, create metric x, rename of the 1st, 2nd (thorough: 3rd) created entity to t:y from its current version, delete of it}, same reference (a prefixed name resolves only to an entity of type namespace) and oracles as part 1, and every non-zero namespace id in the journal is the id of an entity of type namespace. Non-trivial: the last request conflicts with the state and has to be refused (stale version, taken name, missing namespace, namespace rename); in part 4: a request the unfaulted run accepts is refused only because of the fault; in part 5: the history ends with callers parked behind a non-durable event or had a reader parked behind two of them"
	rep.Bounds["history_depth"] = depth
	rep.Bounds["alphabet"] = ex.names(vmetaSeq(len(ops)))
	rep.Bounds["paging_depth"] = mc.Pick(4, 5)
	rep.Bounds["paging_alphabet"] = (&c15Explorer{ops: c15PagingOps()}).names(vmetaSeq(len(c15PagingOps())))
	rep.Bounds["race"] = "3 requests per entity from one observed version: 6 orders + 1 free-running concurrent pass, at every distinct state"
	rep.Assume("a request is atomic: Engine.Do runs the whole SaveEntity callback under the single read-write connection's mutex inside the engine's open transaction (engine.go doWithoutWait), so the orders of whole requests are all interleavings; interleavings inside SQLite/cgo are not explored (the free-running pass samples them)")
	rep.Assume("left open by the property and therefore not asserted either way (the reference follows the implementation): editing a deleted entity, naming a deleted namespace")
	rep.Assume("SQLite (amalgamation 3.53.0 supplied by /verif) is trusted")
	t0 := time.Now()
	st := mc.BFS(ex.run, mc.BFSOptions{NumOps: len(ops), MaxDepth: depth, Workers: runtime.GOMAXPROCS(0), MaxViolations: 40})
	for _, s := range st.Samples {
		rep.Sample(map[string]any{"part": "histories", "history": ex.names(s)})
	}
	rep.MergeBFS("histories", st)
	t.Logf("C15 histories: depth=%d states=%d transitions=%d perLevel=%v violations=%d wall=%.1fs", st.Depth, st.States, st.Transitions, st.PerLevel, len(st.Violations), time.Since(t0).Seconds())

	// part 3: byte-limited journal pages
	t3 := time.Now()
	ex3 := &c15Explorer{ops: c15PagingOps(), rep: rep, states: map[string][]int{}}
	pagingDepth := mc.Pick(4, 5)
	if v, err := strconv.Atoi(os.Getenv("VERIF_C15_MAXDEPTH")); err == nil && v > 0 {
		pagingDepth = min(pagingDepth, v+1)
	}
	st3 := mc.BFS(ex3.run, mc.BFSOptions{NumOps: len(ex3.ops), MaxDepth: pagingDepth, Workers: runtime.GOMAXPROCS(0), MaxViolations: 40})
	for i, s := range st3.Samples {
		if i < 2 {
			rep.Sample(map[string]any{"part": "journal_paging", "history": ex3.names(s)})
		}
	}
	rep.MergeBFS("journal_paging", st3)
	t.Logf("C15 journal paging: depth=%d states=%d transitions=%d perLevel=%v violations=%d wall=%.1fs", st3.Depth, st3.States, st3.Transitions, st3.PerLevel, len(st3.Violations), time.Since(t3).Seconds())

	// part 2
	t1 := time.Now()
	keys := make([]string, 0, len(ex.states))
	for k := range ex.states {
		keys = append(keys, k)
	}
	sort.Slice(keys, func(i, j int) bool { return c15Less(ex.states[keys[i]], ex.states[keys[j]]) })
	var raceExecs, raced int64
	var cmu sync.Mutex
	jobs := make(chan string, len(keys))
	for _, k := range keys {
		jobs <- k
	}
	close(jobs)
	var wg sync.WaitGroup
	capped := false
	for w := 0; w < runtime.GOMAXPROCS(0); w++ {
		wg.Add(1)
		go func() {
			defer wg.Done()
			for k := range jobs {
				if mc.Expired() {
					cmu.Lock()
					capped = true
					cmu.Unlock()
					continue
				}
				n := ex.raceState(ex.states[k], k)
				cmu.Lock()
				raceExecs += int64(n)
				raced++
				cmu.Unlock()
			}
		}()
	}
	wg.Wait()
	if capped {
		rep.Cap("race_phase:wall_budget")
	}
	rep.AddCounts(raceExecs, raceExecs*3, 0, raceExecs)
	rep.Parts["races"] = map[string]any{"states_raced": raced, "states_total": len(keys), "executions": raceExecs}
	t.Logf("C15 races: states=%d/%d executions=%d wall=%.1fs", raced, len(keys), raceExecs, time.Since(t1).Seconds())

	// part 4: requests refused by the environment (verif_c15_faults_test.go)
	c15RunFaultPart(t, rep, ex)
	// part 5: the durability window (verif_c15_durable_test.go)
	c15RunDurablePart(t, rep)
	// part 6: one name pool shared across entity types (verif_c15_namepool_test.go)
	c15RunNamePoolPart(t, rep)
	if err := rep.Write(); err != nil {
		t.Fatal(err)
	}
}
