//go:build verif

package metadata

// C16 — replaying the metadata binlog reproduces the primary's state.
//
// Bounded exhaustive exploration of the REAL DBV2 (real sqlite engine, real fsbinlog on a
// scratch directory, injected clock). Every operation history up to the depth bound over the
// alphabets below is executed on a fresh primary; then the binlog the primary wrote is
// replayed by the real OpenDB/applyScanEvent path
//   (a) into a fresh database file,
//   (b) onto a snapshot of the primary's database taken after k operations, for EVERY k in
//       1..len-1 (quiescent point: the engine's periodic commit is forced, then the engine's own
//       Backup — the service's snapshot mechanism — copies the committed state), and onto the
//       primary's own file after Close (k = len, nothing left to replay),
// and the dump (journal, history, mappings both ways, flood limits, bootstrap) of every
// reopened instance must equal the dump of the primary. Differential oracle: there is no
// hand-written expectation of what the state should be, only that replay == primary.

import (
	"context"
	"fmt"
	"os"
	"regexp"
	"runtime"
	"strconv"
	"strings"
	"sync"
	"sync/atomic"
	"testing"
	"time"

	"github.com/VKCOM/statshouse/internal/data_model/gen2/tlstatshouse"
	"github.com/VKCOM/statshouse/internal/format"
	"github.com/VKCOM/statshouse/internal/sqlite"
	"github.com/VKCOM/statshouse/internal/verif/mc"
)

const c16T0 = int64(1_700_000_040) // multiple of the 60 s flood step

func c16Options(clock *vmetaClock) Options {
	// budgets shrunk so that every branch of getOrCreateMapping's flood accounting is taken
	// within 2-3 creations (global-budget bypass for the 2nd creation, refill, over-max reset)
	return Options{MaxBudget: 2, BudgetBonus: 1, StepSec: 60, GlobalBudget: 1, Now: clock.Now}
}

var c16ProbeKeys = []string{"k1", "k2", "k3", "k4"}
var c16ProbeIDs = []int32{1, 2, 3, 4, 5, 6, 7, 99}

type c16Ent struct {
	id      int64
	version int64
	name    string
	typ     int32
}

// c16Log is what the harness remembers about one executed operation (only used to put a
// precise signature on a mismatch, never to decide whether there is one).
type c16Log struct {
	idx     int // 1-based position in the history
	kind    string
	entID   int64
	typ     int32
	oldName string
	newName string
	metric  string
}

type c16Run struct {
	db    *DBV2
	clock *vmetaClock
	idx   int
	slots []*c16Ent
	pre   *c16Ent
	log   []c16Log
}

type c16Op struct {
	name      string
	needSlots int                           // number of entities the harness must have created before it can form this request
	do        func(r *c16Run) (bool, error) // applicable (changed the state / wrote an event), infrastructure error
}

func (r *c16Run) data() string { return fmt.Sprintf(`{"n":%d}`, r.idx) }
func (r *c16Run) meta() string { return fmt.Sprintf("meta%d", r.idx) }

func c16Create(name string, typ int32) c16Op {
	return c16Op{name: fmt.Sprintf("create(type=%d,%q)", typ, name), do: func(r *c16Run) (bool, error) {
		e, err := r.db.SaveEntity(context.Background(), name, 0, 0, r.data(), true, 0, typ, r.meta())
		if err != nil {
			return false, nil // refused (name taken, namespace missing): no event, nothing to replay
		}
		r.slots = append(r.slots, &c16Ent{id: e.Id, version: e.Version, name: name, typ: typ})
		r.log = append(r.log, c16Log{idx: r.idx, kind: "create", entID: e.Id, typ: typ, newName: name})
		return true, nil
	}}
}

// c16Edit edits the slot-th created entity from its current version. newName=="" keeps the name.
func c16Edit(slot int, newName string, del bool) c16Op {
	label := fmt.Sprintf("edit(slot%d)", slot)
	if newName != "" {
		label = fmt.Sprintf("rename(slot%d->%q)", slot, newName)
	}
	if del {
		label = fmt.Sprintf("delete(slot%d)", slot)
	}
	return c16Op{name: label, needSlots: slot + 1, do: func(r *c16Run) (bool, error) {
		if slot >= len(r.slots) {
			return false, nil
		}
		ent := r.slots[slot]
		name := ent.name
		if newName != "" {
			name = newName
		}
		if newName != "" && name == ent.name {
			return false, nil // would be the plain edit
		}
		var delTime uint32
		if del {
			delTime = uint32(r.clock.Get())
		}
		e, err := r.db.SaveEntity(context.Background(), name, ent.id, ent.version, r.data(), false, delTime, ent.typ, r.meta())
		if err != nil {
			return false, nil
		}
		kind := "edit"
		if name != ent.name {
			kind = "rename"
		}
		r.log = append(r.log, c16Log{idx: r.idx, kind: kind, entID: ent.id, typ: ent.typ, oldName: ent.name, newName: name})
		ent.version, ent.name = e.Version, name
		return true, nil
	}}
}

// c16Predefined saves the predefined (negative id) entity -1: created with the fixed id the
// first time, edited from its current version afterwards (SaveEntity decides by itself).
func c16Predefined(name string) c16Op {
	return c16Op{name: fmt.Sprintf("savePredefined(-1,%q)", name), do: func(r *c16Run) (bool, error) {
		var ver int64
		old := ""
		if r.pre != nil {
			ver, old = r.pre.version, r.pre.name
		}
		e, err := r.db.SaveEntity(context.Background(), name, -1, ver, r.data(), false, 0, format.MetricEvent, r.meta())
		if err != nil {
			return false, nil
		}
		kind := "create"
		if r.pre != nil {
			kind = "edit"
			if old != name {
				kind = "rename"
			}
		}
		r.log = append(r.log, c16Log{idx: r.idx, kind: kind, entID: -1, typ: format.MetricEvent, oldName: old, newName: name})
		r.pre = &c16Ent{id: -1, version: e.Version, name: name, typ: format.MetricEvent}
		return true, nil
	}}
}

func c16GetOrCreate(metric, key string) c16Op {
	return c16Op{name: fmt.Sprintf("getOrCreateMapping(%s,%s)", metric, key), do: func(r *c16Run) (bool, error) {
		resp, err := r.db.GetOrCreateMapping(context.Background(), metric, key)
		if err != nil {
			return false, err
		}
		if !resp.IsCreated() {
			return false, nil // existing id or flood limit: nothing written
		}
		r.log = append(r.log, c16Log{idx: r.idx, kind: "createMapping", metric: metric})
		return true, nil
	}}
}

func c16Put(keys []string, ids []int32) c16Op {
	return c16Op{name: fmt.Sprintf("putMapping(%v,%v)", keys, ids), do: func(r *c16Run) (bool, error) {
		if err := r.db.PutMapping(context.Background(), keys, ids); err != nil {
			return false, err
		}
		r.log = append(r.log, c16Log{idx: r.idx, kind: "putMapping"})
		return true, nil
	}}
}

func c16Delete(ids []int32) c16Op {
	return c16Op{name: fmt.Sprintf("deleteMappings(%v)", ids), do: func(r *c16Run) (bool, error) {
		n, err := r.db.deleteMappingsByIdBatched(context.Background(), ids)
		if err != nil {
			return false, err
		}
		if n == 0 {
			return false, nil
		}
		r.log = append(r.log, c16Log{idx: r.idx, kind: "deleteMappings"})
		return true, nil
	}}
}

// c16Bootstrap stores the bootstrap set the way the primary side of applyPutBootstrap is
// written to be used: inside an engine transaction, handing the event bytes it returns to
// the binlog. (This tree has no RPC that calls it; the replay side is reached through
// applyScanEvent.)
func c16Bootstrap(m []tlstatshouse.Mapping) c16Op {
	return c16Op{name: fmt.Sprintf("putBootstrap(%v)", m), do: func(r *c16Run) (bool, error) {
		err := r.db.eng.Do(context.Background(), "put_bootstrap", func(conn sqlite.Conn, cache []byte) ([]byte, error) {
			_, cache, err := applyPutBootstrap(conn, cache, m)
			return cache, err
		})
		if err != nil {
			return false, err
		}
		r.log = append(r.log, c16Log{idx: r.idx, kind: "putBootstrap"})
		return true, nil
	}}
}

func c16ResetFlood(metric string, limit int64) c16Op {
	return c16Op{name: fmt.Sprintf("resetFlood(%s,%d)", metric, limit), do: func(r *c16Run) (bool, error) {
		if _, _, err := r.db.ResetFlood(context.Background(), metric, limit); err != nil {
			return false, err
		}
		r.log = append(r.log, c16Log{idx: r.idx, kind: "resetFlood", metric: metric})
		return true, nil
	}}
}

func c16ClockStep() c16Op {
	return c16Op{name: "clock+1step", do: func(r *c16Run) (bool, error) {
		r.clock.Add(60)
		r.log = append(r.log, c16Log{idx: r.idx, kind: "clock"})
		return true, nil
	}}
}

func c16EntityOps() []c16Op {
	ops := []c16Op{
		c16Create("a", format.MetricEvent),
		c16Create("ns:a", format.MetricEvent), // refused until namespace "ns" exists
		c16Create("ns", format.NamespaceEvent),
		c16Create("a", format.MetricsGroupEvent), // same name, other type
		c16Predefined("p"),
		c16Edit(0, "", false),
		c16Edit(0, "b", false),    // rename
		c16Edit(0, "ns:b", false), // rename into a namespace (namespace_id changes)
		c16Edit(0, "", true),      // delete
		c16Edit(1, "", false),
		c16Edit(1, "b", false),
		c16Predefined("q"), // rename of the predefined entity
	}
	if mc.Thorough() {
		ops = append(ops, c16Create("a", format.DashboardEvent), c16Edit(1, "", true))
	}
	return ops
}

func c16MappingOps() []c16Op {
	return []c16Op{
		c16GetOrCreate("m1", "k1"),
		c16GetOrCreate("m1", "k2"),
		c16GetOrCreate("m2", "k3"),
		c16Put([]string{"k1"}, []int32{5}),          // re-ids k1 (or creates it as 5)
		c16Put([]string{"k4", "k2"}, []int32{1, 6}), // id 1 may already belong to another key
		c16Delete([]int32{1, 2}),
		c16Delete([]int32{5, 99}),
		c16Bootstrap([]tlstatshouse.Mapping{{Str: "k1", Value: 1}, {Str: "k2", Value: 2}}),
		c16Bootstrap([]tlstatshouse.Mapping{{Str: "k3", Value: 3}}),
		c16ResetFlood("m1", 0),
		c16ResetFlood("m1", 7), // above MaxBudget
		c16ClockStep(),
	}
}

// c16Restore is the operator's "restore" of mappings removed earlier: PutMapping of keys onto their ids,
// issued only while at least one of the ids is absent (a put onto ids that are all present is what the
// mappings alphabet explores; here it would only multiply histories without deleting/restoring anything).
func c16Restore(keys []string, ids []int32) c16Op {
	return c16Op{name: fmt.Sprintf("restoreMapping(%v,%v)", keys, ids), do: func(r *c16Run) (bool, error) {
		missing := false
		for _, id := range ids {
			_, ok, err := r.db.GetMappingByID(context.Background(), id)
			if err != nil {
				return false, err
			}
			missing = missing || !ok
		}
		if !missing {
			return false, nil
		}
		if err := r.db.PutMapping(context.Background(), keys, ids); err != nil {
			return false, err
		}
		r.log = append(r.log, c16Log{idx: r.idx, kind: "putMapping"})
		return true, nil
	}}
}

// c16DeletionOps is the dedicated sub-alphabet of the mapping-deletion family (fewer operations, more
// depth): on a world populated by ONE multi-key putMapping (c16DeletionWorld: k1..k4 -> 1..4, the longest
// event of the family, executed on the primary like any other operation and part of the binlog) every
// deleteMappings over every non-empty id subset of {1,2,3} (events of 1..3 ids; the primary writes only the
// ids that were present, so the event sizes vary with the state as well; a deletion that finds none of its
// ids writes nothing and is not extended), the restore of every single key onto its own id and one two-key
// restore (PutMapping events of 1 and 2 keys after the 4-key one). What the family is for: consecutive events
// of one replayed payload whose id / key lists have DIFFERENT lengths in every order (longer then shorter,
// shorter then longer, equal), with the rows they name deleted and restored in between, x every snapshot
// point - whatever a replayed event leaves behind in the replayer (decoded event structs, scratch slices)
// meets a shorter successor.
func c16DeletionOps() []c16Op {
	var ops []c16Op
	for mask := 1; mask < 8; mask++ {
		var ids []int32
		for b := 0; b < 3; b++ {
			if mask&(1<<b) != 0 {
				ids = append(ids, int32(b+1))
			}
		}
		ops = append(ops, c16Delete(ids))
	}
	for i := 1; i <= 3; i++ {
		ops = append(ops, c16Restore([]string{fmt.Sprintf("k%d", i)}, []int32{int32(i)}))
	}
	ops = append(ops, c16Restore([]string{"k1", "k2"}, []int32{1, 2}))
	return ops
}

func c16DeletionWorld() c16Op {
	return c16Put([]string{"k1", "k2", "k3", "k4"}, []int32{1, 2, 3, 4})
}

type c16Mismatch struct {
	prio   int // smaller = reported first
	sig    string
	desc   string
	detail map[string]any
}

var c16JournalID = regexp.MustCompile(`^[-+]journal: id=(-?\d+) `)
var c16FloodMetric = regexp.MustCompile(`^[-+]flood: metric="([^"]*)"(?:\([a-z]+\))? `)

// c16Classify names the kind of divergence. It never decides WHETHER there is one (that is
// the dump comparison); it only looks for the two root causes that are known and explains a
// diff by them when every differing line is accounted for.
func c16Classify(log []c16Log, k int, lines []string, replica *vmetaDump) (string, int) {
	// entities with a rename among the replayed operations (index > k); name before the first such rename
	renamed := map[int64]string{}
	resetM := map[string]bool{}
	for _, l := range log {
		if l.idx <= k {
			continue
		}
		switch l.kind {
		case "rename":
			if _, ok := renamed[l.entID]; !ok {
				renamed[l.entID] = l.oldName
			}
		case "resetFlood":
			resetM[l.metric] = true
		case "createMapping":
			delete(resetM, l.metric) // the create event carries the budget: replica converges again
		}
	}
	allRename, allFlood := len(lines) > 0, len(lines) > 0
	for _, ln := range lines {
		if m := c16JournalID.FindStringSubmatch(ln); m != nil {
			id, _ := strconv.ParseInt(m[1], 10, 64)
			if _, ok := renamed[id]; !ok {
				allRename = false
			}
			allFlood = false
		} else if m := c16FloodMetric.FindStringSubmatch(ln); m != nil {
			if !resetM[m[1]] {
				allFlood = false
			}
			allRename = false
		} else {
			allRename, allFlood = false, false
		}
	}
	if allRename {
		// the replica must still show the pre-rename name of at least one such entity
		for id, old := range renamed {
			for _, jl := range replica.Journal {
				if strings.HasPrefix(jl, fmt.Sprintf("id=%d ", id)) && strings.Contains(jl, fmt.Sprintf("name=%q ", old)) {
					return "C16:replayed-rename-not-applied", 3
				}
			}
		}
	}
	if allFlood {
		return "C16:reset-flood-not-replayed", 2
	}
	// both known causes together and nothing else
	mixed := len(lines) > 0
	for _, ln := range lines {
		if m := c16JournalID.FindStringSubmatch(ln); m != nil {
			id, _ := strconv.ParseInt(m[1], 10, 64)
			if _, ok := renamed[id]; ok {
				continue
			}
		} else if m := c16FloodMetric.FindStringSubmatch(ln); m != nil && resetM[m[1]] {
			continue
		}
		mixed = false
	}
	if mixed {
		return "C16:replayed-rename-not-applied", 3
	}
	// a mapping the primary still has is missing on the replica, nothing but mapping lines differ, and a
	// deleteMappings was among the replayed operations: the replayed deletion removed more than the primary's
	replayedDelete := false
	for _, l := range log {
		replayedDelete = replayedDelete || (l.idx > k && l.kind == "deleteMappings")
	}
	onlyMappings, lost := len(lines) > 0, false
	for _, ln := range lines {
		switch {
		case strings.HasPrefix(ln, "-mappings: ") && !strings.HasPrefix(ln, "-mappings: max_id="):
			lost = true
		case strings.HasPrefix(ln, "-mappings: "), strings.HasPrefix(ln, "+mappings: max_id="), strings.HasPrefix(ln, "-byvalue: "), strings.HasPrefix(ln, "+byvalue: "):
		default:
			onlyMappings = false
		}
	}
	if replayedDelete && onlyMappings && lost {
		return "C16:replayed-delete-mappings-removes-mapping-the-primary-kept", 0
	}
	return "", 0
}

// c16RenameFreesName: some replayed rename (index > k) moved an entity away from a name that a
// LATER replayed operation gave to another entity of the same type — on a replica that did not
// apply the rename the later event hits the UNIQUE(namespace_id,type,name) constraint.
func c16RenameFreesName(log []c16Log, k int) bool {
	for i, l := range log {
		if l.idx <= k || l.kind != "rename" {
			continue
		}
		for _, l2 := range log[i+1:] {
			if (l2.kind == "create" || l2.kind == "rename") && l2.entID != l.entID && l2.typ == l.typ && l2.newName == l.oldName {
				return true
			}
		}
	}
	return false
}

type c16Explorer struct {
	part string
	ops  []c16Op
	// world: indices (>= NumOps of the BFS, so never chosen as a step) of the operations executed on the
	// primary before every history; they are operations like the others (binlog events, snapshot points)
	world []int
	rep  *mc.Report
	info sync.Map // history (string) -> c16Info: what the harness holds after that history
	// sigSeen: the (at most 3) violating histories kept per signature; see run()
	sigMu          sync.Mutex
	sigSeen        map[string][]string
	moreViolations atomic.Int64
}

// c16Info is the harness-side bookkeeping after a history (which entities it has created and
// under which name/version it knows them). It only serves to skip requests that cannot be
// formed at all (edit of a 2nd entity when only one was created).
type c16Info struct {
	slots int
}

func c16HistKey(h []int) string { return fmt.Sprint(h) }

func (ex *c16Explorer) names(hist []int) []string {
	out := make([]string, len(hist))
	for i, h := range hist {
		out[i] = ex.ops[h].name
	}
	return out
}

// reopen opens dbFile of dir (replaying the binlog from the offset stored in it), dumps, closes.
func c16Reopen(dir, dbFile string, clock *vmetaClock) (*vmetaDump, error) {
	db, err := vmetaOpen(dir, dbFile, false, c16Options(clock))
	if err != nil {
		return nil, fmt.Errorf("open: %w", err)
	}
	d, derr := vmetaTakeDump(db, c16ProbeKeys, c16ProbeIDs)
	cerr := vmetaClose(db)
	if derr != nil {
		return nil, fmt.Errorf("dump: %w", derr)
	}
	if cerr != nil {
		return nil, fmt.Errorf("close: %w", cerr)
	}
	return d, nil
}

// primary executes the history on a fresh primary. After every operation k < len it takes a
// snapshot of the database (forced commit + the engine's own Backup). Returns the primary's
// final dump, its op log and the snapshot file names (index k-1 -> snapshot after k ops).
func (ex *c16Explorer) primary(dir string, hist []int) (applicable bool, dump *vmetaDump, r *c16Run, snaps []string, err error) {
	clock := &vmetaClock{}
	clock.Set(c16T0)
	db, err := vmetaOpen(dir, "db", true, c16Options(clock))
	if err != nil {
		return false, nil, nil, nil, err
	}
	r = &c16Run{db: db, clock: clock}
	closed := false
	defer func() {
		if !closed {
			_ = vmetaClose(db)
		}
	}()
	for i, h := range hist {
		r.idx = i + 1
		clock.Add(1)
		ok, err := ex.ops[h].do(r)
		if err != nil {
			return false, nil, nil, nil, fmt.Errorf("op %d %s: %w", i+1, ex.ops[h].name, err)
		}
		if !ok {
			if i != len(hist)-1 {
				return false, nil, nil, nil, fmt.Errorf("op %d %s of an already explored prefix became inapplicable (nondeterminism)", i+1, ex.ops[h].name)
			}
			return false, nil, nil, nil, nil
		}
		if i < len(hist)-1 {
			name, err := vmetaSnapshot(r.db, dir, fmt.Sprintf("snap%d", i+1))
			if err != nil {
				return false, nil, nil, nil, fmt.Errorf("snapshot after op %d: %w", i+1, err)
			}
			snaps = append(snaps, name)
		}
	}
	dump, err = vmetaTakeDump(r.db, c16ProbeKeys, c16ProbeIDs)
	if err != nil {
		return false, nil, nil, nil, err
	}
	closed = true
	if err := vmetaClose(r.db); err != nil {
		return false, nil, nil, nil, fmt.Errorf("close primary: %w", err)
	}
	return true, dump, r, snaps, nil
}

func (ex *c16Explorer) compare(hist []int, log []c16Log, k int, how string, prim *vmetaDump, dir, dbFile string, out *[]c16Mismatch) {
	clock := &vmetaClock{}
	clock.Set(c16T0 + 100000) // the clock of the reopened instance must be irrelevant to replay
	rep, err := c16Reopen(dir, dbFile, clock)
	base := map[string]any{"history": ex.names(hist), "ops": hist, "reopen": how, "replayed_from_op": k + 1}
	if err != nil && !strings.Contains(err.Error(), "can't apply binlog event") && !strings.Contains(err.Error(), "constraint") {
		// not a replay failure (descriptor limit, disk full, ...): infrastructure, never a verdict
		ex.rep.Infra(fmt.Sprintf("history %v: reopening %s: %v", ex.names(hist), how, err))
		return
	}
	if err != nil {
		sig, prio := "C16:reopen-fails", 1
		if c16RenameFreesName(log, k) && strings.Contains(err.Error(), "constraint") {
			sig, prio = "C16:replayed-rename-not-applied", 3
		}
		base["error"] = err.Error()
		*out = append(*out, c16Mismatch{prio: prio, sig: sig, detail: base,
			desc: fmt.Sprintf("history %v: reopening %s fails: %v", ex.names(hist), how, err)})
		return
	}
	ex.rep.Outcome(rep.String())
	secs, lines := vmetaDiff(prim, rep)
	if len(secs) == 0 {
		return
	}
	sig, prio := c16Classify(log, k, lines, rep)
	if sig == "" {
		sig, prio = "C16:replay-diverges:"+strings.Join(secs, "+"), 0
	}
	base["diff"] = lines
	base["primary"] = prim
	base["reopened"] = rep
	*out = append(*out, c16Mismatch{prio: prio, sig: sig, detail: base,
		desc: fmt.Sprintf("history %v: state after reopening %s differs from the primary in %v: %s", ex.names(hist), how, secs, strings.Join(lines, " ; "))})
}

func (ex *c16Explorer) run(hist []int) mc.StepResult {
	infra := func(err error) mc.StepResult {
		ex.rep.Infra(fmt.Sprintf("history %v: %v", ex.names(hist), err))
		return mc.StepResult{Applicable: false}
	}
	if n := len(hist); n > 0 {
		// a request that cannot be formed (it refers to an entity the harness has not created)
		if pi, ok := ex.info.Load(c16HistKey(hist[:n-1])); ok && ex.ops[hist[n-1]].needSlots > pi.(c16Info).slots {
			return mc.StepResult{Applicable: false}
		}
	}
	dir, err := vmetaScratch("c16")
	if err != nil {
		return infra(err)
	}
	defer os.RemoveAll(dir)
	bfsHist := hist
	if len(ex.world) > 0 {
		hist = append(append([]int{}, ex.world...), hist...)
	}
	ok, prim, r, snaps, err := ex.primary(dir, hist)
	if err != nil {
		return infra(err)
	}
	if !ok {
		return mc.StepResult{Applicable: false}
	}
	ex.info.Store(c16HistKey(bfsHist), c16Info{slots: len(r.slots)})
	log := r.log
	var mm []c16Mismatch
	// (a) fresh database file, whole binlog replayed
	ex.compare(hist, log, 0, "into a fresh database file (whole binlog replayed)", prim, dir, "fresh", &mm)
	// (b, 0<k<len) snapshots of the database taken after k operations
	for k := 1; k < len(hist); k++ {
		ex.compare(hist, log, k, fmt.Sprintf("from a snapshot of the database taken after %d operation(s)", k), prim, dir, snaps[k-1], &mm)
	}
	// (b, k=len) the primary's own file: nothing left to replay
	ex.compare(hist, log, len(hist), "the primary's own database file (nothing to replay)", prim, dir, "db", &mm)
	reopens := 1 + len(hist)
	if len(hist) == 0 {
		reopens = 2
	}
	ex.rep.AddCounts(int64(reopens), 0, 0, 0)
	res := mc.StepResult{Applicable: true, Key: prim.String()}
	// non-trivial: the replay had to apply an event that depends on an earlier one (edit/rename/delete of an
	// entity, re-id/deletion of a mapping, second creation on a budget) — everything except a lone create
	for _, l := range log {
		if l.kind != "create" && l.kind != "clock" && l.idx > 1 {
			res.Nontrivial = true
		}
	}
	if len(mm) > 0 {
		best := mm[0]
		for _, m := range mm[1:] {
			if m.prio < best.prio {
				best = m
			}
		}
		// Every history that contains a replayed rename ends here as long as the rename defect is in the
		// tree. mc.BFS re-executes each violating history 5 more times to confirm it; three confirmed
		// examples per signature are kept, further histories with the same signature are counted and
		// dropped (neither re-confirmed nor extended: their state has already diverged).
		hk := c16HistKey(bfsHist)
		ex.sigMu.Lock()
		keep := false
		for _, k := range ex.sigSeen[best.sig] {
			keep = keep || k == hk // a confirming re-run of a kept example
		}
		if !keep && len(ex.sigSeen[best.sig]) < 3 {
			ex.sigSeen[best.sig] = append(ex.sigSeen[best.sig], hk)
			keep = true
		}
		ex.sigMu.Unlock()
		if !keep {
			ex.rep.Nontrivial("violating:" + ex.part + ":" + hk)
			ex.moreViolations.Add(1)
			return mc.StepResult{Applicable: false}
		}
		res.Nontrivial = true // every violating history counts once: here if kept, through rep.Nontrivial if dropped
		res.Verdict = mc.Verdict{Violation: best.desc, Sig: best.sig, Detail: best.detail}
	}
	return res
}

func TestVerifC16(t *testing.T) {
	rep := mc.NewReport("C16")
	rep.Rule = "every history (sequence of applicable operations; refused or no-op requests are not extended) up to the depth bound over four alphabets: entities {create metric a / metric ns:a / namespace ns / group a / predefined -1, edit, rename, rename into a namespace, delete of the 1st and 2nd created entity, rename of the predefined entity}, mappings {getOrCreate (m1,k1) (m1,k2) (m2,k3), putMapping re-id and multi-key with an id collision, deleteMappings x2, putBootstrap x2, resetFlood to default and above max, clock +1 step}, their union, and the mapping-deletion family {on a world populated by one putMapping k1..k4 -> 1..4: deleteMappings of every non-empty id subset of {1,2,3}, restore (putMapping while absent) of each single key onto its id, one two-key restore} explored one level deeper; for each history the binlog is replayed into a fresh file, onto the primary's own file and onto a snapshot taken after every k operations. Non-trivial: the replay applies at least one event that depends on an earlier one (anything but creates)"
	// One history costs ~6 engine opens (each a real SQLite open + schema + binlog replay, ~0.1 CPU-s per
	// history on the reference machine), so the depths are one below the design's 4/5 in the quick tier.
	entityDepth := mc.Pick(3, 5)
	mappingDepth := mc.Pick(3, 4)
	mixedDepth := mc.Pick(2, 3)
	deletionDepth := mc.Pick(3, 4)
	if v, err := strconv.Atoi(os.Getenv("VERIF_C16_MAXDEPTH")); err == nil && v > 0 { // debugging aid only
		entityDepth, mappingDepth, mixedDepth, deletionDepth = min(entityDepth, v), min(mappingDepth, v), min(mixedDepth, v), min(deletionDepth, v)
		rep.Cap(fmt.Sprintf("VERIF_C16_MAXDEPTH=%d", v))
	}
	rep.Bounds["entity_alphabet_depth"] = entityDepth
	rep.Bounds["mapping_alphabet_depth"] = mappingDepth
	rep.Bounds["union_alphabet_depth"] = mixedDepth
	rep.Bounds["deletion_alphabet_depth"] = fmt.Sprintf("%d operations after the populating putMapping", deletionDepth)
	rep.Bounds["snapshot_points"] = "every k in 0..len (0 = fresh file, len = the primary's own file after Close, else forced commit + Engine.Backup)"
	rep.Bounds["options"] = "MaxBudget=2 BudgetBonus=1 StepSec=60 GlobalBudget=1"
	rep.Assume("entity operations touch only metrics_v5/entity_history and mapping operations only mappings/flood_limits/property (by reading dbv2.go/binlog_event.go); the union alphabet is therefore explored one level shallower than the two families")
	rep.Assume("a snapshot after k operations is what the service's own backup produces (Engine.Backup = VACUUM INTO of the committed state) right after a commit of the SQLite transaction; the commit is the one txLoop performs every second, forced through the shim harness/internal/sqlite/verif_common_metadata_export.go instead of waiting for the wall clock")
	rep.Assume("SQLite itself (amalgamation 3.53.0 supplied by /verif) and the file system are trusted; interleavings inside SQLite/cgo are not explored (operations are issued sequentially)")
	workers := runtime.GOMAXPROCS(0)
	parts := []struct {
		name  string
		ops   []c16Op
		depth int
		world []c16Op // executed on the primary before every history (operations like the others)
	}{
		// first: it is the cheapest family, and in the thorough tier the others end on the wall budget
		// (on a loaded machine the entity family alone uses all of it)
		{"deletions", c16DeletionOps(), deletionDepth, []c16Op{c16DeletionWorld()}},
		{"entities", c16EntityOps(), entityDepth, nil},
		{"mappings", c16MappingOps(), mappingDepth, nil},
		{"union", append(c16EntityOps(), c16MappingOps()...), mixedDepth, nil},
	}
	for _, p := range parts {
		ex := &c16Explorer{part: p.name, ops: append(append([]c16Op{}, p.ops...), p.world...), rep: rep, sigSeen: map[string][]string{}}
		for i := range p.world {
			ex.world = append(ex.world, len(p.ops)+i)
		}
		t0 := time.Now()
		st := mc.BFS(ex.run, mc.BFSOptions{NumOps: len(p.ops), MaxDepth: p.depth, Workers: workers, NoDedup: true, MaxViolations: 60})
		for i, smp := range st.Samples {
			if i < 3 {
				rep.Sample(map[string]any{"part": p.name, "history": ex.names(smp)})
			}
		}
		rep.MergeBFS(p.name, st)
		rep.Bounds[p.name+"_alphabet"] = ex.names(vmetaSeq(len(p.ops)))
		if len(ex.world) > 0 {
			rep.Bounds[p.name+"_world"] = ex.names(ex.world)
		}
		if n := ex.moreViolations.Load(); n > 0 {
			rep.Parts[p.name+"_further_violating_histories_not_reconfirmed"] = n
		}
		t.Logf("C16 %s: alphabet=%d depth=%d states=%d transitions=%d perLevel=%v violations=%d (+%d not re-confirmed) caps=%v wall=%.1fs", p.name, len(p.ops), st.Depth, st.States, st.Transitions, st.PerLevel, len(st.Violations), ex.moreViolations.Load(), st.Caps, time.Since(t0).Seconds())
	}
	if err := rep.Write(); err != nil {
		t.Fatal(err)
	}
}
