//go:build verif

package metadata

// C19 — tag mappings form a stable bijection and creation obeys flood limits.
//
// State-hashing BFS (mc.BFS) over histories of get-or-create / put / delete / reset-flood
// requests and clock movements on the REAL stack RawGetMappingByValue / RawPutMapping /
// RawResetFlood / ResetFlood2 (rpc_handler.go) -> DBV2 (dbv2.go, binlog_event.go) -> sqlite
// engine -> SQLite + fsbinlog, with the budgets shrunk through Options so that the limits bind
// after two creations. Every answer is checked against a reference written here: a bijection
// (map both ways + the set of deleted ids) and the flood arithmetic exactly as the property
// words it (see c19Flood). The restart family puts restarts (rebuild from the binlog on a fresh file,
// reopen of the same file, start from a snapshot + binlog tail) into the alphabet: the reference is
// not told about them, so every clause has to hold across the mix of live-written and replayed rows.

import (
	"context"
	"fmt"
	"os"
	"runtime"
	"sort"
	"strconv"
	"strings"
	"testing"
	"time"

	"github.com/VKCOM/statshouse/internal/data_model/gen2/tlmetadata"
	"github.com/VKCOM/statshouse/internal/sqlite"
	"github.com/VKCOM/statshouse/internal/verif/mc"
	"github.com/VKCOM/tl/pkg/rpc"
)

const (
	c19T0      = int64(1_700_000_040) // a step boundary
	c19StepSec = 60
)

type c19Config struct {
	name                     string
	maxBudget, bonus, global int64
	phase                    int64 // the history starts this many seconds after a step boundary
}

// ---------- reference ----------

// c19Flood is the per-metric flood reference. The property: "once the global budget is
// exhausted, the number of new mappings a metric can create in ANY time span is at most its
// remaining budget (the maximum budget, or the value set by a flood reset) plus the per-step
// bonus times the number of elapsed steps". A family of "count in every span <= R + bonus*steps"
// constraints is exactly a token bucket of depth R refilled by bonus per step boundary, so the
// reference keeps, per metric, the number of creations still allowed right now:
//
//	allowed starts at MaxBudget (or at the reset value after a reset);
//	s elapsed step boundaries add bonus*s, but never lift it above MaxBudget (a span that starts
//	  later has again only the maximum budget); a reset value above MaxBudget is kept as is;
//	a counted creation needs allowed >= 1 and takes 1.
//
// "Once the global budget is exhausted": a creation is counted if GlobalBudget is 0, or if at
// least GlobalBudget+1 creations happened before it (the implementation bypasses the limit while
// the last created id is in 1..GlobalBudget; the last created id is at least the number of
// creations, so everything this reference counts is counted by the implementation too — the
// reference is never the stricter one).
type c19Flood struct {
	allowed int64
	stepIdx int64 // step index of the instant `allowed` refers to
	known   bool
	// lowResetOffBoundary: the budget in force was set by a reset to a value below MaxBudget issued at
	// an instant that is not a step boundary (only used to name the violation, see c19GetOrCreate)
	lowResetOffBoundary bool
}

type c19Model struct {
	cfg       c19Config
	byKey     map[string]int32
	byID      map[int32]string
	deleted   map[int32]bool // ids removed by an explicit delete
	creations int64
	flood     map[string]*c19Flood
}

func c19NewModel(cfg c19Config) *c19Model {
	return &c19Model{cfg: cfg, byKey: map[string]int32{}, byID: map[int32]string{}, deleted: map[int32]bool{}, flood: map[string]*c19Flood{}}
}

func c19StepIdx(now int64) int64 { return now / c19StepSec }

// bucket returns the metric's bucket brought forward to `now`.
func (m *c19Model) bucket(metric string, now int64) *c19Flood {
	f := m.flood[metric]
	if f == nil {
		f = &c19Flood{}
		m.flood[metric] = f
	}
	idx := c19StepIdx(now)
	if !f.known {
		f.allowed, f.stepIdx, f.known = m.cfg.maxBudget, idx, true
		return f
	}
	if s := idx - f.stepIdx; s > 0 {
		if f.allowed < m.cfg.maxBudget {
			f.allowed = min(m.cfg.maxBudget, f.allowed+m.cfg.bonus*s)
		}
		f.stepIdx = idx
	}
	return f
}

func (m *c19Model) listing() []string {
	ids := make([]int, 0, len(m.byID))
	for id := range m.byID {
		ids = append(ids, int(id))
	}
	sort.Ints(ids)
	out := make([]string, len(ids))
	for i, id := range ids {
		out[i] = fmt.Sprintf("%d -> %q", id, m.byID[int32(id)])
	}
	return out
}

// ---------- real instance ----------

type c19Inst struct {
	dir   string
	db    *DBV2
	h     *Handler
	clock *vmetaClock
	// restart family
	opt    Options
	dbFile string   // the SQLite file the running instance is opened on
	gen    int      // files created so far (fresh files and snapshots get a new name each)
	snap   *c19Snap // the snapshot taken by the last snapshot operation, until a restart consumes it
}

// c19Snap is a snapshot of the database file (Engine.Backup) and, for the state key, what it holds.
type c19Snap struct {
	file  string
	lines []string // mapping listing
	seq   int64
	flood []c19FloodRow
}

type c19FloodRow struct {
	name, class string // class: SQLite storage class of the key
	t, c        int64
}

func c19Open(cfg c19Config) (*c19Inst, error) {
	dir, err := vmetaScratch("c19")
	if err != nil {
		return nil, err
	}
	clock := &vmetaClock{}
	clock.Set(c19T0 + cfg.phase)
	opt := Options{MaxBudget: cfg.maxBudget, BudgetBonus: cfg.bonus, StepSec: c19StepSec, GlobalBudget: cfg.global, Now: clock.Now}
	db, err := vmetaOpen(dir, "db", true, opt)
	if err != nil {
		os.RemoveAll(dir)
		return nil, err
	}
	return &c19Inst{dir: dir, db: db, h: c19Handler(db), clock: clock, opt: opt, dbFile: "db"}, nil
}

func c19Handler(db *DBV2) *Handler {
	return &Handler{ // as NewHandler builds it, minus the process-global statshouse measurement callback
		db:                db,
		getJournalClients: &GetJournalClients{clients: map[rpc.LongpollHandle]tlmetadata.GetJournalnew{}},
		getMappingClients: &GetMappingClients{clients: map[rpc.LongpollHandle]tlmetadata.GetNewMappings{}},
		log:               func(s string, args ...interface{}) {},
	}
}

func (x *c19Inst) close() {
	if x.db != nil {
		_ = vmetaClose(x.db)
	}
	os.RemoveAll(x.dir)
}

// restartOn ends the running instance the orderly way (Close commits the open SQLite transaction and
// shuts the binlog down) and starts a new one on dbFile with the same binlog directory: OpenDB replays
// the binlog from the offset stored in that file (a file that does not exist yet: from the beginning).
// The clock is the outside world's and keeps its value; the in-memory state of DBV2 is that of a new
// process.
func (x *c19Inst) restartOn(dbFile string) error {
	db := x.db
	x.db = nil
	if err := vmetaClose(db); err != nil {
		return fmt.Errorf("close: %w", err)
	}
	db, err := vmetaOpen(x.dir, dbFile, false, x.opt)
	if err != nil {
		return fmt.Errorf("open %s: %w", dbFile, err)
	}
	x.db, x.h, x.dbFile = db, c19Handler(db), dbFile
	return nil
}

// dbState reads what no API shows: the AUTOINCREMENT counter and the flood rows, with the storage class
// of the key (SQLite never equates a TEXT with a BLOB value, so two rows "m1" can exist side by side
// and only one of them is the one a given statement finds).
func (x *c19Inst) dbState() (seq int64, flood []c19FloodRow, err error) {
	err = x.db.eng.Do(context.Background(), "c19_key", func(conn sqlite.Conn, cache []byte) ([]byte, error) {
		rows := conn.Query("c19_seq", "SELECT seq FROM sqlite_sequence WHERE name = 'mappings'")
		if rows.Next() {
			seq, _ = rows.ColumnInt64(0)
		}
		if rows.Error() != nil {
			return cache, rows.Error()
		}
		rows = conn.Query("c19_flood", "SELECT metric_name, typeof(metric_name), last_time_update, count_free FROM flood_limits ORDER BY 2, 1")
		for rows.Next() {
			var r c19FloodRow
			r.name, _ = rows.ColumnBlobString(0)
			r.class, _ = rows.ColumnBlobString(1)
			r.t, _ = rows.ColumnInt64(2)
			r.c, _ = rows.ColumnInt64(3)
			flood = append(flood, r)
		}
		return cache, rows.Error()
	})
	return
}

// c19FloodKey renders flood rows for the state key: times relative to the current step boundary.
func c19FloodKey(rows []c19FloodRow, now int64) []string {
	out := make([]string, len(rows))
	for i, r := range rows {
		out[i] = fmt.Sprintf("%s/%s:%d:%d", r.name, r.class, now-now%c19StepSec-r.t, r.c)
	}
	return out
}

func (x *c19Inst) getOrCreate(metric, key string) (tlmetadata.GetMappingResponse, error) {
	args := tlmetadata.GetMapping{Metric: metric, Key: key}
	args.SetCreateIfAbsent(true)
	hctx := &rpc.HandlerContext{Request: args.WriteTL1(nil)}
	var resp tlmetadata.GetMappingResponse
	if _, err := x.h.RawGetMappingByValue(context.Background(), hctx); err != nil {
		return resp, err
	}
	_, err := args.ReadResultTL1(hctx.Response, &resp)
	return resp, err
}

func (x *c19Inst) put(keys []string, ids []int32) error {
	args := tlmetadata.PutMapping{Keys: keys, Value: ids}
	hctx := &rpc.HandlerContext{Request: args.WriteTL1(nil)}
	_, err := x.h.RawPutMapping(context.Background(), hctx)
	return err
}

func (x *c19Inst) resetFlood(metric string, n int32) error {
	if n <= 0 {
		args := tlmetadata.ResetFlood{Metric: metric}
		hctx := &rpc.HandlerContext{Request: args.WriteTL1(nil)}
		_, err := x.h.RawResetFlood(context.Background(), hctx)
		return err
	}
	args := tlmetadata.ResetFlood2{Metric: metric}
	args.SetValue(n)
	_, _, err := x.h.ResetFlood2(context.Background(), args)
	return err
}

// realListing reads all mappings (GetNewMappings from 0) and checks the listing itself is a bijection.
func (x *c19Inst) realListing() (lines []string, byID map[int32]string, bad string) {
	maps, maxID, err := x.db.GetNewMappings(context.Background(), 0, 40000, nil)
	if err != nil {
		return nil, nil, "GetNewMappings: " + err.Error()
	}
	byID = map[int32]string{}
	keys := map[string]int32{}
	var top int32
	for _, p := range maps {
		if p.Value <= 0 {
			return nil, nil, fmt.Sprintf("non-positive id %d for %q", p.Value, p.Str)
		}
		if o, ok := byID[p.Value]; ok {
			return nil, nil, fmt.Sprintf("id %d listed for %q and %q", p.Value, o, p.Str)
		}
		if o, ok := keys[p.Str]; ok {
			return nil, nil, fmt.Sprintf("string %q listed with ids %d and %d", p.Str, o, p.Value)
		}
		byID[p.Value], keys[p.Str] = p.Str, p.Value
		lines = append(lines, fmt.Sprintf("%d -> %q", p.Value, p.Str))
		top = max(top, p.Value)
	}
	if len(maps) > 0 && maxID != top {
		return nil, nil, fmt.Sprintf("GetNewMappings reports max id %d, greatest listed id is %d", maxID, top)
	}
	return lines, byID, ""
}

// ---------- operations ----------

type c19Op struct {
	name string
	do   func(x *c19Inst, m *c19Model) (sig, desc string, nontrivial bool)
	// enabled (optional): whether the operation can be issued in the state reached
	enabled func(x *c19Inst) bool
	restart bool // the operation replaces the running instance
}

func c19GetOrCreate(metric, key string) c19Op {
	return c19Op{name: fmt.Sprintf("getOrCreate(%s,%s)", metric, key), do: func(x *c19Inst, m *c19Model) (string, string, bool) {
		resp, err := x.getOrCreate(metric, key)
		if err != nil {
			return "C19:unexpected-error", fmt.Sprintf("getOrCreate(%s,%s): %v", metric, key, err), false
		}
		now := x.clock.Get()
		if id, ok := m.byKey[key]; ok {
			// "repeated get-or-create calls return the same id"
			g, isGet := resp.AsGetMappingResponse()
			if !isGet || g.Id != id {
				return "C19:existing-mapping-not-returned", fmt.Sprintf("getOrCreate(%s,%s): %q is mapped to %d, answer %s", metric, key, key, id, c19Resp(resp)), true
			}
			return "", "", true
		}
		if resp.IsFloodLimitError() {
			return "", "", true // refusing is always within the stated bound
		}
		c, ok := resp.AsCreated()
		if !ok {
			return "C19:unmapped-key-answered", fmt.Sprintf("getOrCreate(%s,%s): %q has no mapping, answer %s", metric, key, key, c19Resp(resp)), false
		}
		switch {
		case c.Id <= 0:
			return "C19:non-positive-id", fmt.Sprintf("getOrCreate(%s,%s) created id %d", metric, key, c.Id), false
		case m.byID[c.Id] != "":
			return "C19:id-mapped-twice", fmt.Sprintf("getOrCreate(%s,%s) created id %d which belongs to %q", metric, key, c.Id, m.byID[c.Id]), true
		case m.deleted[c.Id]:
			return "C19:deleted-id-reissued", fmt.Sprintf("getOrCreate(%s,%s) created id %d which was deleted before", metric, key, c.Id), true
		}
		m.byKey[key], m.byID[c.Id] = c.Id, key
		counted := m.cfg.global == 0 || m.creations >= m.cfg.global+1
		m.creations++
		if counted {
			f := m.bucket(metric, now)
			if f.allowed < 1 {
				if f.lowResetOffBoundary {
					return "C19:reset-below-max-off-step-boundary-grants-full-budget", fmt.Sprintf("getOrCreate(%s,%s) created id %d although the budget of %s, set by a flood reset to a value below the maximum (%d) at an instant inside a step, is used up and no step boundary has passed since", metric, key, c.Id, metric, m.cfg.maxBudget), true
				}
				return "C19:created-beyond-flood-limit", fmt.Sprintf("getOrCreate(%s,%s) created id %d although metric %s has no budget left (max %d, bonus %d per %d s step; its budget was used up and no step boundary has passed since)", metric, key, c.Id, metric, m.cfg.maxBudget, m.cfg.bonus, c19StepSec), true
			}
			f.allowed--
		} else if f := m.flood[metric]; f != nil && f.known && f.allowed < m.cfg.maxBudget {
			// A creation before the global budget is exhausted is outside the clause. The implementation
			// rewrites the metric's row to the maximum budget on that path (also over a lower reset value);
			// "the maximum budget" is a remaining budget the clause allows, so the reference follows.
			f = m.bucket(metric, now)
			f.allowed, f.lowResetOffBoundary = m.cfg.maxBudget, false
		}
		return "", "", false
	}}
}

func c19Resp(r tlmetadata.GetMappingResponse) string {
	if g, ok := r.AsGetMappingResponse(); ok {
		return fmt.Sprintf("id %d", g.Id)
	}
	if c, ok := r.AsCreated(); ok {
		return fmt.Sprintf("created id %d", c.Id)
	}
	if r.IsFloodLimitError() {
		return "flood-limit error"
	}
	return "key-not-exists"
}

// c19Put: the explicit admin overwrite. The property does not define it beyond the bijection, so the
// reference only demands that pairs it does not name stay as they are and adopts the rest.
func c19Put(keys []string, ids []int32) c19Op {
	return c19Op{name: fmt.Sprintf("put(%v,%v)", keys, ids), do: func(x *c19Inst, m *c19Model) (string, string, bool) {
		if err := x.put(keys, ids); err != nil {
			return "C19:unexpected-error", fmt.Sprintf("put(%v,%v): %v", keys, ids, err), false
		}
		_, real, bad := x.realListing()
		if bad != "" {
			return "C19:not-a-bijection", fmt.Sprintf("after put(%v,%v): %s", keys, ids, bad), true
		}
		named := func(k string, id int32) bool {
			for i := range keys {
				if keys[i] == k || ids[i] == id {
					return true
				}
			}
			return false
		}
		collide := false
		for id, k := range m.byID {
			if named(k, id) {
				collide = true
				continue
			}
			if real[id] != k {
				return "C19:mapping-changed-without-delete", fmt.Sprintf("put(%v,%v) changed the unrelated mapping %d -> %q (now %q)", keys, ids, id, k, real[id]), true
			}
		}
		for id, k := range real {
			if !named(k, id) && m.byID[id] != k {
				return "C19:mapping-changed-without-delete", fmt.Sprintf("put(%v,%v) made the unrelated mapping %d -> %q appear", keys, ids, id, k), true
			}
		}
		m.byKey, m.byID = map[string]int32{}, map[int32]string{}
		for id, k := range real {
			m.byKey[k], m.byID[id] = id, k
		}
		return "", "", collide
	}}
}

func c19Delete(ids []int32) c19Op {
	return c19Op{name: fmt.Sprintf("delete(%v)", ids), do: func(x *c19Inst, m *c19Model) (string, string, bool) {
		if _, err := x.db.deleteMappingsByIdBatched(context.Background(), ids); err != nil {
			return "C19:unexpected-error", fmt.Sprintf("delete(%v): %v", ids, err), false
		}
		hit := false
		for _, id := range ids {
			if k, ok := m.byID[id]; ok {
				delete(m.byID, id)
				delete(m.byKey, k)
				m.deleted[id] = true
				hit = true
			}
		}
		return "", "", hit
	}}
}

func c19Reset(metric string, n int32) c19Op {
	return c19Op{name: fmt.Sprintf("resetFlood(%s,%d)", metric, n), do: func(x *c19Inst, m *c19Model) (string, string, bool) {
		if err := x.resetFlood(metric, n); err != nil {
			return "C19:unexpected-error", fmt.Sprintf("resetFlood(%s,%d): %v", metric, n, err), false
		}
		f := m.bucket(metric, x.clock.Get())
		f.allowed = int64(n) // "the value set by a flood reset"
		if n <= 0 {
			f.allowed = m.cfg.maxBudget // reset to the default: "the maximum budget"
		}
		f.lowResetOffBoundary = n > 0 && int64(n) < m.cfg.maxBudget && x.clock.Get()%c19StepSec != 0
		return "", "", true
	}}
}

func c19Clock(sec int64) c19Op {
	return c19Op{name: fmt.Sprintf("clock+%ds", sec), do: func(x *c19Inst, m *c19Model) (string, string, bool) {
		x.clock.Add(sec)
		return "", "", false
	}}
}

// The full alphabet, and two sub-alphabets that go deeper on one clause each (the full alphabet
// multiplies the state space by ~8 per level, a SQLite-backed transition costs ~15 ms CPU).
func c19Ops() []c19Op {
	return append(append(c19BijectionOps(), c19FloodOnlyOps()...), c19Reset("m1", 0), c19Clock(20))
}

// c19BijectionOps: creation, the same key under another metric, explicit overwrite and deletion.
func c19BijectionOps() []c19Op {
	return []c19Op{
		c19GetOrCreate("m1", "k1"),
		c19GetOrCreate("m1", "k2"),
		c19GetOrCreate("m1", "k3"),
		c19GetOrCreate("m2", "k1"),         // the same string asked for another metric
		c19Put([]string{"k1"}, []int32{5}), // gives k1 a new id / creates it with an id ahead of the counter
		c19Put([]string{"k3"}, []int32{1}), // takes id 1 (possibly from another string)
		c19Delete([]int32{1}),
		c19Delete([]int32{2, 5}),
	}
}

// c19FloodOnlyOps: what the bijection alphabet lacks for the flood clause (a 4th key, a second
// metric's own key, resets below and above the maximum, whole steps).
func c19FloodOnlyOps() []c19Op {
	return []c19Op{
		c19GetOrCreate("m1", "k4"),
		c19GetOrCreate("m2", "k5"),
		c19Reset("m1", 1), // below the maximum
		c19Reset("m1", 3), // above the maximum
		c19Clock(c19StepSec),
		c19Clock(3 * c19StepSec),
	}
}

// c19FloodOps: creations for two metrics, resets, clock.
func c19FloodOps() []c19Op {
	return append([]c19Op{
		c19GetOrCreate("m1", "k1"),
		c19GetOrCreate("m1", "k2"),
		c19GetOrCreate("m1", "k3"),
	}, c19FloodOnlyOps()...)
}

// ---------- restart family ----------
//
// A restart replaces the running instance by a new one over the same binlog. The statement's clauses
// speak about the service's answers over time, not about one process: the bijection and the token
// bucket of the reference are untouched by a restart (no clock movement, no request), so the
// reference does nothing and the history simply continues on the new instance. Three ways of getting
// the new instance's SQLite state, i.e. every mix of "rows written by the live path" and "rows
// written by the binlog replay" the service can be in:
//
//	restart(fresh file):  everything is rebuilt by replaying the whole binlog (new replica, start
//	                      without a snapshot);
//	restart(same file):   nothing is replayed (Close committed everything);
//	snapshot + restart(from snapshot): the state at the snapshot was written by the live path (or by an
//	                      earlier replay), the requests after it are replayed on top (start from a
//	                      backup; also the shape of a crash before the periodic SQLite commit).

func c19RestartErr(hist string, err error) (string, string, bool) {
	return "C19:restart-fails", fmt.Sprintf("%s: %v", hist, err), true
}

func c19RestartFresh() c19Op {
	return c19Op{name: "restart(fresh file, whole binlog replayed)", restart: true, do: func(x *c19Inst, m *c19Model) (string, string, bool) {
		x.gen++
		if err := x.restartOn(fmt.Sprintf("db_r%d", x.gen)); err != nil {
			return c19RestartErr("restart on a fresh file", err)
		}
		return "", "", len(m.flood) > 0
	}}
}

func c19RestartSame() c19Op {
	return c19Op{name: "restart(same file)", restart: true, do: func(x *c19Inst, m *c19Model) (string, string, bool) {
		if err := x.restartOn(x.dbFile); err != nil {
			return c19RestartErr("restart on the same file", err)
		}
		return "", "", len(m.flood) > 0
	}}
}

// c19Snapshot takes a snapshot the way the service does (forced commit + Engine.Backup). One snapshot is
// kept: a new one replaces the old one, a restart from it consumes it.
func c19Snapshot() c19Op {
	return c19Op{name: "snapshot", do: func(x *c19Inst, m *c19Model) (string, string, bool) {
		x.gen++
		file, err := vmetaSnapshot(x.db, x.dir, fmt.Sprintf("snap%d_", x.gen))
		if err != nil {
			return "C19:unexpected-error", fmt.Sprintf("snapshot: %v", err), false
		}
		sn := &c19Snap{file: file}
		var bad string
		if sn.lines, _, bad = x.realListing(); bad != "" {
			return "C19:not-a-bijection", bad, false
		}
		if sn.seq, sn.flood, err = x.dbState(); err != nil {
			return "C19:unexpected-error", fmt.Sprintf("snapshot: %v", err), false
		}
		x.snap = sn
		return "", "", false
	}}
}

func c19RestartFromSnapshot() c19Op {
	return c19Op{name: "restart(from the snapshot, binlog tail replayed)", restart: true,
		enabled: func(x *c19Inst) bool { return x.snap != nil },
		do: func(x *c19Inst, m *c19Model) (string, string, bool) {
			file := x.snap.file
			x.snap = nil
			if err := x.restartOn(file); err != nil {
				return c19RestartErr("restart from the snapshot", err)
			}
			return "", "", len(m.flood) > 0
		}}
}

// c19RestartOps: creations for two metrics and whole steps (resets are left out: ResetFlood writes no
// binlog event, so a rebuilt instance does not have them - that is C16's listed finding
// C16:reset-flood-not-replayed, not this family's subject), plus the restart operations.
func c19RestartOps() []c19Op {
	return []c19Op{
		c19GetOrCreate("m1", "k1"),
		c19GetOrCreate("m1", "k2"),
		c19GetOrCreate("m1", "k3"),
		c19GetOrCreate("m2", "k5"),
		c19Clock(c19StepSec),
		c19RestartFresh(),
		c19RestartSame(),
		c19Snapshot(),
		c19RestartFromSnapshot(),
	}
}

// c19RestartBijectionOps: the bijection clauses across restarts (ids stay, deleted ids stay retired,
// explicit overwrites stay) - creation, overwrite and deletion with the rebuilding restarts.
func c19RestartBijectionOps() []c19Op {
	return []c19Op{
		c19GetOrCreate("m1", "k1"),
		c19GetOrCreate("m1", "k2"),
		c19GetOrCreate("m2", "k1"),
		c19Put([]string{"k1"}, []int32{5}),
		c19Put([]string{"k3"}, []int32{1}),
		c19Delete([]int32{1}),
		c19Delete([]int32{2, 5}),
		c19RestartFresh(),
		c19Snapshot(),
		c19RestartFromSnapshot(),
	}
}

type c19Explorer struct {
	cfg c19Config
	ops []c19Op
	rep *mc.Report
}

func (ex *c19Explorer) names(h []int) []string {
	out := make([]string, len(h))
	for i, o := range h {
		out[i] = ex.ops[o].name
	}
	return out
}

var c19ProbeKeys = []string{"k1", "k2", "k3", "k4", "k5"}

func (ex *c19Explorer) run(hist []int) mc.StepResult {
	x, err := c19Open(ex.cfg)
	if err != nil {
		ex.rep.Infra(fmt.Sprintf("history %v: %v", ex.names(hist), err))
		return mc.StepResult{Applicable: false}
	}
	defer x.close()
	m := c19NewModel(ex.cfg)
	viol := func(sig, desc string) mc.StepResult {
		return mc.StepResult{Applicable: true, Key: "violation", Verdict: mc.Verdict{Sig: sig, Violation: fmt.Sprintf("[%s] history %v: %s", ex.cfg.name, ex.names(hist), desc),
			Detail: map[string]any{"config": ex.cfg.name, "history": ex.names(hist), "ops": hist}}}
	}
	nontrivial := false
	restarted := false
	for i, o := range hist {
		if en := ex.ops[o].enabled; en != nil && !en(x) {
			if i != len(hist)-1 {
				ex.rep.Infra(fmt.Sprintf("history %v: operation %d of an explored prefix is not enabled (nondeterminism)", ex.names(hist), i+1))
			}
			return mc.StepResult{Applicable: false}
		}
		sig, desc, nt := ex.ops[o].do(x, m)
		if sig == "C19:restart-fails" && !strings.Contains(desc, "can't apply binlog event") && !strings.Contains(desc, "constraint") {
			// not a replay failure (descriptor limit, disk full, ...): infrastructure, never a verdict
			ex.rep.Infra(fmt.Sprintf("history %v: %s", ex.names(hist), desc))
			return mc.StepResult{Applicable: false}
		}
		if sig == "C19:created-beyond-flood-limit" && restarted {
			sig, desc = sig+"-after-restart", desc+"; the instance was restarted earlier in the history (a restart neither moves the clock nor grants budget)"
		}
		if sig != "" {
			return viol(sig, desc)
		}
		restarted = restarted || ex.ops[o].restart
		if i == len(hist)-1 {
			nontrivial = nt
		}
	}
	// the whole mapping table, both directions, against the reference
	lines, real, bad := x.realListing()
	if bad != "" {
		return viol("C19:not-a-bijection", bad)
	}
	if want := m.listing(); strings.Join(lines, "\n") != strings.Join(want, "\n") {
		return viol("C19:mapping-changed-without-delete", fmt.Sprintf("mappings are %v, the requests so far define %v", lines, want))
	}
	ctx := context.Background()
	for _, k := range c19ProbeKeys {
		id, notExists, err := x.db.GetMappingByValue(ctx, k)
		if err != nil {
			return viol("C19:unexpected-error", err.Error())
		}
		if want, ok := m.byKey[k]; ok != !notExists || (ok && want != id) {
			return viol("C19:lookup-by-value-differs", fmt.Sprintf("GetMappingByValue(%q) = (%d, absent=%v), mapped to %d (present=%v)", k, id, notExists, want, ok))
		}
	}
	for id := int32(1); id <= 9; id++ {
		k, ok, err := x.db.GetMappingByID(ctx, id)
		if err != nil {
			return viol("C19:unexpected-error", err.Error())
		}
		if want, wok := real[id]; wok != ok || (ok && want != k) {
			return viol("C19:lookup-by-id-differs", fmt.Sprintf("GetMappingByID(%d) = (%q, %v), listing has (%q, %v)", id, k, ok, want, wok))
		}
	}
	// State key. Everything a later request can depend on: the mapping table and its AUTOINCREMENT counter,
	// the flood rows, the engine's in-memory last created id, the clock's position inside its step; plus the
	// reference's own memory (deleted ids, creations counted towards the global budget, allowed creations
	// per metric). Absolute time is removed (times are kept relative to the current step boundary):
	// calcBudget/roundTime only use differences and now%step.
	now := x.clock.Get()
	var sb strings.Builder
	sb.WriteString(strings.Join(lines, ";"))
	seq, floodRows, err := x.dbState()
	if err != nil {
		ex.rep.Infra(fmt.Sprintf("history %v: key query: %v", ex.names(hist), err))
		return mc.StepResult{Applicable: false}
	}
	flood := c19FloodKey(floodRows, now)
	fmt.Fprintf(&sb, "|seq=%d|flood=%v|last=%d|phase=%d|created=%d|deleted=", seq, flood, x.db.lastMappingIDToInsert, now%c19StepSec, min(m.creations, ex.cfg.global+1))
	del := make([]int, 0, len(m.deleted))
	for id := range m.deleted {
		del = append(del, int(id))
	}
	sort.Ints(del)
	fmt.Fprintf(&sb, "%v|allowed=", del)
	for _, metric := range []string{"m1", "m2"} {
		if f := m.flood[metric]; f != nil && f.known {
			b := m.bucket(metric, now) // bring forward: the key holds what is allowed now
			fmt.Fprintf(&sb, "%s:%d,", metric, b.allowed)
		} else {
			fmt.Fprintf(&sb, "%s:-,", metric)
		}
	}
	if sn := x.snap; sn != nil { // what a later restart from the snapshot starts from
		fmt.Fprintf(&sb, "|snap=%s|seq=%d|flood=%v", strings.Join(sn.lines, ";"), sn.seq, c19FloodKey(sn.flood, now))
	}
	key := sb.String()
	ex.rep.Outcome(ex.cfg.name + key)
	return mc.StepResult{Applicable: true, Key: key, Nontrivial: nontrivial}
}

func TestVerifC19(t *testing.T) {
	rep := mc.NewReport("C19")
	capDepth := 99
	if v, err := strconv.Atoi(os.Getenv("VERIF_C19_MAXDEPTH")); err == nil && v > 0 { // debugging aid only
		capDepth = v
		rep.Cap(fmt.Sprintf("VERIF_C19_MAXDEPTH=%d", v))
	}
	max2g0 := c19Config{"max2-bonus1-global0", 2, 1, 0, 0}
	max2g1 := c19Config{"max2-bonus1-global1", 2, 1, 1, 0}
	max1g0 := c19Config{"max1-bonus1-global0", 1, 1, 0, 0}
	max2g0off := c19Config{"max2-bonus1-global0-start20s", 2, 1, 0, 20} // every instant of the history lies inside a step
	roomy := c19Config{"max1000-bonus10-global0", 1000, 10, 0, 0}
	parts := []struct {
		name  string
		cfg   c19Config
		ops   []c19Op
		depth int
	}{
		{"full", max2g0, c19Ops(), mc.Pick(3, 4)},
		{"full", max2g1, c19Ops(), mc.Pick(3, 4)},
		{"flood", max2g0, c19FloodOps(), mc.Pick(5, 7)},
		{"flood", max2g1, c19FloodOps(), mc.Pick(4, 6)},
		{"flood", max1g0, c19FloodOps(), mc.Pick(4, 6)},
		{"flood", max2g0off, c19FloodOps(), mc.Pick(4, 5)},
		{"bijection", roomy, c19BijectionOps(), mc.Pick(5, 7)},
		{"restart", max2g0, c19RestartOps(), mc.Pick(4, 7)},
		{"restart", max1g0, c19RestartOps(), mc.Pick(4, 6)},
		{"restart", max2g1, c19RestartOps(), mc.Pick(0, 6)}, // thorough only
		{"restart-bijection", roomy, c19RestartBijectionOps(), mc.Pick(4, 6)},
	}
	if only := os.Getenv("VERIF_C19_ONLY"); only != "" { // debugging aid only
		rep.Cap("VERIF_C19_ONLY=" + only)
		kept := parts[:0]
		for _, p := range parts {
			if strings.HasPrefix(p.name, only) {
				kept = append(kept, p)
			}
		}
		parts = kept
	}
	rep.Rule = "state-hashing BFS over every history up to the depth bound of: the full alphabet {getOrCreate (m1,k1..k4) (m2,k1) (m2,k5), put k1->5 / k3->1, delete [1] / [2,5], resetFlood m1 to default / 1 / 3, clock +1 step / +3 steps / +20 s}; the flood sub-alphabet {getOrCreate (m1,k1..k4) (m2,k5), resetFlood m1 to 1 / 3, clock +1 / +3 steps} and the bijection sub-alphabet {getOrCreate (m1,k1..k3) (m2,k1), put x2, delete x2}, each deeper; budget configurations StepSec 60 with MaxBudget 2 bonus 1 GlobalBudget 0 / 1, MaxBudget 1 bonus 1, and a roomy one for the bijection part; the restart family {getOrCreate (m1,k1..k3) (m2,k5), clock +1 step, restart on a fresh SQLite file (whole binlog replayed), restart on the same file, snapshot, restart from the snapshot (binlog tail replayed)} and {getOrCreate (m1,k1) (m1,k2) (m2,k1), put x2, delete x2, restart on a fresh file, snapshot, restart from the snapshot}: the restart is an operation inside the history, the reference is not told about it. Non-trivial: the last request meets existing state (a key that is already mapped, an id or key that a put/delete hits, a creation refused or counted against a budget, a reset, a restart of an instance that holds flood state)"
	rep.Assume("requests are issued sequentially (each is one atomic engine transaction); restarts are orderly (Close, then OpenDB on a fresh file / the same file / a snapshot taken by Engine.Backup) and happen between requests; a kill between binlog write and the periodic SQLite commit is represented by its state shape (snapshot + replayed tail) only; resets are not combined with restarts (ResetFlood writes no binlog event: listed finding C16:reset-flood-not-replayed)")
	rep.Assume("not asserted, because the property only bounds creation from above: that a request within the budget is granted (the reference accepts a flood-limit answer for any unmapped key); what put does to the pairs it names (only that the result is a bijection and unrelated pairs are untouched); whether an id displaced by put may be issued again")
	rep.Assume("SQLite (amalgamation 3.53.0 supplied by /verif) is trusted")
	for _, p := range parts {
		if p.depth == 0 {
			continue // part of the other tier only
		}
		p.depth = min(p.depth, capDepth)
		name := p.name + "/" + p.cfg.name
		ex := &c19Explorer{cfg: p.cfg, ops: p.ops, rep: rep}
		t0 := time.Now()
		st := mc.BFS(ex.run, mc.BFSOptions{NumOps: len(p.ops), MaxDepth: p.depth, Workers: runtime.GOMAXPROCS(0), MaxViolations: 40})
		for i, smp := range st.Samples {
			if i < 1 {
				rep.Sample(map[string]any{"part": name, "history": ex.names(smp)})
			}
		}
		rep.MergeBFS(name, st)
		rep.Bounds["depth:"+name] = p.depth
		rep.Bounds["alphabet:"+p.name] = ex.names(vmetaSeq(len(p.ops)))
		t.Logf("C19 %s: ops=%d depth=%d states=%d transitions=%d perLevel=%v violations=%d caps=%v wall=%.1fs", name, len(p.ops), st.Depth, st.States, st.Transitions, st.PerLevel, len(st.Violations), st.Caps, time.Since(t0).Seconds())
	}
	if err := rep.Write(); err != nil {
		t.Fatal(err)
	}
}
