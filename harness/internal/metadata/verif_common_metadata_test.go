//go:build verif

package metadata

// Shared helpers of the /verif harnesses of package internal/metadata (C15, C16, C19):
// opening a real DBV2 (real sqlite engine + real fsbinlog) on a scratch directory with
// an injected clock, and dumping its observable state through the package's own read
// API. Every identifier is prefixed "vmeta".

import (
	"context"
	"fmt"
	"io"
	"log"
	"os"
	"path/filepath"
	"runtime"
	"runtime/debug"
	"sort"
	"strings"
	"sync"
	"sync/atomic"
	"time"

	"github.com/VKCOM/statshouse/internal/data_model/gen2/tlmetadata"
	"github.com/VKCOM/statshouse/internal/sqlite"
	"github.com/VKCOM/statshouse/internal/vkgo/binlog/fsbinlog"
)

type vmetaSilent struct{}

func (vmetaSilent) Tracef(format string, args ...interface{}) {}
func (vmetaSilent) Debugf(format string, args ...interface{}) {}
func (vmetaSilent) Infof(format string, args ...interface{})  {}
func (vmetaSilent) Warnf(format string, args ...interface{})  {}
func (vmetaSilent) Errorf(format string, args ...interface{}) {}

var vmetaQuietOnce sync.Once

// vmetaQuiet silences the engine's log.Println chatter (thousands of opens per run).
func vmetaQuiet() {
	vmetaQuietOnce.Do(func() {
		log.SetOutput(io.Discard)
		// Every open allocates ~1 MB of short-lived fsbinlog buffers, and fsbinlog leaves its file
		// handles to the finalizers. With 16 workers opening engines as fast as they can the default
		// pacing lets the heap grow to tens of GB (first-touch page faults are very slow on this VM)
		// and the descriptor count run into the limit; collect early and often instead (the live
		// heap is tiny, a cycle costs a millisecond). No effect on the code under test.
		debug.SetGCPercent(20)
	})
}

const vmetaBinlogMagic = 3456

// vmetaClock is the injected clock (Options.Now): whole seconds, moved only by the harness.
type vmetaClock struct{ sec atomic.Int64 }

func (c *vmetaClock) Now() time.Time { return time.Unix(c.sec.Load(), 0) }
func (c *vmetaClock) Set(s int64)    { c.sec.Store(s) }
func (c *vmetaClock) Add(d int64)    { c.sec.Add(d) }
func (c *vmetaClock) Get() int64     { return c.sec.Load() }

var vmetaDirSeq atomic.Int64

// vmetaScratch returns a fresh private directory under $VERIF_SCRATCH.
func vmetaScratch(tag string) (string, error) {
	root := os.Getenv("VERIF_SCRATCH")
	if root == "" {
		root = filepath.Join(os.TempDir(), fmt.Sprintf("verif_meta_%d", os.Getpid()))
	}
	dir := filepath.Join(root, fmt.Sprintf("%s_%d", tag, vmetaDirSeq.Add(1)))
	if err := os.MkdirAll(dir, 0o755); err != nil {
		return "", err
	}
	return dir, nil
}

// vmetaOpen opens a DBV2 exactly as the service (and the package's own tests) do: a
// real fsbinlog with prefix dir/bl and the real OpenDB on dir/dbFile. createBinlog
// creates the empty binlog first (first open of a directory).
func vmetaOpen(dir, dbFile string, createBinlog bool, opt Options) (*DBV2, error) {
	vmetaQuiet()
	zero := time.Duration(0)
	bo := fsbinlog.Options{PrefixPath: dir + "/bl", Magic: vmetaBinlogMagic, WriteCallDelay: &zero}
	if createBinlog {
		if _, err := fsbinlog.CreateEmptyFsBinlog(bo); err != nil {
			return nil, fmt.Errorf("create binlog: %w", err)
		}
	}
	bl, err := fsbinlog.NewFsBinlog(vmetaSilent{}, bo)
	if err != nil {
		return nil, fmt.Errorf("open binlog: %w", err)
	}
	db, err := OpenDB(dir+"/"+dbFile, opt, bl)
	if err != nil {
		return nil, err
	}
	return db, nil
}

// vmetaClose closes the database (Close commits the open SQLite transaction and shuts the
// binlog down) and then ends the engine's commit-timer goroutine, which Close leaves running
// (see harness/internal/sqlite/verif_common_metadata_export.go).
func vmetaClose(db *DBV2) error {
	err := db.Close()
	db.eng.VerifMetaStopLoops()
	if vmetaCloses.Add(1)%128 == 0 {
		runtime.GC() // run the finalizers that close fsbinlog's file handles
	}
	return err
}

var vmetaCloses atomic.Int64

// vmetaSnapshot takes a snapshot of the running database the way the service does
// (EngineRpcHandler.Backup -> DBV2.backup -> Engine.Backup: VACUUM INTO through a second
// connection), after forcing the engine's periodic commit so that the snapshot contains
// everything executed so far. Returns the base name of the snapshot file inside dir.
func vmetaSnapshot(db *DBV2, dir, tag string) (string, error) {
	if err := db.eng.VerifMetaCommit(); err != nil {
		return "", fmt.Errorf("commit: %w", err)
	}
	p, err := db.backup(context.Background(), filepath.Join(dir, tag))
	if err != nil {
		return "", fmt.Errorf("backup: %w", err)
	}
	return filepath.Base(p), nil
}

// vmetaDump is the observable state of one instance, as sorted text lines per section
// (so that two dumps can be compared and diffed line by line).
type vmetaDump struct {
	Journal   []string // JournalEvents(0): one line per entity (latest version)
	History   []string // GetHistoryShort + GetEntityVersioned of every entity id in entity_history
	Mappings  []string // GetNewMappings(0) (id->string, ascending) and max id
	ByValue   []string // GetMappingByValue / GetMappingByID probes
	Flood     []string // rows of flood_limits (no read API exists: read through the engine)
	Bootstrap []string // GetBootstrap
}

func (d *vmetaDump) sections() [][2]any {
	return [][2]any{{"journal", d.Journal}, {"history", d.History}, {"mappings", d.Mappings}, {"byvalue", d.ByValue}, {"flood", d.Flood}, {"bootstrap", d.Bootstrap}}
}

func (d *vmetaDump) String() string {
	var sb strings.Builder
	for _, s := range d.sections() {
		sb.WriteString(s[0].(string))
		sb.WriteString(":\n")
		for _, l := range s[1].([]string) {
			sb.WriteString("  ")
			sb.WriteString(l)
			sb.WriteByte('\n')
		}
	}
	return sb.String()
}

// vmetaDiff returns the names of differing sections and the differing lines
// ("-" only in a, "+" only in b).
func vmetaDiff(a, b *vmetaDump) (sections []string, lines []string) {
	as, bs := a.sections(), b.sections()
	for i := range as {
		la, lb := as[i][1].([]string), bs[i][1].([]string)
		ma, mb := map[string]int{}, map[string]int{}
		for _, l := range la {
			ma[l]++
		}
		for _, l := range lb {
			mb[l]++
		}
		differs := false
		for _, l := range la {
			if mb[l] < ma[l] {
				lines = append(lines, "-"+as[i][0].(string)+": "+l)
				differs = true
			}
		}
		for _, l := range lb {
			if ma[l] < mb[l] {
				lines = append(lines, "+"+as[i][0].(string)+": "+l)
				differs = true
			}
		}
		if !differs && strings.Join(la, "\n") != strings.Join(lb, "\n") {
			differs = true // same multiset, different order (ordered sections)
			lines = append(lines, "~"+as[i][0].(string)+": order differs")
		}
		if differs {
			sections = append(sections, as[i][0].(string))
		}
	}
	return
}

func vmetaEventLine(e tlmetadata.Event) string {
	return fmt.Sprintf("id=%d type=%d ns=%d name=%q ver=%d upd=%d del=%d data=%q", e.Id, e.EventType, e.NamespaceId, e.Name, e.Version, e.UpdateTime, e.Unused, e.Data)
}

// vmetaJournalAll pages through JournalEvents with the given page size until a page is
// empty, exactly as a journal client does (from = last version seen).
func vmetaJournalAll(db *DBV2, page int64) ([]tlmetadata.Event, error) {
	var all []tlmetadata.Event
	from := int64(0)
	for i := 0; i < 10000; i++ {
		evs, err := db.JournalEvents(context.Background(), from, page)
		if err != nil {
			return nil, err
		}
		if len(evs) == 0 {
			return all, nil
		}
		all = append(all, evs...)
		from = evs[len(evs)-1].Version
	}
	return nil, fmt.Errorf("journal paging does not terminate")
}

// vmetaTakeDump reads the whole observable state through the read API of DBV2.
// probeKeys / probeIDs are looked up by value / by id in addition to everything the
// mapping listing returns.
func vmetaTakeDump(db *DBV2, probeKeys []string, probeIDs []int32) (*vmetaDump, error) {
	ctx := context.Background()
	d := &vmetaDump{}
	evs, err := vmetaJournalAll(db, 1000)
	if err != nil {
		return nil, fmt.Errorf("journal: %w", err)
	}
	for _, e := range evs {
		d.Journal = append(d.Journal, vmetaEventLine(e))
	}
	// entity ids with history (no listing API: read the ids through the engine, the rows through the API)
	var ids []int64
	var flood []string
	err = db.eng.Do(ctx, "vmeta_dump", func(conn sqlite.Conn, cache []byte) ([]byte, error) {
		rows := conn.Query("vmeta_hist_ids", "SELECT DISTINCT entity_id FROM entity_history ORDER BY entity_id")
		for rows.Next() {
			id, _ := rows.ColumnInt64(0)
			ids = append(ids, id)
		}
		if rows.Error() != nil {
			return cache, rows.Error()
		}
		// the storage class of the key is part of the row: SQLite never equates a TEXT key with a BLOB key, so a
		// row written with the other class is invisible to the code that looks it up
		rows = conn.Query("vmeta_flood", "SELECT metric_name, last_time_update, count_free, typeof(metric_name) FROM flood_limits ORDER BY metric_name, typeof(metric_name)")
		for rows.Next() {
			name, _ := rows.ColumnBlobString(0)
			t, _ := rows.ColumnInt64(1)
			c, _ := rows.ColumnInt64(2)
			class, _ := rows.ColumnBlobString(3)
			flood = append(flood, fmt.Sprintf("metric=%q(%s) last_time_update=%d count_free=%d", name, class, t, c))
		}
		return cache, rows.Error()
	})
	if err != nil {
		return nil, fmt.Errorf("dump query: %w", err)
	}
	d.Flood = flood
	for _, id := range ids {
		h, err := db.GetHistoryShort(ctx, id)
		if err != nil {
			return nil, fmt.Errorf("history %d: %w", id, err)
		}
		for _, he := range h.Events {
			ev, err := db.GetEntityVersioned(ctx, id, he.Version)
			if err != nil {
				return nil, fmt.Errorf("entity %d@%d: %w", id, he.Version, err)
			}
			d.History = append(d.History, fmt.Sprintf("entity=%d ver=%d meta=%q | id=%d type=%d ns=%d name=%q upd=%d data=%q meta=%q",
				id, he.Version, he.Metadata, ev.Id, ev.EventType, ev.NamespaceId, ev.Name, ev.UpdateTime, ev.Data, ev.Metadata))
		}
	}
	maps, maxID, err := db.GetNewMappings(ctx, 0, 40000, nil)
	if err != nil {
		return nil, fmt.Errorf("mappings: %w", err)
	}
	idSet := map[int32]bool{}
	keySet := map[string]bool{}
	for _, m := range maps {
		d.Mappings = append(d.Mappings, fmt.Sprintf("%d -> %q", m.Value, m.Str))
		idSet[m.Value] = true
		keySet[m.Str] = true
	}
	d.Mappings = append(d.Mappings, fmt.Sprintf("max_id=%d", maxID))
	for _, k := range probeKeys {
		keySet[k] = true
	}
	for _, id := range probeIDs {
		idSet[id] = true
	}
	keys := make([]string, 0, len(keySet))
	for k := range keySet {
		keys = append(keys, k)
	}
	sort.Strings(keys)
	for _, k := range keys {
		id, notExists, err := db.GetMappingByValue(ctx, k)
		if err != nil {
			return nil, err
		}
		d.ByValue = append(d.ByValue, fmt.Sprintf("value %q -> id=%d absent=%v", k, id, notExists))
	}
	idl := make([]int, 0, len(idSet))
	for id := range idSet {
		idl = append(idl, int(id))
	}
	sort.Ints(idl)
	for _, id := range idl {
		k, ok, err := db.GetMappingByID(ctx, int32(id))
		if err != nil {
			return nil, err
		}
		d.ByValue = append(d.ByValue, fmt.Sprintf("id %d -> %q present=%v", id, k, ok))
	}
	bs, err := db.GetBootstrap(ctx)
	if err != nil {
		return nil, fmt.Errorf("bootstrap: %w", err)
	}
	for _, m := range bs.Mappings {
		d.Bootstrap = append(d.Bootstrap, fmt.Sprintf("%q=%d", m.Str, m.Value))
	}
	return d, nil
}

// vmetaSeq returns 0..n-1.
func vmetaSeq(n int) []int {
	out := make([]int, n)
	for i := range out {
		out[i] = i
	}
	return out
}
