//go:build verif

package metajournal

// C20: metadata replicas converge and name lookups stay correct.
//
// Explicit-state BFS (mc.BFS) over operation histories on the REAL JournalFast / MetricsStorage
// code. The skeleton is the package's own FuzzCompactJournal (source journal -> compact journal
// with MetricsStorage -> agent journal with MetricsStorage, slice-backed files, deliveries through
// getJournalDiffLocked3 + applyUpdate), made exhaustive and extended by renames, name reuse,
// groups, a namespace, page-limited deliveries and truncated files with chunk boundaries.
//
// Alphabet (see c20BuildOps): create metric with a name of the pool / rename metric to any free
// name (free because never used or because its holder was renamed away = used-then-freed) /
// edit visible in compact form / edit invisible in compact form / create group / rename group /
// enable-disable group / create-or-edit the namespace / deliver one page of 1 event or everything
// pending to the compact replica / the same to the agent replica / save + reload the compact or
// the agent replica from a file that is intact, cut by one byte, cut in the middle, emptied, or
// cut EXACTLY at any inner chunk boundary (the file ends after chunk k of n, 1 <= k < n: what a
// crash in the middle of save() leaves of a growing file, one WriteAt per chunk). The last kind
// is the only damage the chunk reader cannot see (a file that ends after a whole chunk is a
// well-formed shorter file, ReadNext reports no error); only the header's "last event version"
// tells the loader that events are missing.
// Plus "save again unchanged" of every metric, group and the namespace (byte-identical content, only version
// and update time move), explored in a family of its own (see TestVerifC20); the reference model carries the
// update time for the entity kinds whose compact form keeps it (groups, namespaces).
//
// Oracle (c20Judge), evaluated for EVERY reached state on the instance that reached it, after all
// pending deliveries were drained (source -> compact -> agent):
//   1. every replica (journal and MetricsStorage getters) holds the source's latest version of
//      every entity, in compact form (reference: harness model of the source, written here);
//   2. replicas of the same journal have equal VersionHash() state hashes: the long-lived compact
//      replica vs. a brand-new compact replica of the source, the long-lived agent and two
//      brand-new agents (paged by item limit / by byte limit) vs. the compact journal they copy,
//      and each replica vs. itself after Save/load through the real single-chunk save;
//   3. each metric's group is the enabled user group with the longest matching name prefix;
//   4. GetMetaMetricByName(n) returns the metric that holds n, for every live metric.

import (
	"encoding/json"
	"fmt"
	"os"
	"sort"
	"strings"
	"sync"
	"sync/atomic"
	"testing"

	"github.com/zeebo/xxh3"

	"github.com/VKCOM/statshouse/internal/data_model"
	"github.com/VKCOM/statshouse/internal/data_model/gen2/tlmetadata"
	"github.com/VKCOM/statshouse/internal/format"
	"github.com/VKCOM/statshouse/internal/verif/mc"
	"github.com/VKCOM/statshouse/internal/vkgo/basictl"
)

// ---------------------------------------------------------------------------------------------
// alphabet

const (
	c20MaxMetrics = 3
	c20MaxGroups  = 2
	c20NsID       = 1
	c20NsName     = "n"
	c20UpdateTime = 1700000000
)

// Name pools are chosen to force collisions and to put a metric name in every position relative to
// the group names it does and does not match (outer group "a", nested inner group "ab", unrelated
// group "b"; MetricsStorage scans the groups sorted by name descending):
//   "a1"  matches "a" only and sorts BEFORE the inner group name  (a < a1 < ab < b)
//   "ab1" matches "a" and "ab": the longest prefix decides          (a < ab < ab1 < b)
//   "ac1" matches "a" only and sorts AFTER the inner group name: a non-matching group lies between
//         the metric name and its match in the scan order           (a < ab < ac1 < b)
//   "b1"  matches "b" only; both other groups sort before its match (a < ab < b < b1)
// With 3 metrics over 4 names and 2 groups over 3 names renames still mostly reuse freed names.
var c20MetricNames = []string{"a1", "ab1", "ac1", "b1"}
var c20GroupNames = []string{"a", "ab", "b"}

const (
	c20OpCreateMetric  = iota // a = name index; creates the next metric id
	c20OpRenameMetric         // a = metric index, b = name index (must be free)
	c20OpEditVisible          // a = metric index; toggles a tag name (survives compaction)
	c20OpEditInvisible        // a = metric index; toggles description and update time (dropped by compaction)
	c20OpCreateGroup          // a = name index; creates the next group id
	c20OpRenameGroup          // a = group index, b = name index (must be free)
	c20OpToggleGroup          // a = group index; disable <-> enable
	c20OpNamespace            // create the namespace, or (if it exists) toggle its weight
	c20OpDeliver              // a = 0 compact <- source, 1 agent <- compact; b = 0 one page of one event, 1 everything pending
	c20OpReload               // a = 0 compact, 1 agent; b = cut mode
	c20OpResave               // a = 0 metric / 1 group / 2 namespace, b = index; the entity is saved again with identical content: only version and update time move
)

const (
	c20CutIntact = iota
	c20CutOneByte
	c20CutMiddle
	c20CutEmpty
	c20CutBoundary // + (k-1): the file ends exactly after chunk k (k events survive, no read error), 1 <= k < n
)

// at most this many entities exist, so a saved journal has at most this many chunks
const c20MaxEntities = c20MaxMetrics + c20MaxGroups + 1

type c20Op struct {
	kind, a, b int
	label      string
	index      int
}

func c20BuildOps() []c20Op {
	var ops []c20Op
	for n := range c20MetricNames {
		ops = append(ops, c20Op{c20OpCreateMetric, n, 0, "create-metric(" + c20MetricNames[n] + ")", 0})
	}
	for m := 0; m < c20MaxMetrics; m++ {
		for n := range c20MetricNames {
			ops = append(ops, c20Op{c20OpRenameMetric, m, n, fmt.Sprintf("rename-metric(%d->%s)", m+1, c20MetricNames[n]), 0})
		}
	}
	for m := 0; m < c20MaxMetrics; m++ {
		ops = append(ops, c20Op{c20OpEditVisible, m, 0, fmt.Sprintf("edit-metric-visible(%d)", m+1), 0})
	}
	for m := 0; m < c20MaxMetrics; m++ {
		ops = append(ops, c20Op{c20OpEditInvisible, m, 0, fmt.Sprintf("edit-metric-invisible(%d)", m+1), 0})
	}
	for n := range c20GroupNames {
		ops = append(ops, c20Op{c20OpCreateGroup, n, 0, "create-group(" + c20GroupNames[n] + ")", 0})
	}
	for g := 0; g < c20MaxGroups; g++ {
		for n := range c20GroupNames {
			ops = append(ops, c20Op{c20OpRenameGroup, g, n, fmt.Sprintf("rename-group(%d->%s)", g+1, c20GroupNames[n]), 0})
		}
	}
	for g := 0; g < c20MaxGroups; g++ {
		ops = append(ops, c20Op{c20OpToggleGroup, g, 0, fmt.Sprintf("toggle-group-disable(%d)", g+1), 0})
	}
	ops = append(ops, c20Op{c20OpNamespace, 0, 0, "namespace-create-or-edit", 0})
	for t, tn := range []string{"compact", "agent"} {
		ops = append(ops, c20Op{c20OpDeliver, t, 0, "deliver-1-to-" + tn, 0})
		ops = append(ops, c20Op{c20OpDeliver, t, 1, "deliver-all-to-" + tn, 0})
	}
	for t, tn := range []string{"compact", "agent"} {
		for c, cn := range []string{"intact", "cut-one-byte", "cut-middle", "emptied"} {
			ops = append(ops, c20Op{c20OpReload, t, c, "save-reload-" + tn + "(" + cn + ")", 0})
		}
		for k := 1; k < c20MaxEntities; k++ { // every inner chunk boundary
			ops = append(ops, c20Op{c20OpReload, t, c20CutBoundary + k - 1, fmt.Sprintf("save-reload-%s(ends-after-chunk-%d)", tn, k), 0})
		}
	}
	// "save again unchanged" (appended last so that the indexes of the older operations - replay files - keep their meaning)
	for m := 0; m < c20MaxMetrics; m++ {
		ops = append(ops, c20Op{c20OpResave, 0, m, fmt.Sprintf("resave-metric-unchanged(%d)", m+1), 0})
	}
	for g := 0; g < c20MaxGroups; g++ {
		ops = append(ops, c20Op{c20OpResave, 1, g, fmt.Sprintf("resave-group-unchanged(%d)", g+1), 0})
	}
	ops = append(ops, c20Op{c20OpResave, 2, 0, "resave-namespace-unchanged", 0})
	for i := range ops {
		ops[i].index = i
	}
	return ops
}

var c20Ops = c20BuildOps()

func c20Labels(hist []int) []string {
	out := make([]string, len(hist))
	for i, h := range hist {
		out[i] = c20Ops[h].label
	}
	return out
}

// ---------------------------------------------------------------------------------------------
// reference model of the source (the truth) + the real objects

type c20SrcVersion struct {
	ver     int64
	compact string // content as far as the compact form keeps it
}

type c20Entity struct {
	exists   bool
	name     string
	vis      bool // metric: tag 1 is named "k"            (kept by compaction)
	invis    bool // metric: description "d", update time+1 (dropped by compaction)
	disabled bool // group
	heavy    bool // group / namespace: weight 2 instead of 1
	late     bool // update time of the latest save is +2 (toggled by "save again unchanged": the content is byte-identical, version and update time move)
	ver      int64
	hist     []c20SrcVersion
}

// compactContent is what a compact journal keeps of the entity. Groups and namespaces are kept verbatim, update time
// included (compactJournalEvent returns them untouched, and GetGroup/GetNamespace show it); of a metric the update
// time is cleared, so a metric saved again unchanged compacts to the same event (keepsTime=false).
func (e *c20Entity) compactContent(keepsTime bool) string {
	return fmt.Sprintf("%s|%v|%v|%v|%v", e.name, e.vis, e.disabled, e.heavy, e.late && keepsTime)
}

func (e *c20Entity) updateTime(metric bool) uint32 {
	t := uint32(c20UpdateTime)
	if e.invis && metric {
		t++
	}
	if e.late {
		t += 2
	}
	return t
}

// acceptable: v is the version of a source event of this entity whose compact content equals the
// latest one (a compact journal legitimately keeps the older of two events that compact equally).
func (e *c20Entity) acceptable(v int64) bool {
	last := e.hist[len(e.hist)-1].compact
	for _, h := range e.hist {
		if h.ver == v && h.compact == last {
			return true
		}
	}
	return false
}

type c20World struct {
	ver      int64
	metrics  [c20MaxMetrics]c20Entity
	groups   [c20MaxGroups]c20Entity
	ns       c20Entity
	nMetrics int
	nGroups  int
	// everHeld[name] = bit set of metric indexes that ever held the name (classification of the known defect)
	everHeld map[string]uint

	src, cmp, agt *JournalFast
	cmpMS, agtMS  *MetricsStorage

	srcOps []byte // the source operations of the history (indexes into c20Ops)
}

// c20Store is a recycled data_model.NewChunkedStorage2Slice storage (see VerifC20Rewind in
// data_model/verif_c20_export.go for why: the constructor's 1 MB scratch buffer).
type c20Store struct {
	st     *data_model.ChunkedStorage2
	file   *[]byte
	readAt func(b []byte, offset int64) error
}

// a plain free list: sync.Pool is emptied by every garbage collection
var c20StorePool struct {
	mu   sync.Mutex
	free []*c20Store
}

// c20GetStore returns a storage over a slice-backed file with the given content, in the state
// NewChunkedStorage2Slice leaves it in.
func c20GetStore(content []byte) *c20Store {
	var e *c20Store
	c20StorePool.mu.Lock()
	if n := len(c20StorePool.free); n > 0 {
		e = c20StorePool.free[n-1]
		c20StorePool.free = c20StorePool.free[:n-1]
	}
	c20StorePool.mu.Unlock()
	if e == nil {
		e = &c20Store{file: new([]byte)}
		e.st = data_model.NewChunkedStorage2Slice(e.file)
		e.readAt = e.st.ReadAt
	}
	*e.file = content
	e.st.VerifC20Rewind(e.readAt, int64(len(content)))
	return e
}

func (e *c20Store) release() []byte {
	content := *e.file
	*e.file = nil
	c20StorePool.mu.Lock()
	c20StorePool.free = append(c20StorePool.free, e)
	c20StorePool.mu.Unlock()
	return content
}

// c20LoadJournal is LoadJournalFastSlice (same three statements) on a recycled storage. The
// journal's storage reference is dropped afterwards: this harness never calls Save() (it saves
// through save(saver, ...) into a separate storage, like FuzzCompactJournal).
func c20LoadJournal(content []byte, compact bool, applyEvent []ApplyEvent) *JournalFast {
	e := c20GetStore(content)
	c := MakeJournalFast(e.st, data_model.JournalDDOSProtectionTimeout, compact, applyEvent)
	_ = c.load(e.st)
	c.storage = nil
	e.release()
	return c
}

func c20NewReplica(compact bool) (*JournalFast, *MetricsStorage) {
	ms := MakeMetricsStorage(nil)
	return c20LoadJournal(nil, compact, []ApplyEvent{ms.ApplyEvent}), ms
}

func c20NewWorld() *c20World {
	w := &c20World{everHeld: map[string]uint{}}
	w.src = c20LoadJournal(nil, false, nil)
	w.cmp, w.cmpMS = c20NewReplica(true)
	w.agt, w.agtMS = c20NewReplica(false)
	return w
}

func c20MetricEvent(id int32, e *c20Entity, ver int64) tlmetadata.Event {
	v := format.MetricMetaValue{MetricID: id, Name: e.name, Version: ver, Tags: []format.MetricMetaTag{{}, {}}}
	if e.vis {
		v.Tags[1].Name = "k"
	}
	if e.invis {
		v.Description = "d"
	}
	if err := v.RestoreCachedInfo(); err != nil {
		panic(fmt.Sprintf("harness: bad metric: %v", err))
	}
	ev, err := EventFromMetricMeta(v, "") // the converter SaveMetric uses
	if err != nil {
		panic(err)
	}
	ev.UpdateTime = e.updateTime(true)
	return ev
}

func c20GroupEvent(id int32, e *c20Entity, ver int64) tlmetadata.Event {
	v := format.MetricsGroup{ID: id, Name: e.name, Version: ver, Weight: 1, Disable: e.disabled}
	if e.heavy {
		v.Weight = 2
	}
	if err := v.RestoreCachedInfo(false); err != nil {
		panic(fmt.Sprintf("harness: bad group: %v", err))
	}
	ev, err := EventFromGroupMeta(v, "") // the converter SaveGroup uses
	if err != nil {
		panic(err)
	}
	ev.UpdateTime = e.updateTime(false)
	return ev
}

func c20NamespaceEvent(e *c20Entity, ver int64) tlmetadata.Event {
	v := format.NamespaceMeta{ID: c20NsID, Name: e.name, Version: ver, Weight: 1}
	if e.heavy {
		v.Weight = 2
	}
	if err := v.RestoreCachedInfo(false); err != nil {
		panic(fmt.Sprintf("harness: bad namespace: %v", err))
	}
	ev, err := EventFromNamespaceMeta(v, "") // the converter SaveNamespace uses
	if err != nil {
		panic(err)
	}
	ev.UpdateTime = e.updateTime(false)
	return ev
}

// commit gives the entity the next source version and appends its event to the source journal
// exactly like FuzzCompactJournal does.
func (w *c20World) commit(e *c20Entity, mk func(ver int64) tlmetadata.Event) {
	w.ver++
	e.ver = w.ver
	ev := mk(w.ver)
	e.hist = append(e.hist, c20SrcVersion{ver: w.ver, compact: e.compactContent(ev.EventType != format.MetricEvent)})
	w.src.addEventLocked(nil, ev)
	w.src.finishUpdateLocked()
}

func (w *c20World) metricNameFree(name string) bool {
	for i := 0; i < w.nMetrics; i++ {
		if w.metrics[i].name == name {
			return false
		}
	}
	return true
}

func (w *c20World) groupNameFree(name string) bool {
	for i := 0; i < w.nGroups; i++ {
		if w.groups[i].name == name {
			return false
		}
	}
	return true
}

// replicaLags: some replica does not hold the latest source version of the entity.
func (w *c20World) replicaLags(typ int32, id int64, ver int64) bool {
	key := journalEventID{typ: typ, id: id}
	for _, j := range []*JournalFast{w.cmp, w.agt} {
		if e, ok := j.journal[key]; ok && e.Version != ver {
			return true
		}
	}
	return false
}

// replicaHolds: some replica already stores an event of the entity (an unchanged re-save then meets its own earlier save there).
func (w *c20World) replicaHolds(typ int32, id int64) bool {
	key := journalEventID{typ: typ, id: id}
	for _, j := range []*JournalFast{w.cmp, w.agt} {
		if _, ok := j.journal[key]; ok {
			return true
		}
	}
	return false
}

func (w *c20World) pending(to, from *JournalFast) int {
	var resp tlmetadata.GetJournalResponsenew
	from.getJournalDiffLocked3(to.loaderVersion, &resp)
	return len(resp.Events)
}

// deliver is FuzzCompactJournal's deliverEvents, except that a short page is produced by the
// real page limit of getJournalDiffLocked3Limits instead of cutting the response afterwards.
func c20Deliver(to, from *JournalFast, maxItems, maxBytes int) int {
	var resp tlmetadata.GetJournalResponsenew
	if maxItems <= 0 {
		from.getJournalDiffLocked3(to.loaderVersion, &resp)
	} else {
		from.getJournalDiffLocked3Limits(to.loaderVersion, &resp, maxItems, maxBytes)
	}
	n := len(resp.Events)
	to.applyUpdate(resp.Events, resp.CurrentVersion, nil)
	return n
}

// c20SaveChunked is JournalFast.save with a chunk boundary after every event (what
// FuzzCompactJournal intends with maxChunkSize=1, which FinishItem ignores), see the shim
// data_model/verif_c20_export.go.
func c20SaveChunked(ms *JournalFast, storage *data_model.ChunkedStorage2, file *[]byte, chunkEnds *[]int) error {
	storage.ResetToStartOfFile()
	chunk := storage.StartWriteChunk(data_model.ChunkedMagicJournal, 1)
	chunk = basictl.LongWrite(chunk, ms.loaderVersion)
	chunk = basictl.LongWrite(chunk, ms.currentVersion)
	var iteratorError error
	ms.order.Ascend(func(order journalOrder) bool {
		event, ok := ms.journal[order.key]
		if !ok {
			panic(fmt.Sprintf("journal order violation - entry not found %s", order.key.key()))
		}
		chunk = event.WriteTL1Boxed(chunk)
		chunk, iteratorError = storage.VerifC20FinishChunk(chunk)
		*chunkEnds = append(*chunkEnds, len(*file)) // the slice-backed file grows with every written chunk
		return iteratorError == nil
	})
	if iteratorError != nil {
		return iteratorError
	}
	return storage.FinishWriteChunk(chunk)
}

// c20Reload is FuzzCompactJournal's saveReload: save, damage the file, start a new replica from it.
func c20Reload(j *JournalFast, cut int, realSave bool) (*JournalFast, *MetricsStorage, int) {
	saver := c20GetStore(nil)
	var err error
	var chunkEnds []int
	if realSave {
		err = j.save(saver.st, 0)
	} else {
		err = c20SaveChunked(j, saver.st, saver.file, &chunkEnds)
	}
	if err != nil {
		panic(fmt.Sprintf("harness: save failed: %v", err))
	}
	file := saver.release()
	switch cut {
	case c20CutIntact:
	case c20CutOneByte: // the last chunk is torn: the last event is lost
		file = file[:len(file)-1]
	case c20CutMiddle: // the file ends in the middle of the chunk of event number n/2: n/2 events survive
		k := len(chunkEnds) / 2
		start := 0
		if k > 0 {
			start = chunkEnds[k-1]
		}
		file = file[:(start+chunkEnds[k])/2]
	case c20CutEmpty:
		file = file[:0]
	default: // the file ends exactly at the inner chunk boundary number k
		k := cut - c20CutBoundary + 1
		if cut < c20CutBoundary || k >= len(chunkEnds) {
			panic(fmt.Sprintf("harness: cut mode %d with %d chunks", cut, len(chunkEnds)))
		}
		file = file[:chunkEnds[k-1]]
	}
	ms := MakeMetricsStorage(nil)
	j2 := c20LoadJournal(file, j.compact, []ApplyEvent{ms.ApplyEvent})
	return j2, ms, len(j.journal) - len(j2.journal)
}

// nameAttributedToOther: some replica (journal or name index) still attributes the name to
// another entity of that type, i.e. taking the name now collides with a stale attribution.
func (w *c20World) nameAttributedToOther(typ int32, id int64, name string) bool {
	for _, j := range []*JournalFast{w.cmp, w.agt} {
		for k, e := range j.journal {
			if k.typ == typ && k.id != id && e.Name == name {
				return true
			}
		}
	}
	for _, ms := range []*MetricsStorage{w.cmpMS, w.agtMS} {
		switch typ {
		case format.MetricEvent:
			if m := ms.metricsByName[name]; m != nil && int64(m.MetricID) != id {
				return true
			}
		case format.MetricsGroupEvent:
			if g := ms.groupsByName[name]; g != nil && int64(g.ID) != id {
				return true
			}
		}
	}
	return false
}

// enabled: whether the operation is enabled in this state (pure).
func (w *c20World) enabled(op c20Op) bool {
	switch op.kind {
	case c20OpCreateMetric:
		return w.nMetrics < c20MaxMetrics && w.metricNameFree(c20MetricNames[op.a])
	case c20OpRenameMetric:
		return op.a < w.nMetrics && w.metricNameFree(c20MetricNames[op.b]) // excludes its own current name
	case c20OpEditVisible, c20OpEditInvisible:
		return op.a < w.nMetrics
	case c20OpCreateGroup:
		return w.nGroups < c20MaxGroups && w.groupNameFree(c20GroupNames[op.a])
	case c20OpRenameGroup:
		return op.a < w.nGroups && w.groupNameFree(c20GroupNames[op.b])
	case c20OpToggleGroup:
		return op.a < w.nGroups
	case c20OpResave:
		switch op.a {
		case 0:
			return op.b < w.nMetrics
		case 1:
			return op.b < w.nGroups
		}
		return w.ns.exists
	case c20OpDeliver:
		p := w.pending(w.cmp, w.src)
		if op.a == 1 {
			p = w.pending(w.agt, w.cmp)
		}
		return p >= 1+op.b // "everything" with one pending event is "one"
	case c20OpReload:
		// A damaged file keeps a prefix of the n events: one-byte cut n-1, middle cut n/2, emptied 0.
		// A variant is enabled when it differs from the ones before it in this list; reloading
		// an empty replica changes nothing.
		n := len(w.cmp.journal)
		if op.a == 1 {
			n = len(w.agt.journal)
		}
		switch op.b {
		case c20CutIntact, c20CutEmpty:
			return n >= 1
		case c20CutOneByte:
			return n >= 2
		case c20CutMiddle:
			return n >= 3
		default:
			// Every inner boundary k < n. On code that loads correctly the result equals that of a
			// cut inside chunk k+1 (same surviving prefix); it is enabled nevertheless, because
			// whether the loader tells the two apart is exactly what is being explored: after a
			// boundary cut the chunk reader reports no error.
			return op.b-c20CutBoundary+1 < n
		}
	}
	return true
}

// apply performs one enabled operation. The result says whether the operation conflicts with the
// state it is applied to (the rule for non-trivial transitions; a function of state and operation).
func (w *c20World) apply(op c20Op) (conflict bool) {
	if op.kind < c20OpDeliver || op.kind == c20OpResave {
		w.srcOps = append(w.srcOps, byte(op.index))
	}
	switch op.kind {
	case c20OpCreateMetric:
		name := c20MetricNames[op.a]
		i := w.nMetrics
		w.nMetrics++
		e := &w.metrics[i]
		e.exists, e.name = true, name
		conflict = w.nameAttributedToOther(format.MetricEvent, int64(i+1), name) // a freed name is taken while a replica still knows its previous holder under it
		w.everHeld[name] |= 1 << uint(i)
		w.commit(e, func(v int64) tlmetadata.Event { return c20MetricEvent(int32(i+1), e, v) })
	case c20OpRenameMetric, c20OpEditVisible, c20OpEditInvisible:
		i := op.a
		e := &w.metrics[i]
		conflict = w.replicaLags(format.MetricEvent, int64(i+1), e.ver) // edited again before a replica saw the previous version
		switch op.kind {
		case c20OpRenameMetric:
			name := c20MetricNames[op.b]
			conflict = conflict || w.nameAttributedToOther(format.MetricEvent, int64(i+1), name)
			w.everHeld[name] |= 1 << uint(i)
			e.name = name
		case c20OpEditVisible:
			e.vis = !e.vis
		case c20OpEditInvisible:
			e.invis = !e.invis
		}
		w.commit(e, func(v int64) tlmetadata.Event { return c20MetricEvent(int32(i+1), e, v) })
	case c20OpCreateGroup:
		name := c20GroupNames[op.a]
		i := w.nGroups
		w.nGroups++
		e := &w.groups[i]
		e.exists, e.name = true, name
		conflict = w.nameAttributedToOther(format.MetricsGroupEvent, int64(i+1), name)
		w.commit(e, func(v int64) tlmetadata.Event { return c20GroupEvent(int32(i+1), e, v) })
	case c20OpRenameGroup, c20OpToggleGroup:
		i := op.a
		e := &w.groups[i]
		conflict = w.replicaLags(format.MetricsGroupEvent, int64(i+1), e.ver)
		if op.kind == c20OpRenameGroup {
			name := c20GroupNames[op.b]
			conflict = conflict || w.nameAttributedToOther(format.MetricsGroupEvent, int64(i+1), name)
			e.name = name
		} else {
			e.disabled = !e.disabled
		}
		w.commit(e, func(v int64) tlmetadata.Event { return c20GroupEvent(int32(i+1), e, v) })
	case c20OpNamespace:
		e := &w.ns
		if !e.exists {
			e.exists, e.name = true, c20NsName
		} else {
			conflict = w.replicaLags(format.NamespaceEvent, c20NsID, e.ver)
			e.heavy = !e.heavy
		}
		w.commit(e, func(v int64) tlmetadata.Event { return c20NamespaceEvent(e, v) })
	case c20OpResave:
		// the same entity, byte-identical name/data/namespace: the metadata engine gives it a new version and update time
		switch op.a {
		case 0:
			i := op.b
			e := &w.metrics[i]
			conflict = w.replicaHolds(format.MetricEvent, int64(i+1))
			e.late = !e.late
			w.commit(e, func(v int64) tlmetadata.Event { return c20MetricEvent(int32(i+1), e, v) })
		case 1:
			i := op.b
			e := &w.groups[i]
			conflict = w.replicaHolds(format.MetricsGroupEvent, int64(i+1))
			e.late = !e.late
			w.commit(e, func(v int64) tlmetadata.Event { return c20GroupEvent(int32(i+1), e, v) })
		default:
			e := &w.ns
			conflict = w.replicaHolds(format.NamespaceEvent, c20NsID)
			e.late = !e.late
			w.commit(e, func(v int64) tlmetadata.Event { return c20NamespaceEvent(e, v) })
		}
	case c20OpDeliver:
		to, from := w.cmp, w.src
		if op.a == 1 {
			to, from = w.agt, w.cmp
		}
		if op.b == 0 {
			conflict = w.pending(to, from) > 1 // partial delivery
			c20Deliver(to, from, 1, data_model.MaxJournalBytesSent)
		} else {
			c20Deliver(to, from, 0, 0)
		}
	case c20OpReload:
		var lost int
		if op.a == 0 {
			w.cmp, w.cmpMS, lost = c20Reload(w.cmp, op.b, false)
		} else {
			w.agt, w.agtMS, lost = c20Reload(w.agt, op.b, false)
		}
		conflict = lost > 0 // restart from a file that lost events
	}
	return conflict
}

// ---------------------------------------------------------------------------------------------
// canonical key

// c20Key is the canonical form of a state. It contains
//   - the source model (per entity: exists, name, toggles, version) and the source version,
//   - per replica journal: currentVersion, loaderVersion, the state hash string and every entry
//     (type, id, version, every field of the stored event),
//   - per replica MetricsStorage: everything ApplyEvent reads or the getters return (metrics by id
//     with name/content/group/version, the name index, user groups by id and by name, the ordered
//     group list, user namespaces by id and by name).
//
// Why merged states have equal futures:
//   - Everything the code under test reads in any later operation is in the key: JournalFast
//     consults journal/order (order is a function of the entry versions), currentVersion,
//     loaderVersion and stateHash; MetricsStorage.ApplyEvent consults the maps listed above.
//     lastKnownVersion / lastSavedVersion / metricsDead / long-poll clients are never read by the
//     operations of this alphabet (no Start(), no Save(), no RPC clients).
//   - Version numbers are replaced by their rank among all version numbers occurring in the state
//     (plus 0). The code only compares versions (<, <=, ==, "next greater"), never does arithmetic
//     on them beyond verNumb+1 as a lower search bound, state hashes are computed without the
//     version, and the version field has a fixed width in files, so two states that differ by an
//     order-preserving renumbering behave identically and the oracle (which compares versions
//     only for membership in the entity's own history) is invariant under it. The source's next
//     version is always "greater than everything", whatever the numbers are.
//   - Files are not part of the key: save+reload is one atomic operation that rewrites the whole
//     file from offset 0 and truncates it (ResetToStartOfFile ... FinishWriteChunk -> Truncate),
//     and the reloaded replica is built from the file only. No later operation reads the old file.
//     (A restart from an OLDER file is the same as a replica that received nothing since then
//     and reloads now, which the alphabet contains.) The damage done to the file shows in the
//     key through the journal it produced.
//   - The acceptable-version sets of the oracle (c20Entity.hist) are not in the key. Two merged
//     states have the same latest content and version rank per entity; a replica can only hold a
//     version that is in its journal or MetricsStorage, which are in the key, and whether such
//     a version is "acceptable" was already decided when it differs from the latest: see
//     c20HistSummary below, which adds exactly that bit per held version.
//   - The source's "invisible" toggle of a metric (description "d"/"" and update time +1/+0) is not
//     in the key. It only decides the description and update time inside the NEXT source event of
//     that metric, and compactJournalEvent removes both before anything downstream of the source
//     sees them (the agent copies the compact journal). What a replica holds is in the key with all
//     fields, so if compaction ever let the description through, the states would differ there.
//   - The "late" toggle (update time +2 after an unchanged re-save) of a group / the namespace is in the key (source
//     model line, journal entries, MetricsStorage groups and namespaces with their UpdateTime); of a metric it is
//     left out for the same reason as "invisible": compaction clears a metric's update time.
//   - Map-iteration-order nondeterminism of the code under test. ApplyEvent rebuilds
//     metricsByName from metricsByID and groupsOrdered from groupsByID by ranging over maps. When
//     a replica transiently knows two metrics (groups) under one name (one of them stale: its
//     rename has not arrived yet), the winner is decided by Go's random map order. For such a
//     name the key records "dup" instead of the owner, and for a metric whose group is one of
//     several enabled same-named groups "amb:<name>" instead of the id. This loses nothing:
//     before the replica can converge the stale entity must receive its pending event or the
//     other one must be renamed away; either event deletes/overwrites the index entry
//     irrespective of the owner and triggers the full group recalculation, which does not read
//     the previous GroupID.
func c20Key(w *c20World) string {
	var vers []int64
	addv := func(v int64) { vers = append(vers, v) }
	addv(0)
	addv(w.ver)
	ents := w.entities()
	for _, e := range ents {
		addv(e.e.ver)
	}
	for _, j := range []*JournalFast{w.cmp, w.agt} {
		addv(j.currentVersion)
		addv(j.loaderVersion)
		for _, ev := range j.journal {
			addv(ev.Version)
		}
	}
	for _, ms := range []*MetricsStorage{w.cmpMS, w.agtMS} {
		for _, m := range ms.metricsByID {
			addv(m.Version)
		}
		for _, g := range ms.groupsByID {
			addv(g.Version)
		}
		for _, n := range ms.namespaceByID {
			addv(n.Version)
		}
	}
	sort.Slice(vers, func(i, j int) bool { return vers[i] < vers[j] })
	uniq := vers[:0]
	for i, v := range vers {
		if i == 0 || v != vers[i-1] {
			uniq = append(uniq, v)
		}
	}
	rank := func(v int64) int { return sort.Search(len(uniq), func(i int) bool { return uniq[i] >= v }) }

	var b strings.Builder
	fmt.Fprintf(&b, "S%d;", rank(w.ver))
	for _, e := range ents {
		// e.e.invis is deliberately absent, see the comment above; so is e.e.late of a metric (it only decides the update
		// time of the metric's next source event, which compaction clears); of a group / namespace it is kept downstream
		fmt.Fprintf(&b, "%d/%d:%s,%v,%v,%v,%v,%d;", e.typ, e.id, e.e.name, e.e.vis, e.e.disabled, e.e.heavy, e.e.late && e.typ != format.MetricEvent, rank(e.e.ver))
	}
	for _, j := range []*JournalFast{w.cmp, w.agt} {
		fmt.Fprintf(&b, "|J%d,%d,%s;", rank(j.currentVersion), rank(j.loaderVersion), j.stateHashStr)
		keys := make([]journalEventID, 0, len(j.journal))
		for k := range j.journal {
			keys = append(keys, k)
		}
		sort.Slice(keys, func(a, c int) bool {
			if keys[a].typ != keys[c].typ {
				return keys[a].typ < keys[c].typ
			}
			return keys[a].id < keys[c].id
		})
		for _, k := range keys {
			ev := j.journal[k]
			fmt.Fprintf(&b, "%d/%d@%d%s:%d,%q,%d,%d,%d,%d,%q,%q;", k.typ, k.id, rank(ev.Version), c20HistSummary(w, k, ev.Version),
				ev.FieldMask, ev.Name, ev.NamespaceId, ev.EventType, ev.Unused, ev.UpdateTime, ev.Data, ev.Metadata)
		}
	}
	for _, ms := range []*MetricsStorage{w.cmpMS, w.agtMS} {
		b.WriteString("|M")
		nameCount := map[string]int{}
		ids := make([]int, 0, len(ms.metricsByID))
		for id, m := range ms.metricsByID {
			ids = append(ids, int(id))
			nameCount[m.Name]++
		}
		sort.Ints(ids)
		groupNameCount := map[string]int{}
		for _, g := range ms.groupsByID {
			if g.ID > 0 && !g.Disable {
				groupNameCount[g.Name]++
			}
		}
		for _, id := range ids {
			m := ms.metricsByID[int32(id)]
			grp := fmt.Sprint(m.GroupID)
			if g, ok := ms.groupsByID[m.GroupID]; ok && m.GroupID > 0 && groupNameCount[g.Name] > 1 {
				grp = "amb:" + g.Name
			}
			tag1 := ""
			if len(m.Tags) > 1 {
				tag1 = m.Tags[1].Name
			}
			fmt.Fprintf(&b, "%d:%q,%q,%q,%d,%s,%d%s,%d,%d;", id, m.Name, m.Description, tag1, m.NamespaceID, grp, rank(m.Version),
				c20HistSummary(w, journalEventID{typ: format.MetricEvent, id: int64(id)}, m.Version), m.UpdateTime, len(m.Tags))
		}
		b.WriteString("|n")
		names := make([]string, 0, len(ms.metricsByName))
		for n := range ms.metricsByName {
			names = append(names, n)
		}
		sort.Strings(names)
		for _, n := range names {
			m := ms.metricsByName[n]
			if nameCount[n] > 1 {
				fmt.Fprintf(&b, "%q>dup;", n)
			} else {
				fmt.Fprintf(&b, "%q>%d,%v;", n, m.MetricID, ms.metricsByID[m.MetricID] == m)
			}
		}
		b.WriteString("|g")
		gids := make([]int, 0)
		for id := range ms.groupsByID {
			if id > 0 {
				gids = append(gids, int(id))
			}
		}
		sort.Ints(gids)
		for _, id := range gids {
			g := ms.groupsByID[int32(id)]
			fmt.Fprintf(&b, "%d:%q,%v,%v,%d,%d,%d%s;", id, g.Name, g.Disable, g.Weight, g.NamespaceID, g.UpdateTime, rank(g.Version),
				c20HistSummary(w, journalEventID{typ: format.MetricsGroupEvent, id: int64(id)}, g.Version))
		}
		b.WriteString("|gn")
		gnames := make([]string, 0)
		for n, g := range ms.groupsByName {
			if g.ID > 0 {
				gnames = append(gnames, n)
			}
		}
		sort.Strings(gnames)
		for _, n := range gnames {
			g := ms.groupsByName[n]
			if groupNameCount[n] > 1 {
				fmt.Fprintf(&b, "%q>dup;", n)
			} else {
				fmt.Fprintf(&b, "%q>%d,%v;", n, g.ID, ms.groupsByID[g.ID] == g)
			}
		}
		b.WriteString("|go")
		ord := make([]string, 0, len(ms.groupsOrdered))
		for i, g := range ms.groupsOrdered {
			// position matters only relative to other names; equal names are an unordered set
			_ = i
			ord = append(ord, fmt.Sprintf("%q#%d,%v", g.Name, g.ID, g.Disable))
		}
		if !sort.SliceIsSorted(ms.groupsOrdered, func(a, c int) bool { return ms.groupsOrdered[a].Name > ms.groupsOrdered[c].Name }) {
			b.WriteString("UNSORTED:" + strings.Join(ord, ";"))
		} else {
			sort.Strings(ord) // canonical order inside runs of equal names; distinct names keep a fixed order too
			b.WriteString(strings.Join(ord, ";"))
		}
		b.WriteString("|s")
		nids := make([]int, 0)
		for id := range ms.namespaceByID {
			if id > 0 {
				nids = append(nids, int(id))
			}
		}
		sort.Ints(nids)
		for _, id := range nids {
			n := ms.namespaceByID[int32(id)]
			fmt.Fprintf(&b, "%d:%q,%v,%d,%d%s;", id, n.Name, n.Weight, n.UpdateTime, rank(n.Version),
				c20HistSummary(w, journalEventID{typ: format.NamespaceEvent, id: int64(id)}, n.Version))
		}
		b.WriteString("|sn")
		nnames := make([]string, 0)
		for n, v := range ms.namespaceByName {
			if v.ID > 0 {
				nnames = append(nnames, fmt.Sprintf("%q>%d", n, v.ID))
			}
		}
		sort.Strings(nnames)
		b.WriteString(strings.Join(nnames, ";"))
	}
	h := xxh3.HashString128(b.String()).Bytes() // 128 bits: collisions among <10^8 states are out of the question
	return string(h[:])
}

// c20HistSummary: for a version held by a replica that is not the entity's latest one, whether
// the oracle would accept it (same compact content as the latest). Part of the key because the
// oracle's verdict on a future state depends on it.
func c20HistSummary(w *c20World, k journalEventID, v int64) string {
	e := w.entity(k)
	if e == nil || !e.exists {
		return "!unknown"
	}
	if v == e.ver {
		return ""
	}
	if e.acceptable(v) {
		return "~"
	}
	return "!"
}

type c20EntRef struct {
	typ int32
	id  int64
	e   *c20Entity
}

func (w *c20World) entities() []c20EntRef {
	var out []c20EntRef
	for i := 0; i < w.nMetrics; i++ {
		out = append(out, c20EntRef{format.MetricEvent, int64(i + 1), &w.metrics[i]})
	}
	for i := 0; i < w.nGroups; i++ {
		out = append(out, c20EntRef{format.MetricsGroupEvent, int64(i + 1), &w.groups[i]})
	}
	if w.ns.exists {
		out = append(out, c20EntRef{format.NamespaceEvent, c20NsID, &w.ns})
	}
	return out
}

func (w *c20World) entity(k journalEventID) *c20Entity {
	switch k.typ {
	case format.MetricEvent:
		if k.id >= 1 && int(k.id) <= w.nMetrics {
			return &w.metrics[k.id-1]
		}
	case format.MetricsGroupEvent:
		if k.id >= 1 && int(k.id) <= w.nGroups {
			return &w.groups[k.id-1]
		}
	case format.NamespaceEvent:
		if k.id == c20NsID && w.ns.exists {
			return &w.ns
		}
	}
	return nil
}

// ---------------------------------------------------------------------------------------------
// oracle

const c20KnownSig = "C20:name-index-entry-of-other-metric-deleted"

// findings whose signature starts with "note:" are observations outside the statement
const c20NoteGroupIndex = "note:group-name-index-entry-of-other-group-deleted"

type c20Finding struct {
	sig, desc string
}

// expectedGroup is the statement's rule, written independently of calcGroupForMetricLocked: among
// the enabled user groups whose name is a prefix of the metric name, the one with the longest name
// (source group names are unique, so there is no tie); 0 = no such group.
func (w *c20World) expectedGroup(metricName string) int32 {
	best, bestLen := int32(0), -1
	for i := 0; i < w.nGroups; i++ {
		g := &w.groups[i]
		if g.disabled || !strings.HasPrefix(metricName, g.name) {
			continue
		}
		if len(g.name) > bestLen {
			best, bestLen = int32(i+1), len(g.name)
		}
	}
	return best
}

func c20DrainAll(to, from *JournalFast) {
	for i := 0; ; i++ {
		if c20Deliver(to, from, 0, 0) == 0 {
			return
		}
		if i > 1000 {
			panic("harness: drain does not terminate")
		}
	}
}

func c20SameEntries(a, b *JournalFast) string {
	if len(a.journal) != len(b.journal) {
		return fmt.Sprintf("%d vs %d entries", len(a.journal), len(b.journal))
	}
	for id, e1 := range a.journal {
		e2, ok := b.journal[id]
		if !ok {
			return fmt.Sprintf("entry %s missing", id.key())
		}
		x, y := e1.Event, e2.Event
		x.Metadata, y.Metadata = "", "" // not serialized when its field-mask bit is clear (never set here)
		x.Version, y.Version = 0, 0     // every other field counts, update time included (the harness's own comparison, not the code's)
		if x != y {
			return fmt.Sprintf("entry %s differs: %+v vs %+v", id.key(), e1.Event, e2.Event)
		}
	}
	return ""
}

// c20Judge drains all deliveries and evaluates the four clauses. It returns the findings in a
// fixed priority order; the known defect's signature comes last so that it never hides another.
//
// memo (may be nil) avoids repeating work whose result is a function of what it is keyed by:
//   - drained: canonical key of the drained state (+ everHeld) -> findings. Everything below reads
//     only the drained world, which the key describes completely (see c20Key);
//   - fresh: the subsequence of source operations of the history -> the brand-new compact replica
//     of that source journal (equal subsequences give identical source journals, including the
//     version numbers). It is only read after construction.
func c20Judge(w *c20World, memo *c20Memo) []c20Finding {
	var out []c20Finding
	add := func(sig, f string, args ...any) {
		out = append(out, c20Finding{"C20:" + sig, fmt.Sprintf(f, args...)})
	}
	c20DrainAll(w.cmp, w.src)
	c20DrainAll(w.agt, w.cmp)
	var dk string
	if memo != nil {
		dk = c20Key(w) + w.heldString()
		if v, ok := memo.drained.Load(dk); ok {
			memo.drainedHits.Add(1)
			return v.([]c20Finding)
		}
		defer func() { memo.drained.Store(dk, out) }()
	}

	ents := w.entities()
	type replica struct {
		name string
		j    *JournalFast
		ms   *MetricsStorage
	}
	// brand-new replicas of the same journals
	var fc *JournalFast // compact replica of the source, everything in one response
	var fcMS *MetricsStorage
	if memo != nil {
		if v, ok := memo.fresh.Load(string(w.srcOps)); ok {
			fc, fcMS = v.(*c20Fresh).j, v.(*c20Fresh).ms
		}
	}
	if fc == nil {
		fc, fcMS = c20NewReplica(true)
		c20DrainAll(fc, w.src)
		if memo != nil {
			memo.fresh.Store(string(w.srcOps), &c20Fresh{fc, fcMS})
		}
	}
	fa, faMS := c20NewReplica(false) // agent replica of the compact journal, pages of one item
	for c20Deliver(fa, w.cmp, 1, data_model.MaxJournalBytesSent) != 0 {
	}
	fb, fbMS := c20NewReplica(false) // agent replica of the compact journal, pages cut by the byte limit
	for c20Deliver(fb, w.cmp, data_model.MaxJournalItemsSent, 1) != 0 {
	}
	replicas := []replica{{"compact", w.cmp, w.cmpMS}, {"agent", w.agt, w.agtMS},
		{"fresh-compact", fc, fcMS}, {"fresh-agent-item-pages", fa, faMS}, {"fresh-agent-byte-pages", fb, fbMS}}
	// each long-lived replica once more through the real Save format (single chunk) and load
	for _, r := range replicas[:2] {
		j2, ms2, _ := c20Reload(r.j, c20CutIntact, true)
		replicas = append(replicas, replica{r.name + "-after-real-save-load", j2, ms2})
		if j2.loaderVersion != r.j.loaderVersion || j2.currentVersion != r.j.currentVersion {
			add("save-load-changes-versions", "%s: versions (current %d, loader %d) become (%d, %d) after save+load of the intact file",
				r.name, r.j.currentVersion, r.j.loaderVersion, j2.currentVersion, j2.loaderVersion)
		}
	}

	// clause 1: every replica holds the source's latest version of every entity
	for _, r := range replicas {
		if len(r.j.journal) != len(ents) {
			add("replica-entity-set-differs", "%s journal has %d entries, the source has %d entities", r.name, len(r.j.journal), len(ents))
		}
		for _, e := range ents {
			k := journalEventID{typ: e.typ, id: e.id}
			ev, ok := r.j.journal[k]
			if !ok {
				add("replica-misses-entity", "%s journal has no entry for %s", r.name, k.key())
				continue
			}
			if ev.Name != e.e.name {
				add("replica-stale-entity", "%s journal holds %s with name %q, source's latest name is %q", r.name, k.key(), ev.Name, e.e.name)
			}
			if !e.e.acceptable(ev.Version) {
				add("replica-version-not-latest", "%s journal holds %s at version %d, which is not a source version of it with the latest (compact) content; latest is %d",
					r.name, k.key(), ev.Version, e.e.ver)
			}
			switch e.typ {
			case format.MetricEvent:
				m := r.ms.GetMetaMetric(int32(e.id))
				if m == nil {
					add("replica-misses-entity", "%s GetMetaMetric(%d) is nil", r.name, e.id)
					continue
				}
				tag1 := ""
				if len(m.Tags) > 1 {
					tag1 = m.Tags[1].Name
				}
				wantTag := ""
				if e.e.vis {
					wantTag = "k"
				}
				if m.Name != e.e.name || tag1 != wantTag || m.MetricID != int32(e.id) || m.Disable {
					add("replica-stale-entity", "%s GetMetaMetric(%d) = {name %q tag1 %q}, source's latest is {name %q tag1 %q}", r.name, e.id, m.Name, tag1, e.e.name, wantTag)
				}
				if !e.e.acceptable(m.Version) {
					add("replica-version-not-latest", "%s GetMetaMetric(%d).Version = %d, latest is %d", r.name, e.id, m.Version, e.e.ver)
				}
				// the repository's own definition of "same in compact form"
				full, err := MetricMetaFromEvent(c20MetricEvent(int32(e.id), e.e, e.e.ver))
				if err != nil {
					panic(err)
				}
				full.GroupID = m.GroupID // judged by clause 3
				if !format.SameCompactMetric(full, m) {
					add("replica-stale-entity", "%s GetMetaMetric(%d) is not SameCompactMetric with the source's latest version", r.name, e.id)
				}
			case format.MetricsGroupEvent:
				g := r.ms.GetGroup(int32(e.id))
				if g == nil {
					add("replica-misses-entity", "%s GetGroup(%d) is nil", r.name, e.id)
					continue
				}
				wantW := 1.0
				if e.e.heavy {
					wantW = 2
				}
				if g.Name != e.e.name || g.Disable != e.e.disabled || g.Weight != wantW {
					add("replica-stale-entity", "%s GetGroup(%d) = {%q disable %v weight %v}, source's latest is {%q disable %v weight %v}",
						r.name, e.id, g.Name, g.Disable, g.Weight, e.e.name, e.e.disabled, wantW)
				}
				if g.UpdateTime != e.e.updateTime(false) || ev.UpdateTime != e.e.updateTime(false) {
					add("replica-stale-update-time", "%s holds group %d with update time %d (journal) / %d (GetGroup), the source's latest save of it has %d: the compact form of a group keeps the update time",
						r.name, e.id, ev.UpdateTime, g.UpdateTime, e.e.updateTime(false))
				}
				if !e.e.acceptable(g.Version) {
					add("replica-version-not-latest", "%s GetGroup(%d).Version = %d, latest is %d", r.name, e.id, g.Version, e.e.ver)
				}
			case format.NamespaceEvent:
				n := r.ms.GetNamespace(int32(e.id))
				if n == nil {
					add("replica-misses-entity", "%s GetNamespace(%d) is nil", r.name, e.id)
					continue
				}
				wantW := 1.0
				if e.e.heavy {
					wantW = 2
				}
				if n.Name != e.e.name || n.Weight != wantW {
					add("replica-stale-entity", "%s GetNamespace(%d) = {%q weight %v}, source's latest is {%q weight %v}", r.name, e.id, n.Name, n.Weight, e.e.name, wantW)
				}
				if n.UpdateTime != e.e.updateTime(false) || ev.UpdateTime != e.e.updateTime(false) {
					add("replica-stale-update-time", "%s holds namespace %d with update time %d (journal) / %d (GetNamespace), the source's latest save of it has %d: the compact form of a namespace keeps the update time",
						r.name, e.id, ev.UpdateTime, n.UpdateTime, e.e.updateTime(false))
				}
				if !e.e.acceptable(n.Version) {
					add("replica-version-not-latest", "%s GetNamespace(%d).Version = %d, latest is %d", r.name, e.id, n.Version, e.e.ver)
				}
			}
		}
	}
	// replicas of one journal hold equal entries (ignoring versions, as the state hash does) ...
	for _, r := range replicas[1:] {
		if d := c20SameEntries(w.cmp, r.j); d != "" {
			add("replica-entries-differ", "compact vs %s: %s", r.name, d)
		}
	}
	// clause 2: ... and have identical state hashes
	_, hc := w.cmp.VersionHash()
	for _, r := range replicas[1:] {
		if _, h := r.j.VersionHash(); h != hc {
			add("state-hash-mismatch", "VersionHash of %s is %s, of the compact replica %s, although both hold the same entities", r.name, h, hc)
		}
	}
	// the hash must be a function of the content: recompute it from the entries
	for _, r := range replicas {
		var x xxh3.Uint128
		for _, ev := range r.j.journal {
			_, h := hashWithoutVersionJournalEvent(nil, ev.Event)
			x.Hi ^= h.Hi
			x.Lo ^= h.Lo
		}
		if x != r.j.stateHash {
			add("state-hash-mismatch", "%s: incrementally maintained state hash differs from the hash of its entries", r.name)
		}
	}
	// clause 3: group of each metric
	for _, r := range replicas {
		for i := 0; i < w.nMetrics; i++ {
			want := w.expectedGroup(w.metrics[i].name)
			for _, via := range []string{"id", "name"} {
				var m *format.MetricMetaValue
				if via == "id" {
					m = r.ms.GetMetaMetric(int32(i + 1))
				} else {
					m = r.ms.GetMetaMetricByName(w.metrics[i].name)
				}
				if m == nil || m.MetricID != int32(i+1) {
					continue // clauses 1 and 4
				}
				if want != 0 && m.GroupID != want {
					add("metric-in-wrong-group", "%s: metric %d %q (looked up by %s) has GroupID %d, the enabled user group with the longest matching prefix is %d %q",
						r.name, i+1, m.Name, via, m.GroupID, want, w.groups[want-1].name)
				}
				// no enabled user group matches: the statement names no group; a user group is wrong in any case
				if want == 0 && m.GroupID > 0 {
					add("metric-in-wrong-group", "%s: metric %d %q (looked up by %s) has user GroupID %d although no enabled user group matches its name",
						r.name, i+1, m.Name, via, m.GroupID)
				}
			}
		}
	}
	// clause 4: lookup by name, for every live metric
	var known []c20Finding
	for _, r := range replicas {
		for i := 0; i < w.nMetrics; i++ {
			name := w.metrics[i].name
			m := r.ms.GetMetaMetricByName(name)
			if m != nil && m.MetricID == int32(i+1) {
				continue
			}
			byID := r.ms.GetMetaMetric(int32(i + 1))
			if m == nil && byID != nil && byID.Name == name && w.everHeld[name]&^(1<<uint(i)) != 0 {
				// exactly the known pattern: the metric is there and has the name, the name was
				// held by another metric before, and the index entry is gone
				known = append(known, c20Finding{c20KnownSig, fmt.Sprintf("%s: GetMetaMetricByName(%q) is nil although metric %d holds that name (GetMetaMetric(%d).Name = %q); the name was held by another metric before and that metric's later event removed the index entry",
					r.name, name, i+1, i+1, byID.Name)})
				continue
			}
			if m == nil {
				add("name-lookup-missing", "%s: GetMetaMetricByName(%q) is nil, metric %d holds that name", r.name, name, i+1)
			} else {
				add("name-lookup-wrong-metric", "%s: GetMetaMetricByName(%q) returns metric %d %q, metric %d holds that name", r.name, name, m.MetricID, m.Name, i+1)
			}
		}
	}
	// Not asserted (the statement speaks of looking up METRICS by name): the same unconditional
	// delete exists for groupsByName. Counted as an observation, never a verdict.
	for _, r := range replicas {
		for i := 0; i < w.nGroups; i++ {
			if g := r.ms.GetGroupByName(w.groups[i].name); g == nil || g.ID != int32(i+1) {
				out = append(out, c20Finding{c20NoteGroupIndex, fmt.Sprintf("%s: GetGroupByName(%q) does not return group %d, which holds that name (GetGroup(%d) is present and correct)", r.name, w.groups[i].name, i+1, i+1)})
			}
		}
	}
	out = append(out, known...)
	return out
}

type c20Fresh struct {
	j  *JournalFast
	ms *MetricsStorage
}

type c20Memo struct {
	drained, fresh sync.Map
	drainedHits    atomic.Int64
}

func (w *c20World) heldString() string {
	held := make([]string, 0, len(c20MetricNames))
	for _, n := range c20MetricNames {
		held = append(held, fmt.Sprint(w.everHeld[n]))
	}
	return "|" + strings.Join(held, ",")
}

// c20Observation: what the drained replicas answer (to count distinct outcomes).
func c20Observation(w *c20World) string {
	var b strings.Builder
	for _, ms := range []*MetricsStorage{w.cmpMS, w.agtMS} {
		for _, n := range c20MetricNames {
			if m := ms.GetMetaMetricByName(n); m != nil {
				fmt.Fprintf(&b, "%s>%d/%d;", n, m.MetricID, m.GroupID)
			} else {
				fmt.Fprintf(&b, "%s>nil;", n)
			}
		}
		for g := 1; g <= c20MaxGroups; g++ {
			if v := ms.GetGroup(int32(g)); v != nil {
				fmt.Fprintf(&b, "g%d=%s,%v;", g, v.Name, v.Disable)
			}
		}
	}
	_, h := w.cmp.VersionHash()
	return b.String() + h
}

// ---------------------------------------------------------------------------------------------
// driver

type c20Collector struct {
	mu    sync.Mutex
	count map[string]int64
	best  map[string][]int // shortest, then lexicographically smallest history per signature
	desc  map[string]string
	// side observations that the statement does not cover (reported in parts, never a verdict)
	groupIndexLost int64
}

func c20Less(a, b []int) bool {
	if len(a) != len(b) {
		return len(a) < len(b)
	}
	for i := range a {
		if a[i] != b[i] {
			return a[i] < b[i]
		}
	}
	return false
}

func (c *c20Collector) record(hist []int, fs []c20Finding) {
	c.mu.Lock()
	defer c.mu.Unlock()
	seen := map[string]bool{}
	for _, f := range fs {
		if seen[f.sig] {
			continue
		}
		seen[f.sig] = true
		c.count[f.sig]++
		if old, ok := c.best[f.sig]; !ok || c20Less(hist, old) {
			c.best[f.sig] = append([]int{}, hist...)
			c.desc[f.sig] = f.desc
		}
	}
}

// c20Run replays a history on fresh real objects. The last operation may turn out not to be
// enabled (applicable=false); conflict is that of the last operation.
func c20Run(hist []int) (w *c20World, applicable, conflict bool) {
	w = c20NewWorld()
	for i, h := range hist {
		if !w.enabled(c20Ops[h]) {
			if i != len(hist)-1 {
				panic(fmt.Sprintf("harness: prefix of history %v not enabled at %d", hist, i))
			}
			return w, false, false
		}
		conflict = w.apply(c20Ops[h])
	}
	return w, true, conflict
}

func c20HistString(hist []int) string {
	b := make([]byte, len(hist))
	for i, h := range hist {
		b[i] = byte(h)
	}
	return string(b)
}

var c20Ballast []byte

// c20Replay runs one history given as {"operations": [labels...]} or {"history": [indexes...]}
// (also accepted: a violation object of the evidence, whose detail has these fields) 64 times
// without the explorer and reports what the oracle finds. 64 times because the code under test
// ranges over maps: an outcome that depends on Go's map iteration order shows as "k of 64".
func c20Replay(t *testing.T, rep *mc.Report, file string) {
	raw, err := os.ReadFile(file)
	if err != nil {
		t.Fatal(err)
	}
	var in struct {
		History    []int    `json:"history"`
		Operations []string `json:"operations"`
		Detail     *struct {
			History    []int    `json:"history"`
			Operations []string `json:"operations"`
		} `json:"detail"`
	}
	if err := json.Unmarshal(raw, &in); err != nil {
		t.Fatal(err)
	}
	if in.Detail != nil && len(in.History) == 0 && len(in.Operations) == 0 {
		in.History, in.Operations = in.Detail.History, in.Detail.Operations
	}
	hist := in.History
	if len(in.Operations) != 0 {
		hist = nil
		for _, l := range in.Operations {
			found := -1
			for i, op := range c20Ops {
				if op.label == l {
					found = i
				}
			}
			if found < 0 {
				t.Fatalf("unknown operation %q", l)
			}
			hist = append(hist, found)
		}
	}
	const runs = 64
	seen := map[string]int{}
	desc := map[string]string{}
	for k := 0; k < runs; k++ {
		w := c20NewWorld()
		for i, h := range hist {
			if !w.enabled(c20Ops[h]) {
				t.Fatalf("operation %d (%s) is not enabled", i, c20Ops[h].label)
			}
			w.apply(c20Ops[h])
		}
		dedup := map[string]bool{}
		for _, f := range c20Judge(w, nil) {
			if !dedup[f.sig] {
				dedup[f.sig] = true
				seen[f.sig]++
				desc[f.sig] = f.desc
			}
		}
	}
	rep.AddCounts(runs, int64(runs*len(hist)), 1, 0)
	for sig, n := range seen {
		rep.Violate(sig, desc[sig], map[string]any{"history": hist, "operations": c20Labels(hist), "reproduced": fmt.Sprintf("%d of %d replays", n, runs)})
		t.Logf("REPLAY %v: %s in %d of %d replays: %s", c20Labels(hist), sig, n, runs, desc[sig])
	}
	if len(seen) == 0 {
		t.Logf("REPLAY %v: oracle holds in %d of %d replays", c20Labels(hist), runs, runs)
	}
	rep.Sample(map[string]any{"replayed": c20Labels(hist)})
	if err := rep.Write(); err != nil {
		t.Fatal(err)
	}
}

func TestVerifC20(t *testing.T) {
	rep := mc.NewReport("C20")
	// Every execution builds ~10 short-lived journals (about 40 KB of garbage). With a live heap of
	// a few MB the collector's goal is 4 MB and the scavenger keeps handing freed pages back to the
	// OS; touching them again was most of the run time on the (virtualised) build machine. A small
	// untouched ballast raises the goal so that freed spans are reused instead.
	ballastMB := 32
	if v := os.Getenv("VERIF_C20_BALLAST_MB"); v != "" {
		fmt.Sscan(v, &ballastMB)
	}
	c20Ballast = make([]byte, ballastMB<<20)
	depth := mc.Pick(6, 8)
	if s := os.Getenv("VERIF_C20_DEPTH"); s != "" {
		fmt.Sscan(s, &depth)
	}
	rep.Bounds["max_history_length"] = depth
	rep.Bounds["operations"] = fmt.Sprintf("%d (6 of them, the unchanged re-saves, only in the re-save family)", len(c20Ops))
	rep.Bounds["metrics"] = c20MaxMetrics
	rep.Bounds["groups"] = c20MaxGroups
	rep.Bounds["namespaces"] = 1
	rep.Bounds["metric_name_pool"] = c20MetricNames
	rep.Bounds["group_name_pool"] = c20GroupNames
	rep.Bounds["file_damage"] = []string{"intact", "cut by one byte", "cut in the middle", "emptied", "ends exactly after chunk k, every 1 <= k < number of chunks (one chunk per event)"}
	rep.Rule = "BFS over all histories of the operation alphabet up to the length bound on the real JournalFast/MetricsStorage chain source->compact->agent, " +
		"states merged by canonical key; after every history all deliveries are drained and the oracle is evaluated. " +
		"A transition is non-trivial when its operation conflicts with the state it is applied to: it takes a name that a replica still attributes to another entity, " +
		"it edits an entity of which a replica holds an older version, it delivers one event of several pending ones, or it restarts a replica from a file that lost events."
	rep.Assume("chunk boundaries between events are produced by the harness (ChunkedStorage2.FinishItem only flushes after 512 KB): the damaged files are what a long journal looks like in small")
	rep.Assume("save+reload is atomic (as in FuzzCompactJournal); a restart from an older file equals a lagging replica that reloads now")
	rep.Assume("source names are unique per entity type at every moment (the metadata engine enforces it); namespaces are never renamed (SaveNamespace rejects it)")
	rep.Assume("ChunkedStorage2 objects are recycled between executions (VerifC20Rewind restores the constructor's state; the scratch buffer is not re-zeroed)")

	col := &c20Collector{count: map[string]int64{}, best: map[string][]int{}, desc: map[string]string{}}
	if f := os.Getenv("VERIF_REPLAY"); f != "" {
		c20Replay(t, rep, f)
		return
	}
	// enabledMemo: parent history -> bit set of enabled operations. The engine asks for every
	// (state, operation) pair; deciding enabledness needs the parent state, which is computed
	// once per parent instead of once per pair.
	var enabledMemo sync.Map
	// judgeMemo: the oracle's findings are a function of the state (everything the drain and the
	// getters read is in the canonical key; the classification of the known defect additionally
	// reads everHeld), so each distinct state is judged once; every history reaching it is
	// still counted and recorded with those findings.
	var judgeMemo sync.Map
	var judged, judgeHits atomic.Int64
	memo := &c20Memo{}
	allowed := ^uint64(0) // operations of the family being explored
	run := func(hist []int) mc.StepResult {
		if n := len(hist); n > 0 {
			if allowed&(1<<uint(hist[n-1])) == 0 {
				return mc.StepResult{Applicable: false}
			}
			pk := c20HistString(hist[:n-1])
			mv, ok := enabledMemo.Load(pk)
			if !ok {
				pw, _, _ := c20Run(hist[:n-1])
				var mask uint64
				for i, op := range c20Ops {
					if pw.enabled(op) {
						mask |= 1 << uint(i)
					}
				}
				mv = mask
				enabledMemo.Store(pk, mv)
			}
			if mv.(uint64)&(1<<uint(hist[n-1])) == 0 {
				return mc.StepResult{Applicable: false}
			}
		}
		w, ok, conflict := c20Run(hist)
		if !ok {
			panic(fmt.Sprintf("harness: history %v: enabledness memo disagrees with replay", hist))
		}
		key := c20Key(w)
		mk := key + w.heldString()
		var fs []c20Finding
		if v, ok := judgeMemo.Load(mk); ok {
			fs = v.([]c20Finding)
			judgeHits.Add(1)
		} else {
			fs = c20Judge(w, memo) // drains: w is not used as a state afterwards
			rep.Outcome(c20Observation(w))
			if _, loaded := judgeMemo.LoadOrStore(mk, fs); !loaded {
				judged.Add(1)
			}
		}
		if len(fs) != 0 {
			col.record(hist, fs)
		}
		// Violations are collected here (minimal history per signature, confirmed by replays
		// below) and the state is still expanded: the engine stops expanding a violating state,
		// and the known defect would then hide everything behind it.
		return mc.StepResult{Applicable: true, Key: key, Nontrivial: conflict}
	}
	if len(c20Ops) > 64 {
		t.Fatal("harness: enabledness mask is 64 bits")
	}
	// Rename family: name hand-overs between two metrics need longer histories than the full
	// alphabet reaches (a name is given up, taken by the other metric, given up again and taken
	// back, with partial deliveries to the compact replica in between: the shortest such history
	// has 8 operations). The same BFS and the same oracle over the sub-alphabet {create-metric,
	// rename-metric, deliver} (20 operations), deeper. It runs first: the deepest level of the
	// full alphabet may use up the wall budget of the thorough tier.
	allowed = 0
	for i, op := range c20Ops {
		switch {
		case op.kind == c20OpCreateMetric, op.kind == c20OpRenameMetric, op.kind == c20OpDeliver:
			allowed |= 1 << uint(i)
		}
	}
	renameDepth := mc.Pick(10, 11)
	if s := os.Getenv("VERIF_C20_RENAME_DEPTH"); s != "" {
		fmt.Sscan(s, &renameDepth)
	}
	rep.Bounds["rename_family_max_history_length"] = renameDepth
	rstats := mc.BFS(run, mc.BFSOptions{NumOps: len(c20Ops), MaxDepth: renameDepth})
	rstats.Samples = nil
	rep.MergeBFS("rename_family_histories", rstats)
	// Re-save family: an entity is saved again with byte-identical content, so that only its version and update time
	// move ("save" pressed without changes). A compact journal drops an incoming event that equals the stored one
	// (equalWithoutVersionJournalEvent in applyUpdate); whether "equals" there agrees with what the state hash covers and
	// with what the compact form keeps (the update time of groups and namespaces, not of metrics) shows only when one
	// replica meets the re-save while holding the earlier save and another one first sees the entity afterwards - the
	// oracle's brand-new replicas are the latter. Sub-alphabet: create metric (2 names) / create group (2 names) / toggle group /
	// namespace create-or-edit (content changes between re-saves) / re-save of every metric, group and the namespace /
	// deliver / save+reload intact or emptied (a replica that lost its file learns everything anew). Same BFS, same oracle.
	allowed = 0
	for i, op := range c20Ops {
		switch op.kind {
		case c20OpToggleGroup, c20OpNamespace, c20OpResave, c20OpDeliver:
			allowed |= 1 << uint(i)
		case c20OpCreateMetric, c20OpCreateGroup:
			if op.a < 2 { // names a1, ab1 / a, ab: which name an entity has plays no part in a re-save
				allowed |= 1 << uint(i)
			}
		case c20OpReload:
			if op.b == c20CutIntact || op.b == c20CutEmpty {
				allowed |= 1 << uint(i)
			}
		}
	}
	resaveDepth := mc.Pick(5, 8)
	if s := os.Getenv("VERIF_C20_RESAVE_DEPTH"); s != "" {
		fmt.Sscan(s, &resaveDepth)
	}
	rep.Bounds["resave_family_max_history_length"] = resaveDepth
	sstats := mc.BFS(run, mc.BFSOptions{NumOps: len(c20Ops), MaxDepth: resaveDepth})
	sstats.Samples = nil
	rep.MergeBFS("resave_family_histories", sstats)
	t.Logf("C20 resave family: depth %d states=%d transitions=%d per-level=%v nontrivial=%d caps=%v", resaveDepth, sstats.States, sstats.Transitions, sstats.PerLevel, sstats.Nontrivial, sstats.Caps)

	// the full alphabet, without the re-save operations (they have their own family above)
	allowed = ^uint64(0)
	for i, op := range c20Ops {
		if op.kind == c20OpResave {
			allowed &^= 1 << uint(i)
		}
	}

	stats := mc.BFS(run, mc.BFSOptions{NumOps: len(c20Ops), MaxDepth: depth})
	stats.Samples = nil // the engine's samples are the first arrivals (order of goroutines); fixed ones are added below
	rep.MergeBFS("histories", stats)

	sigs := make([]string, 0, len(col.best))
	for s := range col.best {
		sigs = append(sigs, s)
	}
	sort.Strings(sigs)
	counts := map[string]int64{}
	notes := map[string]any{}
	for _, sig := range sigs {
		hist := col.best[sig]
		counts[sig] = col.count[sig]
		// determinism: the minimal history must reproduce the same signature five times. The harness
		// has no nondeterminism of its own; if a finding does not reproduce every time, the outcome
		// depends on Go's map iteration order inside the code under test (MetricsStorage rebuilds
		// indexes by ranging over maps). It was observed on a real execution, so it is reported,
		// together with how often it reproduces.
		reproduced, replays := 0, 5
		for k := 0; k < replays; k++ {
			w, _, _ := c20Run(hist)
			for _, f := range c20Judge(w, nil) {
				if f.sig == sig {
					reproduced++
					break
				}
			}
			if k == 4 && reproduced != 5 {
				replays = 64
			}
		}
		how := fmt.Sprintf("%d of %d replays", reproduced, replays)
		if reproduced != replays {
			how += " (the outcome depends on map iteration order inside the code under test)"
		}
		if strings.HasPrefix(sig, "note:") {
			notes[sig] = map[string]any{"histories": col.count[sig], "example": c20Labels(hist), "what": col.desc[sig]}
			delete(counts, sig)
			continue
		}
		rep.Violate(sig, col.desc[sig], map[string]any{"history": hist, "operations": c20Labels(hist), "histories_with_this_signature": col.count[sig], "reproduced": how})
	}
	rep.Parts["violating_histories_by_signature"] = counts
	rep.Parts["observations_not_asserted"] = notes
	rep.Parts["oracle"] = map[string]any{"states_judged": judged.Load(), "histories_reaching_an_already_judged_state": judgeHits.Load(),
		"states_draining_to_an_already_judged_drained_state": memo.drainedHits.Load()}
	// a few histories of the explored set, with what they drain to
	for _, labels := range [][]string{
		{"create-metric(ab1)", "create-group(a)", "create-group(ab)", "deliver-1-to-compact", "toggle-group-disable(2)", "deliver-all-to-compact"},
		{"create-metric(a1)", "edit-metric-invisible(1)", "deliver-1-to-compact", "deliver-1-to-agent", "save-reload-agent(emptied)", "edit-metric-visible(1)"},
		{"create-metric(a1)", "create-metric(b1)", "namespace-create-or-edit", "deliver-all-to-compact", "save-reload-compact(cut-middle)", "rename-metric(2->ab1)"},
	} {
		var hist []int
		for _, l := range labels {
			for i, op := range c20Ops {
				if op.label == l {
					hist = append(hist, i)
				}
			}
		}
		if len(hist) != len(labels) || len(hist) > depth {
			continue
		}
		w := c20NewWorld()
		ok := true
		for _, h := range hist {
			if ok = w.enabled(c20Ops[h]); !ok {
				break
			}
			w.apply(c20Ops[h])
		}
		if !ok {
			continue
		}
		fs := c20Judge(w, nil)
		rep.Sample(map[string]any{"operations": labels, "findings": len(fs), "drained_observation(name>metric/group;groups;state hash)": c20Observation(w)})
	}
	if err := rep.Write(); err != nil {
		t.Fatal(err)
	}
	t.Logf("C20: depth %d, %d ops, states=%d transitions=%d per-level=%v nontrivial=%d judged=%d violations=%v caps=%v",
		depth, len(c20Ops), stats.States, stats.Transitions, stats.PerLevel, stats.Nontrivial, judged.Load(), counts, stats.Caps)
}
