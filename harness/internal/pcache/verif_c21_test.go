//go:build verif

package pcache

// C21 (mapping cache half): the cache never returns a value for a string other than the value added for it,
// never returns marker values, never grows beyond its configured size, keeps sumSize/sumTS exact, and reloads
// from its saved file to the saved contents.
//
// Explicit-state BFS over {add(k,v), marker adds, batch adds, get(k), getBytes(k)+buffer reuse, removeByTTL(1|all), setSizeTTL(6 configs),
// clock +1/+3, save, reload} with 4 keys of different sizes, injected time (nowUnix is an argument everywhere).
// Storage faults: save!storage-call#k-fails(nothing|half|all applied) for every call k a Save makes on its storage
// (WriteAt, Truncate), a bounded number per history; a Save that returns err == nil is always held to "the file
// reloads to the cache's contents / nothing was inserted and no Save failed since the last Save that wrote".
// c21LargeSaves repeats the fault alphabet on a cache whose Save writes three chunks.
//
// AddValues and RemoveByTTL pick eviction candidates by ranging over the Go map, whose order the runtime
// randomises. That choice is enumerated, not sampled: every state is a value (all fields of MappingsCache that
// matter), and an order-dependent operation is executed on one fresh cache per permutation of the keys, built by
// inserting the keys in that order (a small Go map iterates its slots in insertion order, rotated by a random
// offset). After the call the candidates the code visited are still in c.itemCache; an execution is kept only
// if they are the first elements of the intended permutation (otherwise the rotation was not 0 and the attempt is
// repeated), so every visiting order is executed exactly once and the set of successor states is deterministic.
// mc.BFS replays histories and needs deterministic replays, so the search loop is local to this file.

import (
	"fmt"
	"math"
	"runtime"
	"sort"
	"strings"
	"sync"
	"sync/atomic"
	"testing"

	"github.com/VKCOM/statshouse/internal/data_model"
	"github.com/VKCOM/statshouse/internal/format"
	"github.com/VKCOM/statshouse/internal/verif/mc"
)

type c21Item struct {
	k  string
	v  int32
	ts uint32
}

// c21State is a value copy of everything in MappingsCache the operations read.
type c21State struct {
	items            []c21Item // sorted by key
	sumSize, sumTS   int64     // the implementation's counters (may disagree with a recount: that is a violation)
	maxSize, maxTTL  int64
	now              uint32
	dirty            bool      // the implementation's flag version != lastSavedVersion, read from the real object after every step and put back by c21Build
	refDirty         bool      // reference: a string was inserted since the last Save that returned (true, nil) / the last reload
	file             []byte    // bytes of the saved file (nil = never saved)
	saved            []c21Item // reference: contents at the last Save that reported true (after a reload of a damaged file: what it loaded to)
	faults           int       // storage faults injected so far in this history (bounded by c21Search.faultBudget)
	damaged          bool      // a Save failed since the last Save that reported true: the file is one of its crash images
	outstanding      bool      // a Save of this cache object failed and none has reported true since (a reload starts a new object)
	alts             [][]c21Item // contents of the cache at each failed Save since then: a damaged file may hold one of them instead of saved
	stor             data_model.VerifC21Snap // the storage object's own state (size of the file when it was opened, position, hash, write error ...) as left by the last Save / reload of this history: ONE storage object lives from a (re)load to the next reload, c21Build resumes it instead of opening a new one
	root             string // the configuration the cache object of this history was constructed with
	hist             []string
	k                string
	evicted          bool // the step into this state went through the eviction path (statistics only)
}

func (s *c21State) key() string {
	if s.k != "" {
		return s.k
	}
	s.k = s.computeKey()
	return s.k
}

func (s *c21State) computeKey() string {
	var b strings.Builder
	for _, it := range s.items {
		fmt.Fprintf(&b, "%s=%d@%d,", it.k, it.v, int64(s.now)-int64(it.ts))
	}
	fmt.Fprintf(&b, "|%d,%d|%d,%d|%v|", s.sumSize, s.sumTS-int64(len(s.items))*int64(s.now), s.maxSize, s.maxTTL, s.dirty)
	if s.file == nil {
		b.WriteString("nofile")
	}
	for _, it := range s.saved {
		fmt.Fprintf(&b, "%s=%d@%d,", it.k, it.v, int64(s.now)-int64(it.ts))
	}
	fmt.Fprintf(&b, "|%v,%d,%v,%v|%s", s.refDirty, s.faults, s.damaged, s.outstanding, s.stor.Key())
	if s.damaged {
		// Without a failed Save the file is a function of saved (Save writes in sorted order), and shifting all times is
		// a symmetry. A crash image of a failed Save is not: it is kept literally (its absolute access times included, so
		// damaged states at different clock values stay apart - more states, never a wrong merge).
		for _, a := range s.alts {
			b.WriteString("|alt:")
			for _, it := range a {
				fmt.Fprintf(&b, "%s=%d@%d,", it.k, it.v, int64(s.now)-int64(it.ts))
			}
		}
		fmt.Fprintf(&b, "|file:%x", s.file)
	}
	return b.String()
}

// c21Stores recycles slice-backed storage objects made by the real constructor (1 MB of scratch each); see
// data_model/verif_c21_export.go. Open() puts the object into the state of a new one over the given file bytes.
var c21Stores = sync.Pool{New: func() any { return data_model.VerifC21NewReader() }}

// c21Build makes a fresh real cache holding the state, its map filled in the given key order.
func c21Build(s *c21State, order []int, store *data_model.VerifC21Reader) *MappingsCache {
	var st *data_model.ChunkedStorage2
	if store != nil {
		st = store.Resume(s.file, s.stor) // the object opened at the last (re)load lives on; the first state opens an absent file
	}
	c := NewMappingsCache(st, s.maxSize, int(s.maxTTL))
	c.deterministic = true
	for _, i := range order {
		it := s.items[i]
		c.cache[it.k] = cacheValue{value: it.v, accessTS: it.ts}
	}
	c.sumSize, c.sumTS = s.sumSize, s.sumTS
	if s.dirty {
		c.version = 1
	}
	return c
}

// c21Load loads a file through the real loader (NewMappingsCache + load, the two steps of LoadMappingsCacheSlice). What is loaded depends on the file bytes
// only (load does not consult size or TTL), so it is executed once per distinct file; the loaded cache is only
// observed afterwards (GetValue with accessTS 0, Stats, reading the map).
func (se *c21Search) c21Load(file []byte) (*MappingsCache, error) {
	if v, ok := se.loaded.Load(string(file)); ok {
		l := v.(c21Loaded)
		return l.c, l.err
	}
	// the same steps as LoadMappingsCacheSlice, on a recycled storage object
	store := c21Stores.Get().(*data_model.VerifC21Reader)
	defer c21Stores.Put(store)
	st := store.Open(file)
	c := NewMappingsCache(st, 1000, 0)
	err := c.load(st)
	snap := store.Snapshot() // the state a cache's storage object is in right after loading this file
	c.storage = nil // the storage object goes back to the pool; the loaded cache is only observed
	c.deterministic = true
	se.loads.Add(1)
	se.loaded.Store(string(file), c21Loaded{c, err, snap})
	return c, err
}

type c21Loaded struct {
	c    *MappingsCache
	err  error
	snap data_model.VerifC21Snap
}

// c21OneOf: got equals one of the candidate contents (access times included).
func c21OneOf(got []c21Item, cands ...[]c21Item) bool {
	for _, c := range cands {
		if fmt.Sprint(got) == fmt.Sprint(c) {
			return true
		}
	}
	return false
}

var c21ErrStorage = fmt.Errorf("c21: injected storage error")

func c21Snapshot(c *MappingsCache) []c21Item {
	var out []c21Item
	for k, v := range c.cache {
		out = append(out, c21Item{strings.Clone(k), v.value, v.accessTS}) // clone: a key must not keep aliasing a caller buffer in the harness state
	}
	sort.Slice(out, func(i, j int) bool { return out[i].k < out[j].k })
	return out
}

type c21Op struct {
	name   string
	kind   int // c21Add ... c21Reload
	pairs  []MappingPair
	key    string
	over   string // what the caller writes into its buffer after a getBytes
	n      int
	size   int64
	ttl    int64
	ordDep bool
	post   bool // member of the sub-alphabet that continues a history after an injected storage fault
	frac   int // c21SaveFault: how much of the failing storage call is applied before it reports the error: 0 nothing, 1 half (WriteAt only), 2 all
}

const (
	c21Add = iota
	c21Get
	c21GetBytes // GetValueBytes on a slice of a recycled scratch buffer that the harness overwrites right after the call
	c21Remove
	c21Config
	c21Tick
	c21Save
	c21Reload
	c21SaveFault // Save during which the n-th storage call (WriteAt/Truncate, counted together) reports an error
)

func c21Ops(keys []string) []c21Op {
	val := func(i, j int) int32 { return int32(10*(i+1) + j) }
	var ops []c21Op
	for i, k := range keys {
		for j := 1; j <= 2; j++ {
			ops = append(ops, c21Op{name: fmt.Sprintf("add(%s,%d)", k, val(i, j)), kind: c21Add, pairs: []MappingPair{{Str: k, Value: val(i, j)}}, ordDep: true})
		}
	}
	for _, m := range []int32{0, format.TagValueIDMappingFlood, format.TagValueIDDoesNotExist} {
		ops = append(ops, c21Op{name: fmt.Sprintf("add(%s,%d)", keys[0], m), kind: c21Add, pairs: []MappingPair{{Str: keys[0], Value: m}}, ordDep: true})
	}
	ops = append(ops, c21Op{name: `add("",7)`, kind: c21Add, pairs: []MappingPair{{Str: "", Value: 7}}, ordDep: true})
	ops = append(ops, c21Op{name: fmt.Sprintf("add(%s,%d;%s,%d)", keys[0], val(0, 1), keys[1], val(1, 1)), kind: c21Add, pairs: []MappingPair{{Str: keys[0], Value: val(0, 1)}, {Str: keys[1], Value: val(1, 1)}}, ordDep: true})
	ops = append(ops, c21Op{name: fmt.Sprintf("add(%s,%d;%s,%d)", keys[2], val(2, 1), keys[3], val(3, 1)), kind: c21Add, pairs: []MappingPair{{Str: keys[2], Value: val(2, 1)}, {Str: keys[3], Value: val(3, 1)}}, ordDep: true})
	ops = append(ops, c21Op{name: fmt.Sprintf("add(%s,%d;%s,0;%s,%d)", keys[1], val(1, 2), keys[2], keys[3], val(3, 2)), kind: c21Add, pairs: []MappingPair{{Str: keys[1], Value: val(1, 2)}, {Str: keys[2], Value: 0}, {Str: keys[3], Value: val(3, 2)}}, ordDep: true})
	for _, k := range keys {
		ops = append(ops, c21Op{name: "get(" + k + ")", kind: c21Get, key: k})
	}
	for i, k := range keys {
		// the caller's buffer is reused after the call: with a same-length string of the probe universe, and with the next
		// key of the alphabet (different length) written from the start of the buffer
		ops = append(ops, c21Op{name: "getBytes(" + k + ");buffer:=" + c21Sibling(k), kind: c21GetBytes, key: k, over: c21Sibling(k)})
		ops = append(ops, c21Op{name: "getBytes(" + k + ");buffer:=" + keys[(i+1)%len(keys)], kind: c21GetBytes, key: k, over: keys[(i+1)%len(keys)]})
	}
	ops = append(ops, c21Op{name: "removeByTTL(maxCount=1)", kind: c21Remove, n: 1, ordDep: true})
	ops = append(ops, c21Op{name: "removeByTTL(maxCount=100)", kind: c21Remove, n: 100})
	for _, sz := range []int64{70, 112, 1000} {
		for _, ttl := range []int64{0, 2} {
			ops = append(ops, c21Op{name: fmt.Sprintf("setSizeTTL(%d,%d)", sz, ttl), kind: c21Config, size: sz, ttl: ttl})
		}
	}
	ops = append(ops, c21Op{name: "clock+1", kind: c21Tick, n: 1}, c21Op{name: "clock+3", kind: c21Tick, n: 3})
	ops = append(ops, c21Op{name: "save", kind: c21Save}, c21Op{name: "reload", kind: c21Reload})
	// storage fault alphabet: the k-th storage call of a Save fails, for every k a Save of this key universe can make
	// (one chunk: WriteAt then Truncate; an empty cache: Truncate only), with nothing / half / all of the call applied
	for k := 1; k <= 2; k++ {
		for frac, what := range []string{"nothing applied", "half written", "fully applied"} {
			ops = append(ops, c21Op{name: fmt.Sprintf("save!storage-call#%d-fails(%s)", k, what), kind: c21SaveFault, n: k, frac: frac})
		}
	}
	// after an injected fault the history continues over the operations that decide what the fault did
	// (Save, reload, a new string per key, expiry, time; further faults while the budget lasts)
	for i := range ops {
		o := &ops[i]
		o.post = o.kind == c21Save || o.kind == c21Reload || o.kind == c21SaveFault || (o.kind == c21Add && len(o.pairs) == 1 && o.pairs[0].Value%10 == 1) ||
			(o.kind == c21Remove && o.n == 100) || (o.kind == c21Tick && o.n == 1)
	}
	return ops
}

// c21Sibling is a string of the same length that is never added: it is only looked up (probe universe).
func c21Sibling(k string) string { return strings.Repeat("z", len(k)) }

var c21Scratch = sync.Pool{New: func() any { return make([]byte, 16) }}

func c21Marker(v int32) bool {
	return v == 0 || v == format.TagValueIDMappingFlood || v == format.TagValueIDDoesNotExist
}

type c21Search struct {
	rep      *mc.Report
	keys     []string
	execs    atomic.Int64
	retries  atomic.Int64
	ordRuns  atomic.Int64
	nontriv  atomic.Int64
	evicting atomic.Int64
	loads    atomic.Int64
	loaded   sync.Map // file bytes -> c21Loaded (read-only afterwards)
	depth       int
	postOnly    bool // after a fault only the operations marked post continue the history
	faultBudget int   // storage faults per history
	faultSaves  atomic.Int64
	retrySaves  atomic.Int64 // healthy Saves executed while a failed Save was outstanding
}

func c21Perms(n int) [][]int {
	if n == 0 {
		return [][]int{{}}
	}
	var out [][]int
	var rec func(cur []int, used int)
	rec = func(cur []int, used int) {
		if len(cur) == n {
			out = append(out, append([]int(nil), cur...))
			return
		}
		for i := 0; i < n; i++ {
			if used&(1<<i) == 0 {
				rec(append(cur, i), used|1<<i)
			}
		}
	}
	rec(nil, 0)
	return out
}

// c21Invariants checks what must hold in every state of a real cache object.
func (se *c21Search) c21Invariants(c *MappingsCache, s *c21State, opName string) (sig, desc string) {
	var recSize, recTS int64
	n := 0
	probe := []string{""}
	for _, k := range se.keys {
		probe = append(probe, k, c21Sibling(k))
	}
	for _, k := range probe {
		v, ok := c.GetValue(0, k) // accessTS 0 never updates the access time: a pure observation
		if !ok {
			continue
		}
		n++
		recSize += elementSizeMem(k)
		if k == "" {
			return "C21:cache-serves-empty-string", fmt.Sprintf("GetValue(\"\") returns %d", v)
		}
		if c21Marker(v) {
			return "C21:cache-serves-marker-value", fmt.Sprintf("GetValue(%q) returns marker value %d", k, v)
		}
	}
	for k, v := range c.cache {
		recTS += int64(v.accessTS)
		found := k == ""
		for _, kk := range se.keys {
			found = found || kk == k
		}
		if !found {
			return "C21:cache-holds-foreign-string", fmt.Sprintf("cache holds %q which was never added", k)
		}
	}
	elements, sumSize, avgTS, _, _, _, _ := c.Stats()
	if elements != n || sumSize != recSize {
		return "C21:cache-size-accounting", fmt.Sprintf("Stats reports %d elements, sumSize %d; a recount gives %d elements, %d", elements, sumSize, n, recSize)
	}
	wantAvg := 0.0
	if n != 0 {
		wantAvg = float64(recTS) / float64(n)
	}
	if c.sumTS != recTS || math.Abs(avgTS-wantAvg) > 1e-9 {
		return "C21:cache-access-time-accounting", fmt.Sprintf("sumTS %d (average %v); a recount gives %d (average %v)", c.sumTS, avgTS, recTS, wantAvg)
	}
	return "", ""
}

// c21Apply runs op on a fresh cache built from s in the given insertion order and evaluates the oracle.
// accepted=false means the runtime did not iterate the map in the intended order (retry).
func (se *c21Search) c21Apply(s *c21State, op *c21Op, order []int, expired map[string]bool) (next *c21State, accepted bool, sig, desc string, allVisited bool) {
	var store *data_model.VerifC21Reader
	if (op.kind == c21Save || op.kind == c21SaveFault) && s.dirty { // a Save with nothing new returns before it touches the storage
		store = c21Stores.Get().(*data_model.VerifC21Reader)
		defer c21Stores.Put(store)
	}
	c := c21Build(s, order, store)
	pre := map[string]c21Item{}
	var preSize int64
	for _, it := range s.items {
		pre[it.k] = it
		preSize += elementSizeMem(it.k)
	}
	now := s.now
	ns := &c21State{maxSize: s.maxSize, maxTTL: s.maxTTL, now: s.now, dirty: s.dirty, file: s.file, saved: s.saved,
		refDirty: s.refDirty, faults: s.faults, damaged: s.damaged, outstanding: s.outstanding, alts: s.alts, stor: s.stor, root: s.root}
	accepted = true
	evicted := false
	visited := func() map[string]bool {
		m := map[string]bool{}
		for _, it := range c.itemCache {
			m[it.str] = true
		}
		return m
	}
	prefixSet := func(n int) map[string]bool {
		m := map[string]bool{}
		for i := 0; i < n && i < len(order); i++ {
			m[s.items[order[i]].k] = true
		}
		return m
	}
	same := func(a, b map[string]bool) bool {
		if len(a) != len(b) {
			return false
		}
		for k := range a {
			if !b[k] {
				return false
			}
		}
		return true
	}
	switch op.kind {
	case c21Add:
		pairs := append([]MappingPair(nil), op.pairs...)
		c.AddValues(now, pairs)
		v := visited()
		if !same(v, prefixSet(len(v))) {
			return nil, false, "", "", false // visited from another start: not the intended order
		}
		if len(v) == len(order) && len(v) > 1 {
			allVisited = true // every entry was a candidate: the start cannot be told (see c21Expand)
		}
		evicted = len(v) > 0
	case c21Get:
		v, ok := c.GetValue(now, op.key)
		p, was := pre[op.key]
		if ok != was || (ok && v != p.v) || (!ok && v != 0) {
			return nil, true, "C21:cache-get-wrong-value", fmt.Sprintf("GetValue(%q) = (%d,%v), the cache holds (%d,%v)", op.key, v, ok, p.v, was), false
		}
	case c21GetBytes:
		buf := c21Scratch.Get().([]byte)
		defer c21Scratch.Put(buf)
		arg := buf[:copy(buf, op.key)]
		v, ok := c.GetValueBytes(now, arg)
		copy(buf, op.over) // the caller reuses its buffer, as the agent's receive path does
		p, was := pre[op.key]
		if ok != was || (ok && v != p.v) || (!ok && v != 0) {
			return nil, true, "C21:cache-get-wrong-value", fmt.Sprintf("GetValueBytes(%q) = (%d,%v), the cache holds (%d,%v)", op.key, v, ok, p.v, was), false
		}
	case c21Remove:
		c.RemoveByTTL(op.n, now)
		want := map[string]bool{}
		for k := range prefixSet(op.n) {
			if expired[k] {
				want[k] = true
			}
		}
		if !same(visited(), want) {
			return nil, false, "", "", false
		}
	case c21Config:
		c.SetSizeTTL(op.size, int(op.ttl))
		ns.maxSize, ns.maxTTL = op.size, op.ttl
	case c21Tick:
		ns.now = s.now + uint32(op.n)
	case c21Save, c21SaveFault:
		hit, skip := false, false
		if op.kind == c21SaveFault {
			// the n-th storage call of this Save reports an error after applying nothing / half / all of what was asked
			calls := 0
			st := c.storage
			origW, origT := st.WriteAt, st.Truncate
			st.WriteAt = func(off int64, data []byte) error {
				if calls++; calls != op.n {
					return origW(off, data)
				}
				hit = true
				if n := len(data) * op.frac / 2; n > 0 {
					_ = origW(off, data[:n])
				}
				return c21ErrStorage
			}
			st.Truncate = func(off int64) error {
				if calls++; calls != op.n {
					return origT(off)
				}
				if op.frac == 1 { // there is no half-applied truncate
					skip = true
					return origT(off)
				}
				hit = true
				if op.frac == 2 {
					_ = origT(off)
				}
				return c21ErrStorage
			}
		}
		ok, err := c.Save()
		if store != nil {
			ns.stor = store.Snapshot() // whatever the Save left in the storage object is what the next Save of this history meets
		}
		if op.kind == c21SaveFault {
			if !hit || skip {
				return nil, true, "", "", false // this Save makes fewer storage calls: the fault is not applicable here
			}
			ns.faults = s.faults + 1
			se.faultSaves.Add(1)
		} else if s.damaged {
			se.retrySaves.Add(1)
		}
		if err != nil {
			if !hit {
				return nil, true, "C21:cache-save-error", fmt.Sprintf("Save failed: %v", err), false
			}
			// A Save that reports an error promises nothing about the file except what the statement says about
			// damaged files: it loads to nothing, to the previous saved contents or to the contents being saved
			// (a prefix of the chunks of one generation; one chunk here), never to anything else.
			ns.file = append([]byte{}, store.Bytes()...)
			ns.damaged, ns.outstanding = true, true
			ns.alts = append(append([][]c21Item(nil), s.alts...), c21Snapshot(c))
			l, _ := se.c21Load(ns.file)
			if got := c21Snapshot(l); !c21OneOf(got, append([][]c21Item{nil, s.saved}, ns.alts...)...) {
				return nil, true, "C21:cache-file-after-failed-save-loads-other-contents", fmt.Sprintf("after a failed Save the file loads to %v; saved before: %v, being saved: %v", got, s.saved, ns.alts), false
			}
		} else if ok {
			ns.file = append([]byte{}, store.Bytes()...)
			ns.saved = c21Snapshot(c)
			ns.refDirty, ns.damaged, ns.outstanding, ns.alts = false, false, false, nil
			// the file must load to exactly the contents that were saved
			l, lerr := se.c21Load(ns.file)
			got := c21Snapshot(l)
			if lerr != nil || fmt.Sprint(got) != fmt.Sprint(ns.saved) {
				return nil, true, "C21:cache-saved-file-differs", fmt.Sprintf("file written by Save loads to %v (error %v), the cache holds %v", got, lerr, ns.saved), false
			}
		} else if store != nil && string(store.Bytes()) != string(s.file) {
			return nil, true, "C21:cache-save-false-but-file-changed", "Save reported false but the file changed", false
		} else if s.dirty || s.refDirty {
			return nil, true, "C21:cache-save-skipped", "Save reported false although values were added since the last save", false
		} else if s.outstanding {
			return nil, true, "C21:cache-save-skipped", "Save reported (false, nil) = nothing to do, although the last Save failed and none has succeeded since", false
		}
	case c21Reload:
		var lerr error
		c, lerr = se.c21Load(s.file)
		if v, ok := se.loaded.Load(string(s.file)); ok {
			ns.stor = v.(c21Loaded).snap // a reload opens a new storage object over the file as it is now
		}
		got := c21Snapshot(c)
		if !s.damaged {
			if lerr != nil || fmt.Sprint(got) != fmt.Sprint(s.saved) {
				return nil, true, "C21:cache-reload-differs", fmt.Sprintf("reload gives %v (error %v), the last successful Save stored %v", got, lerr, s.saved), false
			}
		} else {
			// the file is a crash image of a failed Save: an error is allowed, the contents must be nothing or one generation
			if !c21OneOf(got, append([][]c21Item{nil, s.saved}, s.alts...)...) {
				return nil, true, "C21:cache-reload-after-failed-save-differs", fmt.Sprintf("reload gives %v (error %v); last successful Save stored %v, failed Saves were storing %v", got, lerr, s.saved, s.alts), false
			}
			ns.saved, ns.alts = got, nil // the file is unchanged: every later reload gives the same (or, not told apart here, nothing)
		}
		ns.refDirty, ns.outstanding = false, false
	}
	ns.items = c21Snapshot(c)
	ns.evicted = evicted
	ns.sumSize, ns.sumTS = c.sumSize, c.sumTS
	ns.dirty = op.kind != c21Reload && c.version != c.lastSavedVersion
	// transition relation: values never change, strings only appear through a valid add of exactly that pair
	var postSize int64
	added := 0
	for _, it := range ns.items {
		postSize += elementSizeMem(it.k)
		if op.kind == c21Reload {
			continue
		}
		if p, was := pre[it.k]; was {
			if p.v != it.v {
				return nil, true, "C21:cache-value-changed", fmt.Sprintf("value of %q changed from %d to %d", it.k, p.v, it.v), false
			}
			continue
		}
		ok := false
		if op.kind == c21Add {
			for _, p := range op.pairs {
				if p.Str == it.k && p.Value == it.v && p.Str != "" && !c21Marker(p.Value) {
					ok = true
				}
			}
		}
		if !ok {
			return nil, true, "C21:cache-value-for-other-string", fmt.Sprintf("%q=%d appeared in the cache without being added", it.k, it.v), false
		}
		added++
	}
	if added > 0 {
		ns.refDirty = true
	}
	if op.kind != c21Add && op.kind != c21Remove && op.kind != c21Reload && len(ns.items) != len(s.items) {
		return nil, true, "C21:cache-lost-entries", fmt.Sprintf("%d entries before, %d after an operation that does not evict", len(s.items), len(ns.items)), false
	}
	if op.kind == c21Add && ((added > 0 && postSize > ns.maxSize) || (postSize > preSize && postSize > ns.maxSize)) {
		return nil, true, "C21:cache-exceeds-configured-size", fmt.Sprintf("size after the add is %d (before %d), configured maximum %d", postSize, preSize, ns.maxSize), false
	}
	if sig, desc := se.c21Invariants(c, ns, op.name); sig != "" {
		return nil, true, sig, desc, false
	}
	return ns, true, "", "", allVisited
}

func (se *c21Search) c21Expand(s *c21State, op *c21Op) (succ []*c21State) {
	n := len(s.items)
	ident := make([]int, n)
	for i := range ident {
		ident[i] = i
	}
	orders := [][]int{ident}
	var expired map[string]bool
	if s.faults > 0 && se.postOnly && !op.post {
		return nil
	}
	if op.kind == c21SaveFault && (!s.dirty || s.faults >= se.faultBudget || len(s.hist)+1 >= se.depth) {
		// a Save with nothing new makes no storage call; the fault budget of this history is used up; a fault in the
		// very last operation of a history has no continuation to be judged by (its crash image is the same as at
		// earlier positions)
		return nil
	}
	if op.ordDep && n >= 2 {
		orders = c21Perms(n)
		if op.kind == c21Add {
			// an add that does not enter the eviction path never ranges over the map: one order is enough
			if ns, ok, sig, _, _ := se.c21Apply(s, op, ident, nil); ok && sig == "" && !ns.evicted {
				orders = [][]int{ident}
			}
		}
		if len(orders) > 1 {
			se.ordRuns.Add(1)
		}
	}
	if op.kind == c21Remove {
		// which entries are expired is asked from the real code (maxCount large: order-independent)
		c := c21Build(s, ident, nil)
		c.RemoveByTTL(1000, s.now)
		expired = map[string]bool{}
		for _, it := range s.items {
			if _, ok := c.cache[it.k]; !ok {
				expired[it.k] = true
			}
		}
	}
	seen := map[string]bool{}
	for _, ord := range orders {
		var ns *c21State
		var sig, desc string
		ok := false
		// An execution is taken when the candidates the code visited are the first elements of the intended order and
		// not all entries (then the start was offset 0: the order was exactly the intended one). When all entries
		// were visited the start cannot be told and the outcome does not depend on it; but the intended order itself
		// might stop earlier, so the attempt is repeated: the intended order occurs with probability >= 5/8 per
		// attempt, and after 32 attempts that all visited everything it is taken as visiting everything
		// (probability of a wrong conclusion < (3/8)^32 = 2e-14).
		all := 0
		for try := 0; try < 4000 && !ok; try++ {
			var allVisited bool
			ns, ok, sig, desc, allVisited = se.c21Apply(s, op, ord, expired)
			if !ok {
				se.retries.Add(1)
			} else if allVisited && sig == "" {
				all++
				if all < 32 {
					ok = false
				}
			}
		}
		if !ok {
			se.rep.Infra(fmt.Sprintf("c21: the runtime never iterated the map in insertion order %v (rotation model of small maps does not hold)", ord))
			return nil
		}
		if ns == nil && sig == "" {
			continue // operation not applicable in this state
		}
		se.execs.Add(1)
		if ns != nil && ns.evicted {
			se.evicting.Add(1)
		}
		if sig != "" {
			hist := append(append([]string(nil), s.hist...), op.name)
			var ks []string
			for _, i := range ord {
				ks = append(ks, s.items[i].k)
			}
			se.rep.Violate(sig, desc+" | history: "+s.root+" "+strings.Join(hist, " ")+fmt.Sprintf(" | map order %v", ks), map[string]any{"history": hist, "map_order": ks})
			continue
		}
		ns.hist = append(append([]string(nil), s.hist...), op.name)
		if k := ns.key(); !seen[k] {
			seen[k] = true
			succ = append(succ, ns)
		}
	}
	if len(succ) > 1 {
		se.nontriv.Add(1)
	}
	return succ
}

// c21SelfTest checks the assumption about Go map iteration the permutation argument rests on.
func c21SelfTest(keys []string) error {
	for _, p := range c21Perms(len(keys)) {
		m := map[string]cacheValue{}
		for _, i := range p {
			m[keys[i]] = cacheValue{}
		}
		sawIdentity := false
		for try := 0; try < 300; try++ {
			var got []string
			for k := range m {
				got = append(got, k)
			}
			rot := -1
			for r := 0; r < len(keys); r++ {
				ok := true
				for j := range got {
					if got[j] != keys[p[(j+r)%len(keys)]] {
						ok = false
					}
				}
				if ok {
					rot = r
				}
			}
			if rot < 0 {
				return fmt.Errorf("map filled in order %v iterated as %v: not a rotation of the insertion order", p, got)
			}
			if rot == 0 {
				sawIdentity = true
			}
		}
		if !sawIdentity {
			return fmt.Errorf("map filled in order %v never iterated in that order in 300 tries", p)
		}
	}
	return nil
}

func TestVerifC21(t *testing.T) {
	rep := mc.NewReport("C21")
	defer func() {
		if err := rep.Write(); err != nil {
			t.Fatal(err)
		}
	}()
	depth := mc.Pick(5, 7)
	rep.Rule = "mapping cache: explicit-state BFS (value states, one fresh real MappingsCache per executed operation) over add/marker add/batch add/get/getBytes(with the caller overwriting its buffer afterwards)/removeByTTL/setSizeTTL/clock/save/reload/save during which the k-th storage call fails (every k, nothing|half|all applied) with 4 keys of different sizes; " +
		"every order in which the code can visit the map when it picks eviction candidates is executed (one cache per permutation of the keys); non-trivial = (state, operation) pairs with more than one distinct successor, i.e. the eviction outcome depends on the map order"
	faultBudget := mc.Pick(1, 2)
	rep.Bounds["cache_depth"] = depth
	rep.Bounds["cache_storage_faults_per_history"] = fmt.Sprintf("%d, at any position but the last", faultBudget)
	rep.Bounds["cache_operations_after_a_fault"] = "save, reload, add(k,v) per key, removeByTTL(100), clock+1, further faulted saves"
	rep.Bounds["cache_keys"] = "a/bb/cccc/dddddddd and aaaaaaaa/bbbb/cc/d (sizes 33,34,37,42 in both orders of the tie-break)"
	rep.Bounds["cache_configs"] = "maxSize 70/112/1000 x maxTTL 0/2, as the configuration at construction (6 roots) and through setSizeTTL"
	rep.Assume("Go map iteration visits a small map's slots in insertion order starting at a random offset (checked by a self-test at start); all n! insertion orders are executed, which covers every visiting order")
	rep.Assume("MappingsCache.deterministic=true (the package's own test switch): entries with equal access time are evicted in key order; other tie-breaks are covered by the second key family with reversed sizes")
	rep.Assume("one AddValues call never carries the same string twice (the aggregator builds the list from a map); sequential calls only, concurrency of GetValue with writers is outside this check")
	total := struct{ states, transitions int }{}
	rep.Bounds["cache_large_saves"] = "30 strings of 50 KB (3 chunks + truncate) over no / a shorter / a longer older file; every storage call of the Save fails with nothing/half/all applied; then Save | add+Save on a healthy disk"
	for fam, keys := range [][]string{{"a", "bb", "cccc", "dddddddd"}, {"aaaaaaaa", "bbbb", "cc", "d"}} {
		if err := c21SelfTest(keys); err != nil {
			rep.Infra("c21: " + err.Error())
			return
		}
		se := &c21Search{rep: rep, keys: keys, faultBudget: faultBudget, depth: depth, postOnly: true}
		ops := c21Ops(keys)
		// the cache is constructed with every configuration of the setSizeTTL alphabet (NewMappingsCache takes the size
		// and TTL): with a small size from the start a history of the same depth reaches save / evict / save
		seen := map[string]bool{}
		var frontier []*c21State
		for _, sz := range []int64{1000, 70, 112} {
			for _, ttl := range []int64{0, 2} {
				init := &c21State{maxSize: sz, maxTTL: ttl, now: 1000, root: fmt.Sprintf("newCache(%d,%d)", sz, ttl)}
				seen[init.key()] = true
				frontier = append(frontier, init)
			}
		}
		var mu sync.Mutex
		transitions := 0
		levels := []int{len(frontier)}
		done := 0
		for d := 0; d < depth && len(frontier) > 0; d++ {
			var next []*c21State
			var wg sync.WaitGroup
			var idx atomic.Int64
			for w := 0; w < runtime.GOMAXPROCS(0); w++ {
				wg.Add(1)
				go func() {
					defer wg.Done()
					for {
						i := int(idx.Add(1)) - 1
						if i >= len(frontier) || mc.Expired() {
							return
						}
						for o := range ops {
							succ := se.c21Expand(frontier[i], &ops[o])
							mu.Lock()
							transitions += len(succ)
							for _, ns := range succ {
								if k := ns.key(); !seen[k] {
									seen[k] = true
									next = append(next, ns)
								}
							}
							mu.Unlock()
						}
					}
				}()
			}
			wg.Wait()
			if mc.Expired() {
				rep.Cap(fmt.Sprintf("wall_budget(cache family %d depth %d)", fam, d))
				break
			}
			done = d + 1
			sort.Slice(next, func(i, j int) bool { return next[i].key() < next[j].key() })
			levels = append(levels, len(next))
			frontier = next
		}
		for i := 0; i < 2 && i < len(frontier); i++ {
			rep.Sample(map[string]any{"part": "cache", "history": strings.Join(frontier[i*len(frontier)/2].hist, " ")})
		}
		rep.Parts[fmt.Sprintf("cache_family_%d", fam)] = map[string]any{"keys": keys, "states": len(seen), "transitions": transitions, "depth_completed": done, "per_level_new_states": levels,
			"executions": se.execs.Load(), "saves_with_injected_storage_fault": se.faultSaves.Load(), "healthy_saves_after_a_failed_save": se.retrySaves.Load(), "order_dependent_expansions": se.ordRuns.Load(), "expansions_with_several_outcomes": se.nontriv.Load(), "executions_that_evicted": se.evicting.Load()}
		rep.AddCounts(se.execs.Load(), int64(transitions), int64(len(seen)), se.nontriv.Load())
		total.states += len(seen)
		total.transitions += transitions
		t.Logf("C21 cache family %v: states=%d transitions=%d executions=%d levels=%v several-outcomes=%d evicting=%d retries=%d", keys, len(seen), transitions, se.execs.Load(), levels, se.nontriv.Load(), se.evicting.Load(), se.retries.Load())
	}
	c21LargeSaves(t, rep)
}

// ---- multi-chunk Saves with a failing storage call ----
//
// The BFS above only makes one-chunk files (a Save is WriteAt + Truncate). Here the cache holds 30 strings of 50 KB, so a
// Save makes three WriteAt calls (FinishItem flushes a chunk at 512 KB) and a Truncate. For every older generation of the
// file (none / a shorter two-chunk file / a longer four-chunk file), for every storage call k of the Save and every applied part
// (nothing, half, all) that call fails; then, on the same real object and a healthy disk, every continuation of
// {Save | add one more string, Save} runs. Oracle: the crash image loads to a prefix (in save order) of the old or of the
// new generation; the next Save reports (true, nil) - strings were inserted since the last successful one - and its file
// loads to exactly the contents of the cache.

func c21BigKey(i int) string { return fmt.Sprintf("%03d", i) + strings.Repeat(string(rune('a'+i%26)), 50000) }

func c21BigAdd(c *MappingsCache, now uint32, from, to int) {
	var pairs []MappingPair
	for i := from; i < to; i++ {
		pairs = append(pairs, MappingPair{Str: c21BigKey(i), Value: int32(100 + i)})
	}
	c.AddValues(now, pairs)
}

// c21SaveOrder sorts the way Save(deterministic) writes: by access time, then key.
func c21SaveOrder(items []c21Item) []c21Item {
	out := append([]c21Item(nil), items...)
	sort.Slice(out, func(i, j int) bool {
		if out[i].ts != out[j].ts {
			return out[i].ts < out[j].ts
		}
		return out[i].k < out[j].k
	})
	return out
}

func c21Short(items []c21Item) string {
	var b strings.Builder
	for _, it := range items {
		k := it.k
		if len(k) > 4 {
			k = k[:4] + "..."
		}
		fmt.Fprintf(&b, "%s=%d@%d ", k, it.v, it.ts)
	}
	return fmt.Sprintf("%d items [%s]", len(items), strings.TrimSpace(b.String()))
}

func c21IsPrefix(got, gen []c21Item) bool {
	g, w := c21SaveOrder(got), c21SaveOrder(gen)
	if len(g) > len(w) {
		return false
	}
	for i := range g {
		if g[i] != w[i] {
			return false
		}
	}
	return true
}

func c21LoadCopy(file []byte) ([]c21Item, error) {
	cp := append([]byte(nil), file...)
	l, err := LoadMappingsCacheSlice(&cp, 1<<40)
	return c21Snapshot(l), err
}

func c21LargeSaves(t *testing.T, rep *mc.Report) {
	type built struct {
		c   *MappingsCache
		fp  *[]byte
		old []c21Item // contents at the last healthy Save (nil: no file)
	}
	build := func(old int) (*built, error) {
		fp := new([]byte)
		c, err := LoadMappingsCacheSlice(fp, 1<<40)
		if err != nil {
			return nil, err
		}
		c.deterministic = true
		b := &built{c: c, fp: fp}
		switch old {
		case 1: // a shorter older file: 12 strings, two chunks
			c21BigAdd(c, 1000, 0, 12)
			if ok, err := c.Save(); !ok || err != nil {
				return nil, fmt.Errorf("healthy Save: %v %v", ok, err)
			}
			b.old = c21Snapshot(c)
			c21BigAdd(c, 1001, 12, 30)
		case 2: // a longer older file: 40 strings, four chunks; 15 of them expire, 5 new ones come
			c21BigAdd(c, 1000, 0, 15)
			c21BigAdd(c, 1010, 15, 40)
			if ok, err := c.Save(); !ok || err != nil {
				return nil, fmt.Errorf("healthy Save: %v %v", ok, err)
			}
			b.old = c21Snapshot(c)
			c.SetSizeTTL(1<<40, 5)
			c.RemoveByTTL(1000, 1012)
			c21BigAdd(c, 1012, 40, 45)
		default:
			c21BigAdd(c, 1000, 0, 30)
		}
		if n := len(c.cache); n != 30 {
			return nil, fmt.Errorf("large cache generation %d holds %d strings, 30 intended", old, n)
		}
		return b, nil
	}
	var execs, images, nontriv int64
	for old := 0; old < 3; old++ {
		// how many storage calls does the Save make? (asked from the real code on a healthy disk)
		b, err := build(old)
		if err != nil {
			rep.Infra("c21 large: " + err.Error())
			return
		}
		calls := 0
		st := b.c.storage
		origW, origT := st.WriteAt, st.Truncate
		st.WriteAt = func(off int64, d []byte) error { calls++; return origW(off, d) }
		st.Truncate = func(off int64) error { calls++; return origT(off) }
		if ok, err := b.c.Save(); !ok || err != nil {
			rep.Infra(fmt.Sprintf("c21 large: healthy Save: %v %v", ok, err))
			return
		}
		if calls < 4 {
			rep.Infra(fmt.Sprintf("c21 large: the Save made %d storage calls, at least 4 intended (three chunks and the truncate)", calls))
			return
		}
		for k := 1; k <= calls; k++ {
			for frac := 0; frac < 3; frac++ {
				for cont := 0; cont < 2; cont++ {
					if mc.Expired() {
						rep.Cap("wall_budget(large saves)")
						return
					}
					b, err := build(old)
					if err != nil {
						rep.Infra("c21 large: " + err.Error())
						return
					}
					c := b.c
					st := c.storage
					origW, origT := st.WriteAt, st.Truncate
					n, hit, skip := 0, false, false
					st.WriteAt = func(off int64, d []byte) error {
						if n++; n != k {
							return origW(off, d)
						}
						hit = true
						if m := len(d) * frac / 2; m > 0 {
							_ = origW(off, d[:m])
						}
						return c21ErrStorage
					}
					st.Truncate = func(off int64) error {
						if n++; n != k {
							return origT(off)
						}
						if frac == 1 {
							skip = true
							return origT(off)
						}
						hit = true
						if frac == 2 {
							_ = origT(off)
						}
						return c21ErrStorage
					}
					hist := []string{fmt.Sprintf("older file: %s", []string{"none", "12 strings", "40 strings of which 15 expired"}[old]), "cache holds 30 strings of 50 KB",
						fmt.Sprintf("save!storage-call#%d-fails(%s)", k, []string{"nothing applied", "half written", "fully applied"}[frac])}
					viol := func(sig, desc string) {
						rep.Violate(sig, desc+" | history: "+strings.Join(hist, "; "), map[string]any{"history": hist})
					}
					ok, err := c.Save()
					if skip || !hit {
						continue
					}
					execs++
					cur := c21Snapshot(c)
					if err == nil {
						got, lerr := c21LoadCopy(*b.fp)
						if !ok || lerr != nil || fmt.Sprint(got) != fmt.Sprint(cur) {
							viol("C21:cache-saved-file-differs", fmt.Sprintf("Save returned (%v, nil) although a storage call failed; the file loads to %s (error %v), the cache holds %s", ok, c21Short(got), lerr, c21Short(cur)))
						}
						continue
					}
					if cont == 0 {
						images++
						got, _ := c21LoadCopy(*b.fp)
						if !c21IsPrefix(got, b.old) && !c21IsPrefix(got, cur) {
							viol("C21:cache-file-after-failed-save-loads-other-contents", fmt.Sprintf("after the failed Save the file loads to %s: neither a prefix of the old generation %s nor of the new %s", c21Short(got), c21Short(b.old), c21Short(cur)))
						}
						if len(got) != 0 && len(got) != len(cur) && len(got) != len(b.old) {
							nontriv++ // a proper prefix of a generation survived
						}
					}
					// healthy disk from here on
					st.WriteAt, st.Truncate = origW, origT
					if cont == 1 {
						c21BigAdd(c, 1013, 50, 51)
						hist = append(hist, "add(one more string)")
						cur = c21Snapshot(c)
					}
					hist = append(hist, "save")
					ok2, err2 := c.Save()
					execs++
					if err2 != nil {
						viol("C21:cache-save-error", fmt.Sprintf("Save on a healthy disk after a failed one: %v", err2))
						continue
					}
					if !ok2 {
						viol("C21:cache-save-skipped", "Save reported (false, nil) = nothing to do, although the last Save failed and none has succeeded since")
					}
					got, lerr := c21LoadCopy(*b.fp)
					if lerr != nil || fmt.Sprint(got) != fmt.Sprint(cur) {
						viol("C21:cache-reload-differs", fmt.Sprintf("after a Save that returned (%v, nil) the file loads to %s (error %v), the cache holds %s", ok2, c21Short(got), lerr, c21Short(cur)))
					}
				}
			}
		}
	}
	rep.Parts["cache_large_saves"] = map[string]any{"executions": execs, "crash_images_loaded": images, "images_with_a_proper_prefix": nontriv}
	rep.AddCounts(execs, execs, images, nontriv)
	t.Logf("C21 large saves: executions=%d images=%d proper-prefix=%d", execs, images, nontriv)
}
