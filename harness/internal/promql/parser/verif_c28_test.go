//go:build verif

package parser

// C28: PromQL expressions print to text that parses back to the same expression, and the
// parser never panics on arbitrary input.
//
// Bounded exhaustive enumeration:
//   part A  texts generated from the node constructors (every operator, modifier, grouping,
//           matcher type, range, offset, @, StatsHouse extension) up to operator depth 2/3;
//           every text the real parser accepts yields an AST e (the property quantifies over
//           "every expression the parser accepts"), oracle: ParseExpr(e.String()) succeeds
//           and is structurally equal to e (positions ignored);
//   part B  every string of <=4/5 tokens over a 24-token alphabet, joined with and without
//           blanks: ParseExpr returns (value, nil) or (_, error), never panics; each accepted
//           string also goes through the round-trip oracle;
//   part C  every string of <=4/5 characters over a 30-character lexer alphabet, same oracle.

import (
	"fmt"
	"math"
	"regexp"
	"runtime"
	"sort"
	"strings"
	"sync"
	"sync/atomic"
	"testing"

	"github.com/prometheus/prometheus/model/labels"

	"github.com/VKCOM/statshouse/internal/verif/mc"
)

// ---------------------------------------------------------------------------------------
// structural comparison (positions ignored)

func c28StrsEq(a, b []string) bool { // nil and empty are the same list
	if len(a) != len(b) {
		return false
	}
	for i := range a {
		if a[i] != b[i] {
			return false
		}
	}
	return true
}

func c28IntsEq(a, b []int64) bool {
	if len(a) != len(b) {
		return false
	}
	for i := range a {
		if a[i] != b[i] {
			return false
		}
	}
	return true
}

// c28Matchers: matchers as a sorted, de-duplicated set of (type, name, value): the printer sorts
// them and `m{__name__="m"}` carries the name matcher twice, which selects the same series.
func c28Matchers(ms []*labels.Matcher) []string {
	var out []string
	seen := map[string]bool{}
	for _, m := range ms {
		k := "<nil>"
		if m != nil {
			k = fmt.Sprintf("%d|%q|%q", m.Type, m.Name, m.Value)
		}
		if !seen[k] {
			seen[k] = true
			out = append(out, k)
		}
	}
	sort.Strings(out)
	return out
}

func c28TsEq(a, b *int64) bool {
	if a == nil || b == nil {
		return a == b
	}
	return *a == *b
}

func c28FloatEq(a, b float64) bool {
	if math.IsNaN(a) || math.IsNaN(b) {
		return math.IsNaN(a) && math.IsNaN(b)
	}
	return math.Float64bits(a) == math.Float64bits(b)
}

func c28IsNil(e Expr) bool {
	if e == nil {
		return true
	}
	switch n := e.(type) {
	case *AggregateExpr:
		return n == nil
	case *BinaryExpr:
		return n == nil
	case *Call:
		return n == nil
	case *MatrixSelector:
		return n == nil
	case *SubqueryExpr:
		return n == nil
	case *NumberLiteral:
		return n == nil
	case *ParenExpr:
		return n == nil
	case *StringLiteral:
		return n == nil
	case *UnaryExpr:
		return n == nil
	case *VectorSelector:
		return n == nil
	case *StepInvariantExpr:
		return n == nil
	}
	return false
}

func c28TypeName(e Expr) string {
	if c28IsNil(e) {
		return "nil"
	}
	return strings.TrimPrefix(fmt.Sprintf("%T", e), "*parser.")
}

// c28Diff returns "" when a and b are structurally equal, else the path of the first difference.
func c28Diff(a, b Expr) string {
	if c28IsNil(a) || c28IsNil(b) {
		if c28IsNil(a) && c28IsNil(b) {
			return ""
		}
		return "node(" + c28TypeName(a) + "->" + c28TypeName(b) + ")"
	}
	ta, tb := c28TypeName(a), c28TypeName(b)
	if ta != tb {
		return "node(" + ta + "->" + tb + ")"
	}
	sub := func(field string, x, y Expr) string {
		if d := c28Diff(x, y); d != "" {
			return ta + "." + field + "/" + d
		}
		return ""
	}
	switch x := a.(type) {
	case *AggregateExpr:
		y := b.(*AggregateExpr)
		switch {
		case x.Op != y.Op:
			return ta + ".Op"
		case !c28StrsEq(x.Grouping, y.Grouping):
			return ta + ".Grouping"
		case x.Without != y.Without:
			return ta + ".Without"
		}
		if d := sub("Param", x.Param, y.Param); d != "" {
			return d
		}
		return sub("Expr", x.Expr, y.Expr)
	case *BinaryExpr:
		y := b.(*BinaryExpr)
		switch {
		case x.Op != y.Op:
			return ta + ".Op"
		case x.ReturnBool != y.ReturnBool:
			return ta + ".ReturnBool"
		}
		vx, vy := x.VectorMatching, y.VectorMatching
		if vx == nil {
			vx = &VectorMatching{}
		}
		if vy == nil {
			vy = &VectorMatching{}
		}
		switch {
		case vx.Card != vy.Card:
			return ta + ".VectorMatching.Card"
		case vx.On != vy.On:
			return ta + ".VectorMatching.On"
		case !c28StrsEq(vx.MatchingLabels, vy.MatchingLabels):
			return ta + ".VectorMatching.MatchingLabels"
		case !c28StrsEq(vx.Include, vy.Include):
			return ta + ".VectorMatching.Include"
		}
		if d := sub("LHS", x.LHS, y.LHS); d != "" {
			return d
		}
		return sub("RHS", x.RHS, y.RHS)
	case *Call:
		y := b.(*Call)
		nx, ny := "<nil>", "<nil>"
		if x.Func != nil {
			nx = x.Func.Name
		}
		if y.Func != nil {
			ny = y.Func.Name
		}
		if nx != ny {
			return ta + ".Func"
		}
		if len(x.Args) != len(y.Args) {
			return ta + ".Args.len"
		}
		for i := range x.Args {
			if d := sub(fmt.Sprintf("Args[%d]", i), x.Args[i], y.Args[i]); d != "" {
				return d
			}
		}
		return ""
	case *MatrixSelector:
		y := b.(*MatrixSelector)
		if x.Range != y.Range {
			return ta + ".Range"
		}
		return sub("VectorSelector", x.VectorSelector, y.VectorSelector)
	case *SubqueryExpr:
		y := b.(*SubqueryExpr)
		switch {
		case x.Range != y.Range:
			return ta + ".Range"
		case x.Step != y.Step:
			return ta + ".Step"
		case x.OriginalOffset != y.OriginalOffset:
			return ta + ".OriginalOffset"
		case !c28TsEq(x.Timestamp, y.Timestamp):
			return ta + ".Timestamp"
		case x.StartOrEnd != y.StartOrEnd:
			return ta + ".StartOrEnd"
		}
		return sub("Expr", x.Expr, y.Expr)
	case *NumberLiteral:
		if !c28FloatEq(x.Val, b.(*NumberLiteral).Val) {
			return ta + ".Val"
		}
		return ""
	case *ParenExpr:
		return sub("Expr", x.Expr, b.(*ParenExpr).Expr)
	case *StringLiteral:
		if x.Val != b.(*StringLiteral).Val {
			return ta + ".Val"
		}
		return ""
	case *UnaryExpr:
		y := b.(*UnaryExpr)
		if x.Op != y.Op {
			return ta + ".Op"
		}
		return sub("Expr", x.Expr, y.Expr)
	case *VectorSelector:
		y := b.(*VectorSelector)
		switch {
		case x.Name != y.Name:
			return ta + ".Name"
		case x.OriginalOffset != y.OriginalOffset:
			return ta + ".OriginalOffset"
		case !c28IntsEq(x.OriginalOffsetEx, y.OriginalOffsetEx):
			return ta + ".OriginalOffsetEx"
		case !c28TsEq(x.Timestamp, y.Timestamp):
			return ta + ".Timestamp"
		case x.StartOrEnd != y.StartOrEnd:
			return ta + ".StartOrEnd"
		case !c28StrsEq(c28Matchers(x.LabelMatchers), c28Matchers(y.LabelMatchers)):
			return ta + ".LabelMatchers"
		}
		return ""
	case *StepInvariantExpr:
		return sub("Expr", x.Expr, b.(*StepInvariantExpr).Expr)
	}
	return "unknown-node-type(" + ta + ")"
}

// c28Dump is a canonical serialisation of the compared fields (used to count distinct ASTs).
func c28Dump(sb *strings.Builder, e Expr) (nodes int, optional bool) {
	if c28IsNil(e) {
		sb.WriteString("nil")
		return 0, false
	}
	ts := func(p *int64) string {
		if p == nil {
			return "-"
		}
		return fmt.Sprint(*p)
	}
	switch x := e.(type) {
	case *AggregateExpr:
		fmt.Fprintf(sb, "Agg(%d,%q,%v,", x.Op, x.Grouping, x.Without)
		n1, _ := c28Dump(sb, x.Param)
		sb.WriteByte(',')
		n2, _ := c28Dump(sb, x.Expr)
		sb.WriteByte(')')
		return 1 + n1 + n2, true
	case *BinaryExpr:
		vm := x.VectorMatching
		if vm == nil {
			vm = &VectorMatching{}
		}
		fmt.Fprintf(sb, "Bin(%d,%v,%d,%v,%q,%q,", x.Op, x.ReturnBool, vm.Card, vm.On, vm.MatchingLabels, vm.Include)
		n1, _ := c28Dump(sb, x.LHS)
		sb.WriteByte(',')
		n2, _ := c28Dump(sb, x.RHS)
		sb.WriteByte(')')
		return 1 + n1 + n2, true
	case *Call:
		name := "<nil>"
		if x.Func != nil {
			name = x.Func.Name
		}
		fmt.Fprintf(sb, "Call(%s", name)
		n := 1
		for _, a := range x.Args {
			sb.WriteByte(',')
			k, _ := c28Dump(sb, a)
			n += k
		}
		sb.WriteByte(')')
		return n, true
	case *MatrixSelector:
		fmt.Fprintf(sb, "Mat(%d,", x.Range)
		n, _ := c28Dump(sb, x.VectorSelector)
		sb.WriteByte(')')
		return 1 + n, true
	case *SubqueryExpr:
		fmt.Fprintf(sb, "Sub(%d,%d,%d,%s,%d,", x.Range, x.Step, x.OriginalOffset, ts(x.Timestamp), x.StartOrEnd)
		n, _ := c28Dump(sb, x.Expr)
		sb.WriteByte(')')
		return 1 + n, true
	case *NumberLiteral:
		if math.IsNaN(x.Val) {
			sb.WriteString("Num(NaN)")
		} else {
			fmt.Fprintf(sb, "Num(%x)", math.Float64bits(x.Val))
		}
		return 1, false
	case *ParenExpr:
		sb.WriteString("Paren(")
		n, _ := c28Dump(sb, x.Expr)
		sb.WriteByte(')')
		return 1 + n, true
	case *StringLiteral:
		fmt.Fprintf(sb, "Str(%q)", x.Val)
		return 1, false
	case *UnaryExpr:
		fmt.Fprintf(sb, "Un(%d,", x.Op)
		n, _ := c28Dump(sb, x.Expr)
		sb.WriteByte(')')
		return 1 + n, true
	case *VectorSelector:
		ms := c28Matchers(x.LabelMatchers)
		fmt.Fprintf(sb, "Vec(%q,%d,%v,%s,%d,%q)", x.Name, x.OriginalOffset, x.OriginalOffsetEx, ts(x.Timestamp), x.StartOrEnd, ms)
		opt := x.OriginalOffset != 0 || len(x.OriginalOffsetEx) > 0 || x.Timestamp != nil || x.StartOrEnd != 0 || len(ms) > 1 || (len(ms) == 1 && x.Name == "")
		return 1, opt
	case *StepInvariantExpr:
		sb.WriteString("Inv(")
		n, _ := c28Dump(sb, x.Expr)
		sb.WriteByte(')')
		return 1 + n, true
	}
	fmt.Fprintf(sb, "?%T", e)
	return 1, false
}

// ---------------------------------------------------------------------------------------
// guarded calls into the code under test

type c28ParseResult struct {
	expr     Expr
	err      error
	panicked bool
	panicVal string
}

func c28Parse(s string) (r c28ParseResult) {
	defer func() {
		if p := recover(); p != nil {
			r.panicked = true
			r.panicVal = fmt.Sprint(p)
		}
	}()
	r.expr, r.err = ParseExpr(s)
	return r
}

func c28Print(e Expr) (s string, panicked bool, panicVal string) {
	defer func() {
		if p := recover(); p != nil {
			panicked = true
			panicVal = fmt.Sprint(p)
		}
	}()
	return e.String(), false, ""
}

// round-trip status of one accepted expression
type c28RT struct {
	kind    string // "ok" | "print-panics" | "print-unparseable" | "reparse-panics" | "roundtrip-differs"
	printed string
	detail  string // reparse error / diff path / panic value
}

func c28RoundTrip(e Expr) c28RT {
	p, pan, pv := c28Print(e)
	if pan {
		return c28RT{kind: "print-panics", detail: pv}
	}
	r := c28Parse(p)
	if r.panicked {
		return c28RT{kind: "reparse-panics", printed: p, detail: r.panicVal}
	}
	if r.err != nil || c28IsNil(r.expr) {
		return c28RT{kind: "print-unparseable", printed: p, detail: fmt.Sprint(r.err)}
	}
	if d := c28Diff(e, r.expr); d != "" {
		return c28RT{kind: "roundtrip-differs", printed: p, detail: d}
	}
	return c28RT{kind: "ok", printed: p}
}

// ---------------------------------------------------------------------------------------
// classification of a failing round trip: smallest failing sub-expression, then the smallest set
// of optional attributes of that node which still fails the same way. This yields signatures such
// as C28:print-unparseable:VectorSelector:offset that stay the same whatever surrounds the node.

func c28Children(e Expr) []Expr {
	switch n := e.(type) {
	case *AggregateExpr:
		var out []Expr
		if !c28IsNil(n.Param) {
			out = append(out, n.Param)
		}
		if !c28IsNil(n.Expr) {
			out = append(out, n.Expr)
		}
		return out
	case *BinaryExpr:
		return []Expr{n.LHS, n.RHS}
	case *Call:
		return append([]Expr{}, n.Args...)
	case *SubqueryExpr:
		return []Expr{n.Expr}
	case *ParenExpr:
		return []Expr{n.Expr}
	case *UnaryExpr:
		return []Expr{n.Expr}
	case *StepInvariantExpr:
		return []Expr{n.Expr}
	}
	// MatrixSelector is treated as a unit: its printer rewrites the embedded selector's modifiers
	return nil
}

func c28MinimalFailing(e Expr) Expr {
	for {
		next := Expr(nil)
		for _, c := range c28Children(e) {
			if c28IsNil(c) {
				continue
			}
			if c28RoundTrip(c).kind != "ok" {
				next = c
				break
			}
		}
		if next == nil {
			return e
		}
		e = next
	}
}

// c28Strip returns a shallow copy of the node with the named optional attributes removed, and the
// names of the optional attributes the (unstripped) node has.
func c28Strip(e Expr, removed map[string]bool) (Expr, []string) {
	var present []string
	attr := func(name string, has bool, remove func()) {
		if has {
			present = append(present, name)
			if removed[name] {
				remove()
			}
		}
	}
	vsAttrs := func(v *VectorSelector) {
		attr("offset", v.OriginalOffset != 0, func() { v.OriginalOffset = 0 })
		attr("offsetlist", len(v.OriginalOffsetEx) != 0, func() { v.OriginalOffsetEx = nil })
		attr("at", v.Timestamp != nil || v.StartOrEnd != 0, func() { v.Timestamp = nil; v.StartOrEnd = 0 })
		isName := func(m *labels.Matcher) bool {
			return m != nil && m.Name == labels.MetricName && m.Type == labels.MatchEqual && m.Value == v.Name
		}
		other := false
		for _, m := range v.LabelMatchers {
			if !isName(m) {
				other = true
			}
		}
		attr("matchers", other, func() {
			var keep []*labels.Matcher
			for _, m := range v.LabelMatchers {
				if isName(m) {
					keep = append(keep, m)
					break
				}
			}
			if v.Name == "" { // a nameless selector without matchers is the degenerate `{}`: use plain `m` instead
				v.Name = "m"
				keep = []*labels.Matcher{labels.MustNewMatcher(labels.MatchEqual, labels.MetricName, "m")}
			}
			v.LabelMatchers = keep
		})
	}
	switch n := e.(type) {
	case *VectorSelector:
		c := *n
		vsAttrs(&c)
		return &c, present
	case *MatrixSelector:
		c := *n
		if v, ok := n.VectorSelector.(*VectorSelector); ok && v != nil {
			vc := *v
			c.VectorSelector = &vc
			vsAttrs(&vc)
		}
		return &c, present
	case *SubqueryExpr:
		c := *n
		attr("offset", c.OriginalOffset != 0, func() { c.OriginalOffset = 0 })
		attr("at", c.Timestamp != nil || c.StartOrEnd != 0, func() { c.Timestamp = nil; c.StartOrEnd = 0 })
		attr("step", c.Step != 0, func() { c.Step = 0 })
		return &c, present
	case *BinaryExpr:
		c := *n
		vm := VectorMatching{}
		if n.VectorMatching != nil {
			vm = *n.VectorMatching
		}
		c.VectorMatching = &vm
		attr("bool", c.ReturnBool, func() { c.ReturnBool = false })
		attr("group", vm.Card != CardOneToOne || len(vm.Include) != 0, func() { vm.Card = CardOneToOne; vm.Include = nil })
		attr("matching", vm.On || len(vm.MatchingLabels) != 0, func() { vm.On = false; vm.MatchingLabels = nil })
		return &c, present
	case *AggregateExpr:
		c := *n
		attr("without", c.Without, func() { c.Without = false })
		attr("grouping", len(c.Grouping) != 0, func() { c.Grouping = nil })
		return &c, present
	}
	return e, nil
}

// c28Signature computes the stable signature of a failing round trip of expression e.
func c28Signature(e Expr) (sig string, minimal Expr, rt c28RT) {
	minimal = c28MinimalFailing(e)
	rt = c28RoundTrip(minimal)
	if rt.kind == "ok" { // cannot happen (a failing node without failing child is itself minimal)
		minimal, rt = e, c28RoundTrip(e)
	}
	// the degenerate selector `{}` (accepted because this parser has no AST check) prints as no text at
	// all; whatever follows from that (parse error, `offset` read as a metric name, ...) is one finding
	{
		var vs *VectorSelector
		switch n := minimal.(type) {
		case *VectorSelector:
			vs = n
		case *MatrixSelector:
			vs, _ = n.VectorSelector.(*VectorSelector)
		}
		if vs != nil && vs.Name == "" && len(vs.LabelMatchers) == 0 {
			return "C28:empty-selector-prints-no-text", minimal, rt
		}
	}
	_, present := c28Strip(minimal, nil)
	removed := map[string]bool{}
	var kept []string
	for _, name := range present {
		removed[name] = true
		cp, _ := c28Strip(minimal, removed)
		r := c28RoundTrip(cp)
		if r.kind == rt.kind && (rt.kind != "roundtrip-differs" || r.detail == rt.detail) {
			continue // fails the same way without this attribute: not part of the cause
		}
		delete(removed, name)
		kept = append(kept, name)
	}
	sig = "C28:" + rt.kind + ":" + c28TypeName(minimal)
	if rt.kind == "roundtrip-differs" {
		sig += ":" + rt.detail
	}
	if len(kept) > 0 {
		sort.Strings(kept)
		sig += ":" + strings.Join(kept, "+")
	}
	return sig, minimal, rt
}

// ---------------------------------------------------------------------------------------
// text generation from the node constructors

var c28BinOps = []string{"+", "-", "*", "/", "%", "^", "==", "!=", "<", "<=", ">", ">=", "and", "or", "unless", "default", "atan2"}

var c28BinModsFull = []string{"", "bool", "on(a)", "ignoring(a)", "on()", "ignoring()", "on(a,b)", "on(a) group_left", "on(a) group_left()",
	"on(a) group_left(b)", "ignoring(a) group_right(b,c)", "ignoring() group_left(b)", "ignoring() group_right", "on() group_right",
	"bool on(a)", "bool ignoring(a) group_left(b)", "on(by)", "on(a,)"}
var c28BinModsLean = []string{"", "bool", "on(a) group_left(b)"}

var c28AggOps = []string{"sum", "avg", "count", "min", "max", "group", "stddev", "stdvar", "topk", "bottomk", "count_values", "quantile",
	"sort", "sort_desc", "drop_empty_series", "dbag"}
var c28AggParamOps = map[string]bool{"topk": true, "bottomk": true, "count_values": true, "quantile": true}
var c28AggModsFull = []string{"", "by(a)", "by(a,b)", "by()", "without(a)", "without()", "without(a,b)", "by(on,sum)", "by(a,)"}
var c28AggModsLean = []string{"", "by(a)", "without()"}

var c28SubquerySuffixes = []string{"[5s]", "[5s:]", "[5s:1s]", "[1m30s:30s]", "[5s:] offset 5s", "[5s:1s] offset -5s", "[5s:] @ 1.5", "[5s:] @ start()",
	"[5s:1s] @ end() offset 5s", "[5s:] offset [1s]", " offset 5s", " @ 1.5"}
var c28SubquerySuffixesLean = []string{"[5s:]", "[5s:1s] @ 2 offset 5s"}

func c28FunctionNames() []string {
	var out []string
	for name := range Functions {
		out = append(out, name)
	}
	sort.Strings(out)
	return out
}

// c28Leaves: every selector from the product of name x matcher list x range x modifiers, plus
// number and string literals.
func c28Leaves() []string {
	names := []string{"m", "a:b", "sum", "offset", "by", "start", ""}
	matchers := []string{"", "{}", `{a="x"}`, `{a!="x"}`, `{a=~"x.*"}`, `{a!~"x"}`, `{a=""}`, `{a="q\"\\\n"}`, "{a='é\\xff'}", "{a=`r\\aw`}",
		`{a="x",b!="y"}`, `{b="y",a="x",}`, `{a="x",a="x"}`, `{__name__="m"}`, `{__name__=~"m.*"}`, `{@what="avg"}`, `{@by="a"}`, `{a:$v}`,
		`{a="x",@what="avg",b:$v}`, `{on="x"}`, `{a=~"("}`}
	ranges := []string{"", "[5s]", "[1m30s]", "[1h]", "[1y]", "[ 5s ]", "[5s:]", "[5s:1s]", "[500ms]"}
	mods := []string{"", " offset 5s", " offset -5s", " offset 1m30s", " offset [1s]", " offset [1s,-2s]", " offset 5s offset [1s]", " offset [1s] offset 5s",
		" @ 1.5", " @ -1", " @ 0", " @ 1234567890.123", " @ 0.0005", " @ 1e18", " @ start()", " @ end()", " @ 1.5 offset 5s", " offset 5s @ 1.5",
		" @ end() offset -5s", " offset [2s] @ start()"}
	var out []string
	for _, n := range names {
		for _, m := range matchers {
			if n == "" && m == "" {
				continue
			}
			for _, r := range ranges {
				for _, mod := range mods {
					out = append(out, n+m+r+mod)
				}
			}
		}
	}
	out = append(out, "1", "0", "-1", "+1", "- 1", "0.5", ".5", "1e3", "1e100", "1e-7", "0x1F", "Inf", "-Inf", "+Inf", "NaN", "nan", "iNf", "017",
		"9223372036854775807", "9223372036854775808", "1.7976931348623157e308", "1e999", "-0", "0.1", "123456789.123456789", "5e-324", "1.",
		`"s"`, `""`, `'it\'s'`, "`r\\a\"w`", `"\xff"`, "\"é\\n\\t\\\\\"", `"é\U0001F600"`, `"\377\a"`, "'\"'")
	return out
}

var c28LeanLeaves = []string{"1", `"s"`, "m", `{a=~"x"}`, "m[5s] @ 2 offset 1s", "(m)"}

// c28Compose: every constructor applied to operands from pool (binary: every ordered pair).
func c28Compose(pool []string, binMods, aggMods, subq []string, funcs []string, argTuples bool, emit func(string)) {
	for _, op := range c28BinOps {
		for _, mod := range binMods {
			mid := " " + op + " "
			if mod != "" {
				mid = " " + op + " " + mod + " "
			}
			for _, l := range pool {
				for _, r := range pool {
					emit(l + mid + r)
				}
			}
		}
	}
	params := []string{"2", `"s"`}
	for _, op := range c28AggOps {
		for _, mod := range aggMods {
			for _, x := range pool {
				args := []string{x}
				if c28AggParamOps[op] {
					args = args[:0]
					for _, p := range params {
						args = append(args, p+", "+x)
					}
					if argTuples {
						for _, p := range pool {
							args = append(args, p+", "+x)
						}
					}
				}
				if argTuples {
					args = append(args, "", x+", "+x+", "+x, x+",")
				}
				for _, a := range args {
					if mod == "" {
						emit(op + "(" + a + ")")
					} else {
						emit(op + " " + mod + " (" + a + ")")
						emit(op + "(" + a + ") " + mod)
					}
				}
			}
		}
	}
	for _, x := range pool {
		emit("-" + x)
		emit("+" + x)
		emit("(" + x + ")")
		for _, s := range subq {
			emit(x + s)
		}
	}
	for _, f := range funcs {
		for _, x := range pool {
			emit(f + "(" + x + ")")
		}
		if argTuples {
			emit(f + "()")
			emit(f + "(m, 1)")
			emit(f + "(1, m[5s])")
			emit(f + `(m, "a", "b", "c", "d")`)
			emit(f + "(m,)")
			emit(f + " (m)")
		}
	}
	if argTuples {
		emit("nosuchfunction(m)")
	}
}

// c28LeanD1: one or two plain representatives per constructor, used as operands one level up.
func c28LeanD1() []string {
	var out []string
	for _, op := range c28BinOps {
		out = append(out, "m "+op+" m", "(m "+op+" m)")
	}
	out = append(out, "m + on(a) group_left(b) m", "m == bool 1", "sum(m)", "sum by (a) (m)", "topk(2, m)", `count_values("s", m)`,
		"-m", "+(m)", "abs(m)", "rate(m[5s])", "time()", "(m)[5s:]", "abs(m)[5s:1s]", "(1)")
	// signed operands, raw and parenthesised: the parser folds a sign into a number literal, and a
	// unary sign binds weaker than ^ and than a subquery suffix, so whether the parentheses survive
	// the round trip decides the grouping when these are operands one level up
	out = append(out, "-1", "(-1)", "(+1)", "-(1)", "(-Inf)", "(-m)", "(+m)", "-(m)", "(-1.5e3)", "(NaN)")
	return out
}

// c28LeanD2: binary in binary (both nestings, raw and parenthesised) and one level of every other
// constructor over the lean depth-1 pool; operands for depth 3.
func c28LeanD2() []string {
	var out []string
	for _, o1 := range c28BinOps {
		for _, o2 := range c28BinOps {
			out = append(out, "m "+o1+" m "+o2+" m", "(m "+o1+" m) "+o2+" m", "m "+o1+" (m "+o2+" m)")
		}
	}
	for _, x := range c28LeanD1() {
		out = append(out, "-"+x, "sum by (a) ("+x+")", "topk(2, "+x+")", "abs("+x+")", "("+x+")", x+"[5s:]")
	}
	return out
}

// ---------------------------------------------------------------------------------------
// driver

func c28Parallel(n int, f func(i int)) {
	w := runtime.GOMAXPROCS(0)
	var wg sync.WaitGroup
	var next int64 = -1
	for k := 0; k < w; k++ {
		wg.Add(1)
		go func() {
			defer wg.Done()
			for {
				i := int(atomic.AddInt64(&next, 1))
				if i >= n {
					return
				}
				f(i)
			}
		}()
	}
	wg.Wait()
}

var c28SeenOutcome sync.Map

// c28Outcome forwards each distinct outcome once (the report takes a global lock per call).
func c28Outcome(rep *mc.Report, key string) {
	if _, dup := c28SeenOutcome.LoadOrStore(key, true); !dup {
		rep.Outcome(key)
	}
}

var c28ErrNorm = regexp.MustCompile(`"[^"]*"|'[^']*'|[0-9]+`)

type c28Counters struct {
	texts, accepted, rejected, roundtrips, nontrivial int64

	mu    sync.Mutex
	found map[string]*c28Found // by signature: the smallest example (deterministic whatever the worker schedule)
}

type c28Found struct {
	count  int64
	text   string
	desc   string
	detail map[string]any
}

func (c *c28Counters) violate(sig, text, desc string, detail map[string]any) {
	c.mu.Lock()
	defer c.mu.Unlock()
	if c.found == nil {
		c.found = map[string]*c28Found{}
	}
	f := c.found[sig]
	if f == nil {
		f = &c28Found{text: text, desc: desc, detail: detail}
		c.found[sig] = f
	} else if len(text) < len(f.text) || (len(text) == len(f.text) && text < f.text) {
		f.text, f.desc, f.detail = text, desc, detail
	}
	f.count++
}

func (c *c28Counters) flush(rep *mc.Report) {
	var sigs []string
	for s := range c.found {
		sigs = append(sigs, s)
	}
	sort.Strings(sigs)
	for _, s := range sigs {
		f := c.found[s]
		f.detail["inputs_with_this_signature"] = f.count
		rep.Violate(s, f.desc, f.detail)
	}
}

// c28CheckText runs the whole oracle on one input text.
func c28CheckText(rep *mc.Report, part string, text string, cnt *c28Counters) {
	atomic.AddInt64(&cnt.texts, 1)
	r := c28Parse(text)
	if r.panicked {
		c28Outcome(rep, "panic")
		cnt.violate("C28:parser-panics", text, fmt.Sprintf("ParseExpr(%q) panics: %s", text, r.panicVal), map[string]any{"part": part, "input": text})
		return
	}
	if r.err == errUnexpected {
		// ParseExpr's blanket recover() caught a runtime panic (nil dereference, index out of range, ...) raised
		// inside the lexer/parser, dumped the stack on stderr and turned it into this sentinel: the parser did panic
		c28Outcome(rep, "internal-panic")
		cnt.violate("C28:parser-internal-panic-recovered", text, fmt.Sprintf("ParseExpr(%q): a runtime panic inside the parser was caught by its recover() (errUnexpected)", text),
			map[string]any{"part": part, "input": text})
		return
	}
	if r.err != nil {
		atomic.AddInt64(&cnt.rejected, 1)
		c28Outcome(rep, "rejected:" + c28ErrNorm.ReplaceAllString(r.err.Error(), "_"))
		return
	}
	if c28IsNil(r.expr) {
		c28Outcome(rep, "nil-nil")
		cnt.violate("C28:parser-returns-neither-value-nor-error", text, fmt.Sprintf("ParseExpr(%q) returns a nil expression and a nil error", text),
			map[string]any{"part": part, "input": text})
		return
	}
	atomic.AddInt64(&cnt.accepted, 1)
	var sb strings.Builder
	nodes, opt := c28Dump(&sb, r.expr)
	key := sb.String()
	rep.State(key)
	if nodes >= 2 || opt {
		rep.Nontrivial(key)
	}
	rt := c28RoundTrip(r.expr)
	atomic.AddInt64(&cnt.roundtrips, 1)
	if rt.kind == "ok" {
		c28Outcome(rep, "ok:" + c28TypeName(r.expr))
		return
	}
	sig, minimal, mrt := c28Signature(r.expr)
	c28Outcome(rep, sig)
	mp, _, _ := c28Print(minimal)
	cnt.violate(sig, text, fmt.Sprintf("accepted input %q prints as %q: %s (%s); smallest failing sub-expression prints as %q: %s (%s)",
		text, rt.printed, rt.kind, rt.detail, mp, mrt.kind, mrt.detail),
		map[string]any{"part": part, "input": text, "printed": rt.printed, "kind": rt.kind, "detail": rt.detail, "minimal_printed": mp})
}

var c28Tokens = []string{"m", "1", "5s", `"s"`, "(", ")", "{", "}", "[", "]", ",", "+", "-", "^", "==", "=~", ":", "@", "offset", "by", "sum", "bool", "on", `a="x"`}

const c28Chars = "a1s.ex0\"'`\\{}[]():=!~@$#\n -," + "é\xff"

func TestVerifC28(t *testing.T) {
	rep := mc.NewReport("C28")
	depth := mc.Pick(2, 3)
	tokLen := mc.Pick(4, 5)
	chrLen := mc.Pick(4, 5)
	rep.Bounds["ast_operator_depth"] = depth
	rep.Bounds["token_string_max_len"] = tokLen
	rep.Bounds["token_alphabet"] = len(c28Tokens)
	rep.Bounds["char_string_max_len"] = chrLen
	rep.Bounds["char_alphabet"] = len([]rune(c28Chars))
	rep.Rule = "A: every text from the node constructors (17 binary ops x 18 modifier forms, 16 aggregations x 9 grouping forms in prefix and suffix position, " +
		"every function of the function table, unary +/-, parentheses, 12 subquery/offset/@ suffixes) over operand pools: depth 0 = product of 7 names x 21 matcher lists " +
		"(all 4 matcher types, quoting styles, @internal and $binding extensions) x 9 ranges x 20 offset/@/offset-list modifier forms plus 36 literals; depth 1 = all constructors " +
		"and all modifier forms over 6 lean leaves; depth 2 = all constructors (3 binary / 3 grouping modifier forms) over the lean leaves and 48 lean depth-1 forms (each binary op " +
		"raw and parenthesised, parentheses do not count as a level); depth 3 (thorough) = all constructors over 1000+ lean depth-2 forms (every op-in-op nesting, left/right, raw/parenthesised) " +
		"paired with 3 small operands. Every accepted text gives an AST that is printed and re-parsed. B: every string of <= L tokens over 24 tokens, joined by blanks and joined directly. " +
		"C: every string of <= L characters over 30 characters. Non-trivial = accepted expression with at least two nodes or a selector with an optional attribute (distinct by canonical AST dump)"
	rep.Assume("structural equality ignores positions; nil and empty label lists are equal; label matchers are compared as a set; all NaN literals are equal; engine-only fields of VectorSelector (What, GroupBy, ...) and SubqueryExpr.Offset are not set by the parser and not compared")

	var cnt c28Counters
	// ---- part A
	var texts []string
	seen := map[string]bool{}
	emit := func(s string) {
		if !seen[s] {
			seen[s] = true
			texts = append(texts, s)
		}
	}
	for _, s := range c28Leaves() {
		emit(s)
	}
	nLeaves := len(texts)
	funcs := c28FunctionNames()
	c28Compose(c28LeanLeaves, c28BinModsFull, c28AggModsFull, c28SubquerySuffixes, funcs, true, emit)
	nD1 := len(texts) - nLeaves
	pool2 := append(append([]string{}, c28LeanLeaves...), c28LeanD1()...)
	c28Compose(pool2, c28BinModsLean, c28AggModsLean, c28SubquerySuffixes, funcs, false, emit)
	nD2 := len(texts) - nLeaves - nD1
	nD3 := 0
	if depth >= 3 {
		small := []string{"m", "1", "m + m"}
		d2 := c28LeanD2()
		for _, x := range d2 {
			for _, y := range small {
				for _, op := range c28BinOps {
					for _, mod := range []string{"", "on(a) group_left(b)"} {
						mid := " " + op + " "
						if mod != "" {
							mid += mod + " "
						}
						emit(x + mid + y)
						emit(y + mid + x)
					}
				}
			}
		}
		c28Compose(d2, nil, c28AggModsLean, c28SubquerySuffixes, []string{"abs", "rate", "clamp", "label_replace"}, false, emit)
		nD3 = len(texts) - nLeaves - nD1 - nD2
	}
	rep.Bounds["texts_depth0"] = nLeaves
	rep.Bounds["texts_depth1"] = nD1
	rep.Bounds["texts_depth2"] = nD2
	rep.Bounds["texts_depth3"] = nD3
	c28Parallel(len(texts), func(i int) { c28CheckText(rep, "A", texts[i], &cnt) })
	aTexts, aAcc := cnt.texts, cnt.accepted
	for _, s := range []string{"m{a=\"x\"}[5s] offset 5s", "m + on(a) group_left(b) (m ^ m)", "topk(2, m) by (a)"} {
		if r := c28Parse(s); r.err == nil && !r.panicked {
			p, _, _ := c28Print(r.expr)
			rep.Sample(map[string]string{"input": s, "printed": p, "roundtrip": c28RoundTrip(r.expr).kind})
		}
	}

	// ---- part B: token strings; unit of work = first two tokens
	nt := len(c28Tokens)
	bBefore := cnt.texts
	for L := 0; L <= tokLen && !mc.Expired(); L++ {
		if L < 2 {
			idx := make([]int, L)
			var rec func(pos int)
			rec = func(pos int) {
				if pos == L {
					parts := make([]string, L)
					for i, k := range idx {
						parts[i] = c28Tokens[k]
					}
					c28CheckText(rep, "B", strings.Join(parts, " "), &cnt)
					return
				}
				for k := 0; k < nt; k++ {
					idx[pos] = k
					rec(pos + 1)
				}
			}
			rec(0)
			continue
		}
		c28Parallel(nt*nt, func(u int) {
			idx := make([]int, L)
			idx[0], idx[1] = u/nt, u%nt
			parts := make([]string, L)
			var rec func(pos int)
			rec = func(pos int) {
				if pos == L {
					for i, k := range idx {
						parts[i] = c28Tokens[k]
					}
					c28CheckText(rep, "B", strings.Join(parts, " "), &cnt)
					c28CheckText(rep, "B", strings.Join(parts, ""), &cnt)
					return
				}
				for k := 0; k < nt; k++ {
					idx[pos] = k
					rec(pos + 1)
				}
			}
			rec(2)
		})
	}
	bTexts := cnt.texts - bBefore

	// ---- part C: character strings; unit of work = first character
	chars := []rune(c28Chars)
	// \xff is an invalid byte, keep it as a raw byte
	alphabet := make([]string, 0, len(chars))
	for _, c := range c28Chars {
		_ = c
	}
	for i := 0; i < len(c28Chars); {
		if c28Chars[i] == 0xff {
			alphabet = append(alphabet, "\xff")
			i++
			continue
		}
		n := 1
		if c28Chars[i] >= 0x80 {
			n = 2
		}
		alphabet = append(alphabet, c28Chars[i:i+n])
		i += n
	}
	_ = chars
	rep.Bounds["char_alphabet"] = len(alphabet)
	na := len(alphabet)
	cBefore := cnt.texts
	for L := 1; L <= chrLen && !mc.Expired(); L++ {
		c28Parallel(na, func(first int) {
			idx := make([]int, L)
			idx[0] = first
			var sb strings.Builder
			var rec func(pos int)
			rec = func(pos int) {
				if pos == L {
					sb.Reset()
					for _, k := range idx {
						sb.WriteString(alphabet[k])
					}
					c28CheckText(rep, "C", sb.String(), &cnt)
					return
				}
				for k := 0; k < na; k++ {
					idx[pos] = k
					rec(pos + 1)
				}
			}
			rec(1)
		})
	}
	cTexts := cnt.texts - cBefore
	if mc.Expired() {
		rep.Cap("wall_budget")
	}
	rep.Parts["A_constructors"] = map[string]any{"texts": aTexts, "accepted": aAcc}
	rep.Parts["B_token_strings"] = map[string]any{"texts": bTexts}
	rep.Parts["C_char_strings"] = map[string]any{"texts": cTexts}
	rep.Parts["totals"] = map[string]any{"texts": cnt.texts, "accepted": cnt.accepted, "rejected": cnt.rejected, "roundtrips": cnt.roundtrips}
	// executions = ParseExpr calls on enumerated texts + one print/re-parse per accepted text
	rep.AddCounts(cnt.texts+cnt.roundtrips, cnt.texts+cnt.roundtrips, 0, 0)
	cnt.flush(rep)
	if err := rep.Write(); err != nil {
		t.Fatal(err)
	}
	t.Logf("C28: texts=%d accepted=%d rejected=%d violations=%d", cnt.texts, cnt.accepted, cnt.rejected, rep.NumViolations())
}
