//go:build verif

package promql

// C27 stub storage: a promql.Handler over raw per-series data.
//
// Data model (the series-query contract as implemented by internal/api/promql.go QuerySeries and
// tsValues.value): storage keeps, per series (tag tuple) and per time slot of the level of detail, a row
// aggregate (count, sum, min, max, sum of squares). A series query names the tags to group by, one
// "what" (digest) and an optional Range; storage merges the rows of all series of a group slot by slot
// (count, sum, sumsquare add up; min/max fold) and derives the value of the requested digest from the
// merged row: avg = sum/count, countsec = count/lodStep, count = count*queryStep/lodStep (queryStep is
// Range when set, else the query step), stddev = sample standard deviation, ... . A slot without rows
// yields no value (NilValue).
//
// In this stub every raw point is ONE measurement v: count=1, sum=min=max=v, sumsquare=v*v. With a level
// of detail of one second and ranges equal to the step, the storage-side fold of a digest over a group is,
// by definition, the aggregation of the per-series values, which is what a reduction relies on.

import (
	"context"
	"fmt"
	"math"
	"sort"
	"strconv"
	"strings"
	"sync"

	"github.com/VKCOM/statshouse/internal/data_model"
	"github.com/VKCOM/statshouse/internal/format"
)

type c27RawSeries struct {
	tags []int64   // value of metric tag i (index into c27Stub.metric.Tags); 0 = tag not set
	vals []float64 // value at data slot k (time = t0 + k*grid of the stub), NaN = no row
}

type c27QueryLog struct {
	what    string
	groupBy []int
	rng     int64
}

type c27Stub struct {
	metric *format.MetricMetaValue
	series []c27RawSeries
	t0     int64 // time of data slot 0
	grid   int64 // spacing of the data slots in seconds (0 = 1)

	mu      sync.Mutex
	queries []c27QueryLog
}

func c27NewMetric(kind string) *format.MetricMetaValue {
	m := &format.MetricMetaValue{MetricID: 2000, Name: "m", Kind: kind, Tags: []format.MetricMetaTag{
		{}, {Name: "a"}, {Name: "b"},
	}}
	_ = m.RestoreCachedInfo()
	return m
}

func (s *c27Stub) GetHostName(hostID int32) string   { return "h" + strconv.Itoa(int(hostID)) }
func (s *c27Stub) GetHostName64(hostID int64) string { return "h" + strconv.FormatInt(hostID, 10) }
func (s *c27Stub) GetTagValue(qry TagValueQuery) string {
	if qry.TagValueID == 0 {
		return ""
	}
	return "v" + strconv.FormatInt(qry.TagValueID, 10)
}
func (s *c27Stub) GetTagValueID(qry TagValueIDQuery) (int64, error) {
	if strings.HasPrefix(qry.TagValue, "v") {
		if n, err := strconv.ParseInt(qry.TagValue[1:], 10, 64); err == nil {
			return n, nil
		}
	}
	return 0, ErrNotFound
}
func (s *c27Stub) GetTagFilter(metric *format.MetricMetaValue, tagIndex int, tagValue string) (data_model.TagValue, error) {
	if tagValue == "" {
		return data_model.NewTagValue("", 0), nil
	}
	id, err := s.GetTagValueID(TagValueIDQuery{TagValue: tagValue})
	if err != nil {
		return data_model.NewTagValue(tagValue, format.TagValueIDDoesNotExist), nil
	}
	return data_model.NewTagValue(tagValue, id), nil
}
func (s *c27Stub) MatchMetrics(f *data_model.QueryFilter) error {
	f.MatchMetrics(map[string]*format.MetricMetaValue{s.metric.Name: s.metric})
	return nil
}
func (s *c27Stub) QueryTagValueIDs(ctx context.Context, qry TagValuesQuery) ([]int64, error) {
	seen := map[int64]bool{}
	var out []int64
	for _, sr := range s.series {
		if int(qry.Tag.Index) < len(sr.tags) {
			if v := sr.tags[qry.Tag.Index]; !seen[v] {
				seen[v] = true
				out = append(out, v)
			}
		}
	}
	sort.Slice(out, func(i, j int) bool { return out[i] < out[j] })
	return out, nil
}
func (s *c27Stub) Alloc(n int) *[]float64 {
	v := make([]float64, n)
	return &v
}
func (s *c27Stub) Free(*[]float64)                {}
func (s *c27Stub) Tracef(format string, a ...any) {}

type c27Row struct {
	count, sum, min, max, sumsq float64
}

// c27RowValue mirrors api tsValues.value for the digests the engine can request here.
func c27RowValue(r c27Row, what DigestWhat, queryStep, lodStep int64) float64 {
	mulDiv := func(v float64) float64 { return v * float64(queryStep) / float64(lodStep) }
	var v float64
	switch what {
	case DigestCount:
		v = mulDiv(r.count)
	case DigestCountSec:
		v = r.count / float64(lodStep)
	case DigestCountRaw:
		v = r.count
	case DigestSum:
		v = mulDiv(r.sum)
	case DigestSumSec:
		v = r.sum / float64(lodStep)
	case DigestSumRaw:
		v = r.sum
	case DigestAvg:
		v = r.sum / r.count
	case DigestMin:
		v = r.min
	case DigestMax:
		v = r.max
	case DigestStdDev, DigestStdVar:
		if r.count < 2 {
			v = 0
		} else {
			v = math.Max((r.sumsq-r.sum*r.sum/r.count)/(r.count-1), 0)
			if what == DigestStdDev {
				v = math.Sqrt(v)
			}
		}
	default:
		return math.NaN() // digest not modelled: the harness treats it as an unsupported request
	}
	if math.IsNaN(v) || math.IsInf(v, 0) {
		return 0 // replaceInfNan
	}
	return v
}

func (s *c27Stub) QuerySeries(ctx context.Context, qry *SeriesQuery) (Series, func(), error) {
	if len(qry.Whats) != 1 {
		return Series{}, nil, fmt.Errorf("c27 stub: exactly one what expected, got %d", len(qry.Whats))
	}
	what := qry.Whats[0]
	s.mu.Lock()
	s.queries = append(s.queries, c27QueryLog{what: what.Digest.String(), groupBy: append([]int{}, qry.GroupBy...), rng: qry.Range})
	s.mu.Unlock()
	queryStep := qry.Range
	if queryStep == 0 {
		queryStep = qry.Timescale.Step
	}
	// level-of-detail step of every time index
	lodStep := make([]int64, 0, len(qry.Timescale.Time))
	for _, l := range qry.Timescale.LODs {
		for i := 0; i < l.Len; i++ {
			lodStep = append(lodStep, l.Step)
		}
	}
	for len(lodStep) < len(qry.Timescale.Time) {
		lodStep = append(lodStep, qry.Timescale.LODs[len(qry.Timescale.LODs)-1].Step)
	}
	// group series
	nTags := len(s.metric.Tags)
	type group struct {
		key  string
		tags []int64
		rows []c27Row
		has  []bool
	}
	groups := map[string]*group{}
	var order []string
	grid := s.grid
	if grid == 0 {
		grid = 1
	}
	for _, sr := range s.series {
		key := ""
		gt := make([]int64, nTags)
		for _, x := range qry.GroupBy {
			if 0 <= x && x < nTags {
				gt[x] = sr.tags[x]
				key += fmt.Sprintf("%d=%d,", x, sr.tags[x])
			}
		}
		g := groups[key]
		if g == nil {
			g = &group{key: key, tags: gt, rows: make([]c27Row, len(qry.Timescale.Time)), has: make([]bool, len(qry.Timescale.Time))}
			groups[key] = g
			order = append(order, key)
		}
		for ti, t := range qry.Timescale.Time {
			step := lodStep[ti]
			// rows of this series whose time falls into the slot [t, t+step), shifted by the query offset
			for k, v := range sr.vals {
				if math.IsNaN(v) {
					continue
				}
				rt := s.t0 + int64(k)*grid + qry.Offset
				if rt < t || rt >= t+step {
					continue
				}
				r := &g.rows[ti]
				if !g.has[ti] {
					*r = c27Row{count: 1, sum: v, min: v, max: v, sumsq: v * v}
					g.has[ti] = true
				} else {
					r.count++
					r.sum += v
					r.sumsq += v * v
					r.min = math.Min(r.min, v)
					r.max = math.Max(r.max, v)
				}
			}
		}
	}
	sort.Strings(order)
	res := Series{Meta: SeriesMeta{Metric: qry.Metric}}
	for _, key := range order {
		g := groups[key]
		any := false
		for _, h := range g.has {
			any = any || h
		}
		if !any {
			continue // storage returns no row for this tag tuple at all
		}
		vals := s.Alloc(len(qry.Timescale.Time))
		for ti := range *vals {
			if g.has[ti] {
				(*vals)[ti] = c27RowValue(g.rows[ti], what.Digest, queryStep, lodStep[ti])
			} else {
				(*vals)[ti] = NilValue
			}
		}
		res.Data = append(res.Data, SeriesData{Values: vals, What: what})
		x := len(res.Data) - 1
		for _, tx := range qry.GroupBy {
			if 0 <= tx && tx < nTags {
				res.AddTagAt(x, &SeriesTag{
					Metric: qry.Metric,
					Index:  tx + SeriesTagIndexOffset,
					ID:     format.TagID(tx),
					Name:   qry.Metric.Tags[tx].Name,
					Value:  g.tags[tx],
				})
			}
		}
	}
	res.Meta.Total = len(res.Data)
	return res, func() {}, nil
}
