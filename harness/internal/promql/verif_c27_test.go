//go:build verif

package promql

// C27: PromQL evaluation matches operator definitions and rewrites (reductions) preserve results.
//
// Real Engine (NewEvaluator + Run, i.e. Engine.Exec) over the stub storage of verif_c27_stub_test.go.
// For every enumerated expression and every enumerated series set:
//   1. with the reduction rules disabled the engine evaluates over the raw series; the result must be one
//      of the results of a direct reference evaluator of the operator definitions (missing points excluded);
//   2. with the reduction rules enabled (the unchanged engine) every expression for which a reduction is
//      applied must give an acceptable result as well (same reference), i.e. pushing the aggregation /
//      over-time function into the storage query must not change the result.
// "One of the results": where the statement leaves the value of an aggregate over NO points open (count = 0
// or no sample, group = 1 or no sample, stddev/stdvar = 0 or no sample, count_over_time of an empty window
// = 0 or no sample) the reference is evaluated under all 16 combinations of these conventions.

import (
	"context"
	"fmt"
	"math"
	"regexp"
	"runtime"
	"sort"
	"strings"
	"sync"
	"sync/atomic"
	"testing"
	"time"

	"github.com/VKCOM/statshouse-go"

	"github.com/VKCOM/statshouse/internal/data_model"
	"github.com/VKCOM/statshouse/internal/promql/parser"
	"github.com/VKCOM/statshouse/internal/verif/mc"
)

const c27T0 = int64(1_000_000)

// one immutable metric description shared by all runs
var c27ValueMetric = c27NewMetric("value")

// c27Scale: the time axis of a query. Data slot k of a series sits at t0 + k*grid; grid is the finest level-of-detail
// step of the timescale the query gets. coarse == 0: the whole requested interval is recent, one level of detail.
// coarse != 0: the request starts before one of the storage resolution switches relative to TimeNow (now-52h+2s:
// 1m -> 1s tables, now-33d+2m: 1h -> 1m tables), so the timescale has TWO levels (LODs[0] = coarse steps up to the
// switch edge, LODs[1] = grid steps after it). The data and every compared timestamp lie in the fine part, at least
// (largest range + grid) after the edge, so every window is made of fine points only and the operator definitions
// apply unchanged; the coarse part is evaluated by the engine but not compared.
type c27Scale struct {
	name   string
	t0     int64 // time of data slot 0
	grid   int64 // finest step = spacing of the data slots
	coarse int64 // coarsest step (0 = single level)
	edge   int64 // time of the first fine point (two-level only)
	now    int64 // Options.TimeNow
	start  int64 // Query.Start
	tail   int64 // compared grid points after the last data slot
}

var c27Single = &c27Scale{name: "single-level-1s", t0: c27T0, grid: 1, now: c27T0 + 1000, start: c27T0}

// 60 s + 1 s: edge = now-52h+2s = c27T0-100 (a multiple of 60), two coarse points requested before it
var c27Two60x1 = &c27Scale{name: "two-level-60s+1s", t0: c27T0, grid: 1, coarse: 60, edge: c27T0 - 100,
	now: c27T0 - 100 + 52*3600 - 2, start: c27T0 - 100 - 120, tail: 2}

// 3600 s + 60 s: edge = now-33d+2m = 993600 (a multiple of 3600), data from 1000020 (a multiple of 60) on a 60 s grid
var c27Two3600x60 = &c27Scale{name: "two-level-3600s+60s", t0: 1_000_020, grid: 60, coarse: 3600, edge: 993_600,
	now: 993_600 + 33*86400 - 120, start: 993_600 - 7200, tail: 2}

func (sc *c27Scale) end(nSlots int) int64 { return sc.t0 + (int64(nSlots)+sc.tail)*sc.grid }

// rangeClass: where a range lies relative to the two steps of the timescale
func (sc *c27Scale) rangeClass(r int64) string {
	switch {
	case r < sc.grid:
		return "range-below-fine-step"
	case r == sc.grid:
		return "range-eq-fine-step"
	case sc.coarse == 0 || r > sc.coarse:
		return "range-above-coarse-step"
	case r == sc.coarse:
		return "range-eq-coarse-step"
	}
	return "range-between-steps"
}

// ---------------------------------------------------------------------------------------
// expressions

type c27Node struct {
	kind     string // "m" | "overtime" | "agg"
	fn       string // over-time function or aggregation operator
	param    string // quantile / topk / bottomk parameter ("" if none)
	grouping int    // 0 none, 1 by (a), 2 without (a)
	rng      int64  // over-time range in seconds
	subquery bool   // over-time over a sub-query `X[r:]` instead of a matrix selector `m[r]`
	inner    *c27Node
}

func (n *c27Node) text() string {
	switch n.kind {
	case "m":
		return "m"
	case "overtime":
		if n.subquery {
			return fmt.Sprintf("%s(%s[%ds:])", n.fn, n.inner.text(), n.rng)
		}
		return fmt.Sprintf("%s(%s[%ds])", n.fn, n.inner.text(), n.rng)
	case "agg":
		g := ""
		switch n.grouping {
		case 1:
			g = " by (a)"
		case 2:
			g = " without (a)"
		}
		if n.param != "" {
			return fmt.Sprintf("%s%s (%s, %s)", n.fn, g, n.param, n.inner.text())
		}
		return fmt.Sprintf("%s%s (%s)", n.fn, g, n.inner.text())
	}
	return "?"
}

var c27GroupingNames = [...]string{"none", "by", "without"}

// template: the expression with grouping and the numeric range abstracted away
func (n *c27Node) template() string {
	switch n.kind {
	case "m":
		return "m"
	case "overtime":
		if n.subquery {
			return fmt.Sprintf("%s(%s[r:])", n.fn, n.inner.template())
		}
		return fmt.Sprintf("%s(%s[r])", n.fn, n.inner.template())
	case "agg":
		if n.param != "" {
			return fmt.Sprintf("%s(%s,%s)", n.fn, n.param, n.inner.template())
		}
		return fmt.Sprintf("%s(%s)", n.fn, n.inner.template())
	}
	return "?"
}

// firstRange: the range of the outermost over-time call (0 if none)
func (n *c27Node) firstRange() int64 {
	for x := n; x != nil; x = x.inner {
		if x.kind == "overtime" {
			return x.rng
		}
	}
	return 0
}

// withRangesDividedBy: the same expression with every range divided by div (the equivalent expression on a grid of 1 s)
func (n *c27Node) withRangesDividedBy(div int64) *c27Node {
	if n == nil || div == 1 {
		return n
	}
	c := *n
	c.rng = n.rng / div
	c.inner = n.inner.withRangesDividedBy(div)
	return &c
}

// perSecondReduction: sum / count applied directly to the selector (rule #0 asks storage for sumsec / countsec)
func (n *c27Node) perSecondReduction() bool {
	for x := n; x != nil && x.inner != nil; x = x.inner {
		if x.inner.kind == "m" {
			return x.kind == "agg" && (x.fn == "sum" || x.fn == "count")
		}
	}
	return false
}

func (n *c27Node) outerGrouping() int {
	for x := n; x != nil; x = x.inner {
		if x.kind == "agg" {
			return x.grouping
		}
	}
	return 0
}

// ---------------------------------------------------------------------------------------
// reference evaluator of the operator definitions

type c27Conv struct {
	countEmptyZero, groupEmptyOne, stdEmptyZero, countOverTimeEmptyZero bool
}

func c27Convs() []c27Conv {
	var out []c27Conv
	for i := 0; i < 16; i++ {
		out = append(out, c27Conv{i&1 != 0, i&2 != 0, i&4 != 0, i&8 != 0})
	}
	return out
}

type c27RefSeries struct {
	tags [3]int64 // value per metric tag index, 0 = absent
	at   func(t int64) float64
}

func c27TagKey(tags [3]int64) string {
	var p []string
	for i, v := range tags {
		if v != 0 {
			p = append(p, fmt.Sprintf("%d=v%d", i, v))
		}
	}
	return strings.Join(p, ",")
}

func c27Present(vs []float64) []float64 {
	var out []float64
	for _, v := range vs {
		if !math.IsNaN(v) {
			out = append(out, v)
		}
	}
	return out
}

func c27PopVar(p []float64) float64 {
	var sum float64
	for _, v := range p {
		sum += v
	}
	mean := sum / float64(len(p))
	var res float64
	for _, v := range p {
		res += (v - mean) * (v - mean)
	}
	return res / float64(len(p))
}

// c27Fold: the definition of every fold over the PRESENT points p (missing ones already excluded).
func c27Fold(fn string, param float64, p []float64, emptyZero, emptyOne bool) float64 {
	if len(p) == 0 {
		if emptyZero {
			return 0
		}
		if emptyOne {
			return 1
		}
		return math.NaN()
	}
	switch fn {
	case "sum":
		var s float64
		for _, v := range p {
			s += v
		}
		return s
	case "min":
		m := p[0]
		for _, v := range p {
			m = math.Min(m, v)
		}
		return m
	case "max":
		m := p[0]
		for _, v := range p {
			m = math.Max(m, v)
		}
		return m
	case "avg":
		var s float64
		for _, v := range p {
			s += v
		}
		return s / float64(len(p))
	case "count":
		return float64(len(p))
	case "group":
		return 1
	case "stdvar":
		return c27PopVar(p)
	case "stddev":
		return math.Sqrt(c27PopVar(p))
	case "quantile":
		s := append([]float64{}, p...)
		sort.Float64s(s)
		if param < 0 {
			return math.Inf(-1)
		}
		if param > 1 {
			return math.Inf(1)
		}
		rank := param * float64(len(s)-1)
		lo := math.Floor(rank)
		hi := math.Min(float64(len(s)-1), lo+1)
		w := rank - lo
		return s[int(lo)]*(1-w) + s[int(hi)]*w
	}
	return math.NaN()
}

func c27ParamValue(s string) float64 {
	var v float64
	fmt.Sscanf(s, "%g", &v)
	return v
}

func c27RefEval(sc *c27Scale, n *c27Node, data []c27RawSeries, conv c27Conv) []c27RefSeries {
	switch n.kind {
	case "m":
		var out []c27RefSeries
		for _, sr := range data {
			sr := sr
			if len(c27Present(sr.vals)) == 0 {
				continue // storage has no row for this tag tuple: the series does not exist
			}
			var tg [3]int64
			copy(tg[:], sr.tags)
			out = append(out, c27RefSeries{tags: tg, at: func(t int64) float64 {
				d := t - sc.t0
				if d < 0 || d%sc.grid != 0 || d/sc.grid >= int64(len(sr.vals)) {
					return math.NaN()
				}
				return sr.vals[d/sc.grid]
			}})
		}
		return out
	case "overtime":
		in := c27RefEval(sc, n.inner, data, conv)
		out := make([]c27RefSeries, len(in))
		fn := strings.TrimSuffix(n.fn, "_over_time")
		for i := range in {
			src := in[i]
			out[i] = c27RefSeries{tags: src.tags, at: func(t int64) float64 {
				var w []float64
				for tt := t; tt > t-n.rng; tt -= sc.grid { // the window (t-r, t] on the grid of the finest step
					w = append(w, src.at(tt))
				}
				p := c27Present(w)
				switch fn {
				case "count":
					return c27Fold(fn, 0, p, conv.countOverTimeEmptyZero, false)
				}
				return c27Fold(fn, 0, p, false, false)
			}}
		}
		return out
	case "agg":
		in := c27RefEval(sc, n.inner, data, conv)
		type grp struct {
			tags    [3]int64
			members []c27RefSeries
		}
		groups := map[string]*grp{}
		var order []string
		for _, s := range in {
			var tg [3]int64
			switch n.grouping {
			case 1:
				tg[1] = s.tags[1]
			case 2:
				tg = s.tags
				tg[1] = 0
			}
			k := c27TagKey(tg)
			g := groups[k]
			if g == nil {
				g = &grp{tags: tg}
				groups[k] = g
				order = append(order, k)
			}
			g.members = append(g.members, s)
		}
		var out []c27RefSeries
		param := c27ParamValue(n.param)
		for _, k := range order {
			g := groups[k]
			out = append(out, c27RefSeries{tags: g.tags, at: func(t int64) float64 {
				var col []float64
				for _, m := range g.members {
					col = append(col, m.at(t))
				}
				p := c27Present(col)
				switch n.fn {
				case "count":
					return c27Fold(n.fn, 0, p, conv.countEmptyZero, false)
				case "group":
					return c27Fold(n.fn, 0, p, false, conv.groupEmptyOne)
				case "stddev", "stdvar":
					return c27Fold(n.fn, 0, p, conv.stdEmptyZero, false)
				}
				return c27Fold(n.fn, param, p, false, false)
			}})
		}
		return out
	}
	return nil
}

type c27Table map[string][]float64 // series key -> value per output time

func c27Materialise(rs []c27RefSeries, times []int64) c27Table {
	out := c27Table{}
	for _, s := range rs {
		row := make([]float64, len(times))
		any := false
		for i, t := range times {
			row[i] = s.at(t)
			if !math.IsNaN(row[i]) {
				any = true
			}
		}
		if any {
			out[c27TagKey(s.tags)] = row
		}
	}
	return out
}

func c27Close(a, b float64) bool {
	if math.IsNaN(a) || math.IsNaN(b) {
		return math.IsNaN(a) && math.IsNaN(b)
	}
	if a == b {
		return true
	}
	return math.Abs(a-b) <= 1e-9*math.Max(1, math.Max(math.Abs(a), math.Abs(b)))
}

// c27TablesEqual: an absent series and a series without any point are the same thing.
func c27TablesEqual(a, b c27Table, n int) (bool, string, int) { return c27TablesEqualSlack(a, b, n, 0) }

// c27TablesEqualSlack: slack is an absolute allowance used only by the large-magnitude family (values near
// 1.7e9): there the rounding of a correct two-pass computation depends on the summation order and is of the
// order of ulp(value); it is 0 for every other family, whose comparison is unchanged.
func c27TablesEqualSlack(a, b c27Table, n int, slack float64) (bool, string, int) {
	keys := map[string]bool{}
	for k := range a {
		keys[k] = true
	}
	for k := range b {
		keys[k] = true
	}
	var ks []string
	for k := range keys {
		ks = append(ks, k)
	}
	sort.Strings(ks)
	for _, k := range ks {
		ra, rb := a[k], b[k]
		for i := 0; i < n; i++ {
			va, vb := math.NaN(), math.NaN()
			if ra != nil {
				va = ra[i]
			}
			if rb != nil {
				vb = rb[i]
			}
			if !c27Close(va, vb) && !(slack > 0 && math.Abs(va-vb) <= slack) {
				return false, k, i
			}
		}
	}
	return true, "", 0
}

func (t c27Table) String() string {
	var ks []string
	for k := range t {
		ks = append(ks, k)
	}
	sort.Strings(ks)
	var sb strings.Builder
	for _, k := range ks {
		fmt.Fprintf(&sb, "{%s}[", k)
		for i, v := range t[k] {
			if i > 0 {
				sb.WriteByte(' ')
			}
			if math.IsNaN(v) {
				sb.WriteByte('-')
			} else {
				fmt.Fprintf(&sb, "%g", v)
			}
		}
		sb.WriteString("] ")
	}
	return strings.TrimSpace(sb.String())
}

// ---------------------------------------------------------------------------------------
// running the real engine

type c27RunResult struct {
	err       string
	times     []int64
	table     c27Table
	dupKey    string // two result series with the same tags
	reduced   bool   // a reduction rule was applied
	whole     bool   // ... to the whole expression (else to a sub-expression only)
	reduction string // description of the applied reduction(s)
	queries   []c27QueryLog
}

const (
	c27ModeAsIs     = 0 // the engine as it is (reduction rules as configured by the caller)
	c27ModeRepaired = 1 // diagnosis only: the reduction's `what` is handed to the storage query
)

func c27Run(sc *c27Scale, data []c27RawSeries, expr string, nSlots int, mode int) (res c27RunResult) {
	defer func() {
		if p := recover(); p != nil {
			res.err = fmt.Sprintf("panic: %v", p)
		}
	}()
	stub := &c27Stub{metric: c27ValueMetric, t0: sc.t0, grid: sc.grid, series: data}
	ng := NewEngine(time.UTC, 0)
	ev, err := ng.NewEvaluator(context.Background(), stub, Query{Start: sc.start, End: sc.end(nSlots), Step: 1, Expr: expr,
		Options: Options{TimeNow: sc.now, Mode: data_model.RangeQuery}})
	if err != nil {
		res.err = err.Error()
		return res
	}
	if problem := sc.checkTimescale(&ev); problem != "" {
		res.err = "harness: " + problem
		return res
	}
	if len(ev.ars) != 0 {
		res.reduced = true
		var d []string
		parser.Inspect(ev.ast, func(node parser.Node, _ []parser.Node) error {
			if s, ok := node.(*parser.VectorSelector); ok && s.OmitNameTag {
				d = append(d, fmt.Sprintf("what=%q groupBy=%v without=%v range=%d", s.What, s.GroupBy, s.GroupWithout, s.Range))
				if mode == c27ModeRepaired && s.What != "" {
					s.Whats = []string{s.What}
				}
			}
			return nil
		})
		res.reduction = strings.Join(d, "; ")
		top := ev.ast
		for {
			p, ok := top.(*parser.ParenExpr)
			if !ok {
				break
			}
			top = p.Expr
		}
		_, res.whole = ev.ars[top]
	}
	v, cancel, err := ev.Run()
	if err != nil {
		res.err = err.Error()
		return res
	}
	defer cancel()
	ts, ok := v.(*TimeSeries)
	if !ok {
		res.err = fmt.Sprintf("unexpected result type %T", v)
		return res
	}
	// the engine widens the evaluated interval by the largest range; only the requested timestamps are compared
	lo, hi := c27Requested(sc, ts.Time, nSlots)
	res.times = append([]int64{}, ts.Time[lo:hi]...)
	if int64(len(res.times)) != int64(nSlots)+sc.tail {
		res.err = fmt.Sprintf("harness: %d compared timestamps expected, the result has %d", int64(nSlots)+sc.tail, len(res.times))
		return res
	}
	res.table = c27Table{}
	for _, d := range ts.Series.Data {
		var tg [3]int64
		for id, t := range d.Tags.ID2Tag {
			if t.SValue == "" {
				continue
			}
			switch id {
			case "0", "1", "2":
				var n int64
				fmt.Sscanf(t.SValue, "v%d", &n)
				tg[id[0]-'0'] = n
			}
		}
		row := append([]float64{}, (*d.Values)[lo:hi]...)
		any := false
		for _, x := range row {
			if !math.IsNaN(x) {
				any = true
			}
		}
		if !any {
			continue
		}
		k := c27TagKey(tg)
		if _, dup := res.table[k]; dup {
			res.dupKey = k
		}
		res.table[k] = row
	}
	stub.mu.Lock()
	res.queries = stub.queries
	stub.mu.Unlock()
	return res
}

// checkTimescale: the timescale the engine got is the one the scale promises (guards against a vacuous family).
func (sc *c27Scale) checkTimescale(ev *evaluator) string {
	lods := ev.t.LODs
	if sc.coarse == 0 {
		if len(lods) != 1 || lods[0].Step != sc.grid {
			return fmt.Sprintf("scale %s: one level of step %d expected, got %+v", sc.name, sc.grid, lods)
		}
		return ""
	}
	if len(lods) != 2 || lods[0].Step != sc.coarse || lods[1].Step != sc.grid {
		return fmt.Sprintf("scale %s: levels %d+%d expected, got %+v", sc.name, sc.coarse, sc.grid, lods)
	}
	if first := ev.t.Time[lods[0].Len]; first != sc.edge {
		return fmt.Sprintf("scale %s: first fine point expected at %d, is at %d", sc.name, sc.edge, first)
	}
	return ""
}

func c27Requested(sc *c27Scale, times []int64, nSlots int) (lo, hi int) {
	lo, hi = len(times), len(times)
	for i, t := range times {
		if t >= sc.t0 && i < lo {
			lo = i
		}
		if t >= sc.end(nSlots) {
			hi = i
			break
		}
	}
	if lo > hi {
		lo = hi
	}
	return lo, hi
}

// ---------------------------------------------------------------------------------------
// oracle

// c27MatchesReference: is the engine's table one of the acceptable evaluations of n?
func c27MatchesReference(sc *c27Scale, n *c27Node, data []c27RawSeries, got *c27RunResult) (ok bool, key string, ti int, want c27Table) {
	slack := 0.0
	for _, s := range data {
		for _, v := range s.vals {
			if a := math.Abs(v); a > 1e6 && a*1e-12 > slack {
				slack = a * 1e-12
			}
		}
	}
	for ci, conv := range c27Convs() {
		ref := c27Materialise(c27RefEval(sc, n, data, conv), got.times)
		eq, k, i := c27TablesEqualSlack(got.table, ref, len(got.times), slack)
		if eq {
			return true, "", 0, ref
		}
		if ci == 0 {
			key, ti, want = k, i, ref
		}
	}
	return false, key, ti, want
}

// c27TopKCheck: the part of topk / bottomk that holds for the per-timestamp definition and for the engine's
// whole-series ranking alike (the statement leaves the choice open, see notes): every returned series is an
// input series of that group with its values unchanged, at most k series per group, and a series that is present
// everywhere and strictly larger (topk) / smaller (bottomk) than a returned one everywhere is returned too.
func c27TopKCheck(sc *c27Scale, n *c27Node, data []c27RawSeries, got *c27RunResult) (string, string) {
	k := int(c27ParamValue(n.param))
	var firstProblem, firstDesc string
	for _, conv := range c27Convs() {
		in := c27Materialise(c27RefEval(sc, n.inner, data, conv), got.times)
		problem, desc := "", ""
		groupOf := func(key string) string {
			var tg [3]int64
			for _, p := range strings.Split(key, ",") {
				var i int
				var v int64
				if _, err := fmt.Sscanf(p, "%d=v%d", &i, &v); err == nil {
					tg[i] = v
				}
			}
			switch n.grouping {
			case 0:
				return ""
			case 1:
				return fmt.Sprintf("a=%d", tg[1])
			}
			tg[1] = 0
			return c27TagKey(tg)
		}
		perGroup := map[string][]string{}
		for key, row := range got.table {
			src, ok := in[key]
			if !ok {
				problem, desc = "returns-foreign-series", fmt.Sprintf("result series {%s} is not an input series", key)
				break
			}
			for i := range row {
				if !c27Close(row[i], src[i]) {
					problem, desc = "changes-values", fmt.Sprintf("result series {%s} differs from the input series at time index %d: %g vs %g", key, i, row[i], src[i])
				}
			}
			perGroup[groupOf(key)] = append(perGroup[groupOf(key)], key)
		}
		if problem == "" {
			members := map[string][]string{}
			for key := range in {
				members[groupOf(key)] = append(members[groupOf(key)], key)
			}
			for g, keys := range members {
				ret := perGroup[g]
				want := k
				if len(keys) < want {
					want = len(keys)
				}
				if len(ret) > want {
					problem, desc = "too-many-series", fmt.Sprintf("group %q: %d series returned, k=%d", g, len(ret), k)
				}
				if len(ret) < want {
					problem, desc = "too-few-series", fmt.Sprintf("group %q: %d series returned, %d non-empty input series, k=%d", g, len(ret), len(keys), k)
				}
				full := func(key string) bool {
					for _, v := range in[key] {
						if math.IsNaN(v) {
							return false
						}
					}
					return true
				}
				dominates := func(x, y string) bool { // x strictly above y everywhere, both present everywhere
					if !full(x) || !full(y) {
						return false
					}
					for i := range in[x] {
						if !(in[x][i] > in[y][i]) {
							return false
						}
					}
					return true
				}
				isRet := map[string]bool{}
				for _, r := range ret {
					isRet[r] = true
				}
				for _, y := range ret {
					for _, x := range keys {
						if isRet[x] {
							continue
						}
						if n.fn == "topk" && dominates(x, y) {
							problem, desc = "drops-dominant-series", fmt.Sprintf("group %q: {%s} is returned but {%s}, larger at every timestamp, is not", g, y, x)
						}
						if n.fn == "bottomk" && dominates(y, x) {
							problem, desc = "drops-dominant-series", fmt.Sprintf("group %q: {%s} is returned but {%s}, smaller at every timestamp, is not", g, y, x)
						}
					}
				}
			}
		}
		if problem == "" {
			return "", ""
		}
		if firstProblem == "" {
			firstProblem, firstDesc = problem, desc
		}
	}
	return firstProblem, firstDesc
}

func c27HasTopK(n *c27Node) *c27Node {
	for x := n; x != nil; x = x.inner {
		if x.kind == "agg" && (x.fn == "topk" || x.fn == "bottomk") {
			return x
		}
	}
	return nil
}

// c27Judge returns "" when the engine result is acceptable, else (signature class, description).
func c27Judge(sc *c27Scale, n *c27Node, data []c27RawSeries, got *c27RunResult) (string, string) {
	if got.err != "" {
		return "engine-error", got.err
	}
	if got.dupKey != "" {
		return "duplicate-result-series", "two result series carry the tags {" + got.dupKey + "}"
	}
	if tk := c27HasTopK(n); tk != nil {
		if tk != n {
			return "", "" // topk below another operator: not judged (see notes)
		}
		p, d := c27TopKCheck(sc, n, data, got)
		if p == "" {
			return "", ""
		}
		return n.fn + "-" + p, d
	}
	ok, key, ti, want := c27MatchesReference(sc, n, data, got)
	if ok {
		return "", ""
	}
	t := int64(0)
	if ti < len(got.times) {
		t = (got.times[ti] - sc.t0) / sc.grid
	}
	return "differs", fmt.Sprintf("series {%s} at slot %d: engine %s, definition %s", key, t, got.table.String(), want.String())
}

// c27Classify: where some but not all / none / all of the contributing points are missing.
func c27MissingClass(data []c27RawSeries) string {
	miss, pres := 0, 0
	for _, s := range data {
		for _, v := range s.vals {
			if math.IsNaN(v) {
				miss++
			} else {
				pres++
			}
		}
	}
	switch {
	case miss == 0:
		return "all-present"
	case pres == 0:
		return "all-missing"
	}
	return "some-missing"
}

// ---------------------------------------------------------------------------------------
// enumeration

type c27Dataset struct {
	layout int
	series []c27RawSeries
	slots  int
	scale  *c27Scale
}

// c27OnScale: the same series sets on another time axis
func c27OnScale(ds []c27Dataset, sc *c27Scale) []c27Dataset {
	out := append([]c27Dataset{}, ds...)
	for i := range out {
		out[i].scale = sc
	}
	return out
}

func (d *c27Dataset) String() string {
	var p []string
	for _, s := range d.series {
		var vs []string
		for _, v := range s.vals {
			if math.IsNaN(v) {
				vs = append(vs, "-")
			} else {
				vs = append(vs, fmt.Sprintf("%g", v))
			}
		}
		p = append(p, fmt.Sprintf("{a=%d,b=%d}[%s]", s.tags[1], s.tags[2], strings.Join(vs, " ")))
	}
	return strings.Join(p, " ")
}

var c27Values = []float64{math.NaN(), 1, 2, 5}

// tag layouts: 0 = three series, two share a (a=1,b=1),(a=1,b=2),(a=2,b=1); 1 = b unset on the first, the
// first two differ only in b, the third shares b with the second: (a=1,b=0),(a=1,b=2),(a=2,b=2)
var c27Layouts = [][][]int64{
	{{0, 1, 1}, {0, 1, 2}, {0, 2, 1}},
	{{0, 1, 0}, {0, 1, 2}, {0, 2, 2}},
}

func c27Rows(slots int) [][]float64 {
	out := [][]float64{{}}
	for i := 0; i < slots; i++ {
		var next [][]float64
		for _, p := range out {
			for _, v := range c27Values {
				next = append(next, append(append([]float64{}, p...), v))
			}
		}
		out = next
	}
	return out
}

// c27Datasets: nSeries series over `slots` slots; the first `fullSeries` series range over every row, the
// others over the representative rows `reps`.
func c27Datasets(nSeries, slots, fullSeries int, reps [][]float64) []c27Dataset {
	all := c27Rows(slots)
	var out []c27Dataset
	for layout := range c27Layouts {
		choice := make([]int, nSeries)
		var rec func(i int)
		rec = func(i int) {
			if i == nSeries {
				d := c27Dataset{layout: layout, slots: slots, scale: c27Single}
				for s := 0; s < nSeries; s++ {
					rows := all
					if s >= fullSeries {
						rows = reps
					}
					d.series = append(d.series, c27RawSeries{tags: c27Layouts[layout][s], vals: rows[choice[s]]})
				}
				out = append(out, d)
				return
			}
			rows := all
			if i >= fullSeries {
				rows = reps
			}
			for c := range rows {
				choice[i] = c
				rec(i + 1)
			}
		}
		rec(0)
	}
	return out
}

var c27Reducible = []string{"avg", "min", "max", "sum", "count", "stddev", "stdvar"}

type c27AggSpec struct{ fn, param string }

var c27AggsAll = []c27AggSpec{{"sum", ""}, {"min", ""}, {"max", ""}, {"avg", ""}, {"count", ""}, {"group", ""}, {"stddev", ""}, {"stdvar", ""},
	{"quantile", "0"}, {"quantile", "0.5"}, {"quantile", "1"}, {"topk", "1"}, {"topk", "2"}, {"bottomk", "1"}, {"bottomk", "2"}}
var c27AggsLean = []c27AggSpec{{"sum", ""}, {"min", ""}, {"max", ""}, {"avg", ""}, {"count", ""}, {"stddev", ""}, {"quantile", "0.5"}, {"topk", "1"}}

func c27Exprs(aggs []c27AggSpec, ranges []int64) (instant, windowed []*c27Node) {
	m := &c27Node{kind: "m"}
	for _, a := range c27AggsAll {
		for g := 0; g < 3; g++ {
			instant = append(instant, &c27Node{kind: "agg", fn: a.fn, param: a.param, grouping: g, inner: m})
		}
	}
	for _, f := range c27Reducible {
		for _, r := range ranges {
			ot := &c27Node{kind: "overtime", fn: f + "_over_time", rng: r, inner: m}
			windowed = append(windowed, ot)
			for _, a := range aggs {
				for g := 0; g < 3; g++ {
					// op(f_over_time(m[r]))
					windowed = append(windowed, &c27Node{kind: "agg", fn: a.fn, param: a.param, grouping: g, inner: ot})
					// f_over_time(op(m)[r:])
					windowed = append(windowed, &c27Node{kind: "overtime", fn: f + "_over_time", rng: r, subquery: true,
						inner: &c27Node{kind: "agg", fn: a.fn, param: a.param, grouping: g, inner: m}})
				}
			}
		}
	}
	return instant, windowed
}

// ---------------------------------------------------------------------------------------
// driver

type c27Case struct {
	node *c27Node
	data *c27Dataset
}

type c27Found struct {
	count  int64
	size   int
	key    string
	desc   string
	detail map[string]any
}

type c27Collector struct {
	mu    sync.Mutex
	found map[string]*c27Found
}

func (c *c27Collector) violate(sig string, size int, key, desc string, detail map[string]any) {
	c.mu.Lock()
	defer c.mu.Unlock()
	if c.found == nil {
		c.found = map[string]*c27Found{}
	}
	f := c.found[sig]
	better := f == nil || size < f.size || (size == f.size && key < f.key)
	if f == nil {
		f = &c27Found{}
		c.found[sig] = f
	}
	if better {
		f.size, f.key, f.desc, f.detail = size, key, desc, detail
	}
	f.count++
}

func c27Parallel(n int, f func(i int)) {
	w := runtime.GOMAXPROCS(0)
	var wg sync.WaitGroup
	var next int64 = -1
	for k := 0; k < w; k++ {
		wg.Add(1)
		go func() {
			defer wg.Done()
			for {
				i := int(atomic.AddInt64(&next, 1))
				if i >= n {
					return
				}
				f(i)
			}
		}()
	}
	wg.Wait()
}

var c27ErrNorm = regexp.MustCompile(`[0-9]+|"[^"]*"`)

// c27InnermostFailing attributes a failure of a nested expression to its inner part when that part, evaluated
// on its own by the engine in the same mode, already fails.
func c27InnermostFailing(n *c27Node, d *c27Dataset) *c27Node {
	for n.inner != nil && n.inner.kind != "m" {
		r := c27Run(d.scale, d.series, n.inner.text(), d.slots, c27ModeAsIs)
		if cls, _ := c27Judge(d.scale, n.inner, d.series, &r); cls == "" {
			break
		}
		n = n.inner
	}
	return n
}

func TestVerifC27(t *testing.T) {
	statshouse.Configure(nil, "", "") // the engine reports usage metrics through the global client: discard them
	rep := mc.NewReport("C27")
	thorough := mc.Thorough()
	ranges := []int64{1, 2}
	aggs := c27AggsLean
	if thorough {
		aggs = c27AggsAll
		ranges = []int64{1, 2, 3}
	}
	instant, windowed := c27Exprs(aggs, ranges)
	// representative columns / rows for the series that do not range over everything
	nan := math.NaN()
	instReps := [][]float64{{nan, 1}, {1, nan}, {2, 5}, {5, 5}}
	winReps := [][]float64{{nan, nan, nan}, {1, nan, 5}, {2, 2, nan}, {5, 1, 2}}
	if !thorough {
		winReps = winReps[1:3]
	}
	// instant aggregations: 3 series x 2 slots, series 1-2 over every row, series 3 over 4 representative rows
	instData := c27Datasets(3, 2, 2, instReps)
	// windows: 2 series x 3 slots (thorough: plus 3 series x 3 slots with two representative series)
	winData := c27Datasets(2, 3, 1, winReps)
	if thorough {
		winData = append(winData, c27Datasets(2, 4, 1, [][]float64{{1, nan, nan, 5}, {2, 5, 1, nan}})...)
		winData = append(winData, c27Datasets(3, 3, 1, winReps[1:3])...)
	}
	var cases []c27Case
	for i := range instData {
		for _, n := range instant {
			cases = append(cases, c27Case{n, &instData[i]})
		}
		cases = append(cases, c27Case{&c27Node{kind: "m"}, &instData[i]})
	}
	for i := range winData {
		for _, n := range windowed {
			cases = append(cases, c27Case{n, &winData[i]})
		}
	}
	// large-magnitude family: the same instant aggregations over series whose values are unix-time sized
	// (1758499194 + {1,2,5}): an operator that is only right for small numbers (cancellation in a one-pass
	// variance, float32 intermediates, integer overflow) shows here and nowhere else
	bigData := c27Datasets(3, 2, 1, instReps[2:4])
	for i := range bigData {
		for s := range bigData[i].series {
			vals := append([]float64{}, bigData[i].series[s].vals...)
			for j, v := range vals {
				if !math.IsNaN(v) {
					vals[j] = 1758499194 + v
				}
			}
			bigData[i].series[s].vals = vals
		}
		for _, n := range instant {
			cases = append(cases, c27Case{n, &bigData[i]})
		}
	}
	singleCases := len(cases)
	// two-level timescales: every expression of the alphabet also on a timescale with a coarse and a fine part, the
	// ranges equal to the fine step, between the two steps, equal to the coarse step and above it
	type twoLevel struct {
		sc     *c27Scale
		ranges []int64
	}
	twos := []twoLevel{{c27Two60x1, []int64{1, 2, 60, 61}}}
	if thorough {
		twos = []twoLevel{{c27Two60x1, []int64{1, 2, 30, 59, 60, 61}}, {c27Two3600x60, []int64{60, 120, 1800, 3600, 3660}}}
	}
	// series sets of this part: windows 2 series x 3 slots, first over all rows, second over one (thorough two)
	// representative rows; instant 3 series x 2 slots with one (thorough two) representative third series
	twoWinData := c27Datasets(2, 3, 1, winReps[:mc.Pick(1, 2)])
	twoInstData := c27Datasets(3, 2, 2, instReps[:mc.Pick(1, 2)])
	if !thorough {
		// quick: values {missing, 1, 5} only (27 instead of 64 rows for the series that ranges over everything)
		without2 := func(in []c27Dataset) (out []c27Dataset) {
			for _, d := range in {
				ok := true
				for _, sr := range d.series {
					for _, v := range sr.vals {
						ok = ok && v != 2
					}
				}
				if ok {
					out = append(out, d)
				}
			}
			return out
		}
		twoWinData, twoInstData = without2(twoWinData), without2(twoInstData)
	}
	twoCases := map[string]any{}
	for _, tw := range twos {
		for _, r := range tw.ranges {
			if r%tw.sc.grid != 0 || tw.sc.t0-r <= tw.sc.edge {
				t.Fatalf("scale %s: range %d is not a multiple of the grid or reaches the coarse part", tw.sc.name, r)
			}
		}
		before := len(cases)
		inst2, win2 := c27Exprs(aggs, tw.ranges)
		id := c27OnScale(twoInstData, tw.sc)
		wd := c27OnScale(twoWinData, tw.sc)
		if tw.sc.grid != 1 {
			// sum(m) / count(m) directly over the selector reduce to the per-second digests sumsec / countsec, which
			// divide by the level-of-detail step: equal to the per-series evaluation only at 1 s (notes: not decided)
			keep := func(in []*c27Node) (out []*c27Node) {
				for _, n := range in {
					if !n.perSecondReduction() {
						out = append(out, n)
					}
				}
				return out
			}
			inst2, win2 = keep(inst2), keep(win2)
		}
		for i := range id {
			for _, n := range inst2 {
				cases = append(cases, c27Case{n, &id[i]})
			}
			cases = append(cases, c27Case{&c27Node{kind: "m"}, &id[i]})
		}
		for i := range wd {
			for _, n := range win2 {
				cases = append(cases, c27Case{n, &wd[i]})
			}
		}
		// the timescale the engine builds for this request (recorded; every run re-checks it)
		probe := c27Run(tw.sc, wd[len(wd)-1].series, fmt.Sprintf("sum_over_time(m[%ds])", tw.ranges[len(tw.ranges)-1]), 3, c27ModeAsIs)
		if probe.err != "" {
			t.Fatalf("scale %s: %s", tw.sc.name, probe.err)
		}
		twoCases[tw.sc.name] = map[string]any{"cases": len(cases) - before, "ranges_s": fmt.Sprint(tw.ranges), "expressions_windowed": len(win2),
			"datasets_windowed": len(wd), "datasets_instant": len(id), "levels_s": fmt.Sprintf("%d+%d", tw.sc.coarse, tw.sc.grid),
			"first_fine_point_before_data_slot_0_s": tw.sc.t0 - tw.sc.edge, "compared_timestamps_after_last_slot": tw.sc.tail}
	}
	rep.Parts["two_level_timescales"] = twoCases
	rep.Parts["single_level_timescale"] = map[string]any{"cases": singleCases}
	rep.Bounds["expressions_instant"] = len(instant)
	rep.Bounds["expressions_windowed"] = len(windowed)
	rep.Bounds["datasets_instant"] = len(instData)
	rep.Bounds["datasets_windowed"] = len(winData)
	rep.Bounds["values"] = "NaN(missing),1,2,5"
	rep.Bounds["ranges_s"] = fmt.Sprint(ranges)
	rep.Rule = "expressions: op in {sum,min,max,avg,count,group,stddev,stdvar,quantile(0/0.5/1),topk(1/2),bottomk(1/2)} x {none, by (a), without (a)} over m (instant part, and plain m); " +
		"f_over_time(m[r]), op(f_over_time(m[r])) and f_over_time(op(m)[r:]) for the 7 reducible f and r in the stated ranges (quick: 8 representative ops, thorough: all 15); " +
		"series sets: instant part 3 series x 2 slots (two series over all 16 rows of {missing,1,2,5}, the third over 4 representative rows), windowed part 2 series x 3 slots (first over all 64 rows, second over representative rows; thorough adds 2x4 and 3x3 sets), each under two tag layouts; " +
		"two-level timescales (request straddling the now-52h 1m->1s switch: 60 s + 1 s levels; thorough also the now-33d 1h->1m switch: 3600 s + 60 s levels, data on a 60 s grid): the same expression forms with ranges equal to the fine step, between the steps, equal to the coarse step and above it, on series sets lying in the fine part (compared: the data slots and 2 further fine points; every window lies in the fine part); " +
		"every case is run with the reduction rules disabled (engine over raw series) and, when a reduction applies, with the unchanged engine. Non-trivial = case whose series set contains a missing point and at least two present points"
	rep.Assume("stub storage contract modelled on internal/api QuerySeries/tsValues.value: rows (count,sum,min,max,sumsquare) merged per group and slot, digest derived from the merged row; every raw point is one measurement; level of detail 1 s")
	rep.Assume("value of count/group/stddev/stdvar over no present point and of count_over_time over an empty window is left open (no sample or 0/1): the reference is evaluated under all 16 combinations")

	var coll c27Collector
	var execs, nontrivial, reducedCases, judged int64
	outcomes := sync.Map{}
	outcome := func(k string) {
		if _, dup := outcomes.LoadOrStore(k, true); !dup {
			rep.Outcome(k)
		}
	}
	describe := func(c c27Case) map[string]any {
		return map[string]any{"expr": c.node.text(), "series": c.data.String(), "layout": c.data.layout, "timescale": c.data.scale.name}
	}
	// failsOnSingleLevel: does the same case (ranges counted in grid steps) fail on a one-level timescale in the
	// current mode of the rule table as well? Used only to name a violation found on a two-level timescale.
	failsOnSingleLevel := func(c c27Case, mode int) bool {
		n := c.node.withRangesDividedBy(c.data.scale.grid)
		one := *c27Single
		one.tail = c.data.scale.tail // the same timestamps after the last slot are compared
		r := c27Run(&one, c.data.series, n.text(), c.data.slots, mode)
		atomic.AddInt64(&execs, 1)
		cls, _ := c27Judge(&one, n, c.data.series, &r)
		return cls != ""
	}
	size := func(c c27Case) int {
		n := len(c.node.text())
		for _, s := range c.data.series {
			for _, v := range s.vals {
				if !math.IsNaN(v) {
					n += 100
				}
			}
		}
		return n
	}
	// reductions that fail: template -> grouping kinds, decided after the run
	type redFail struct {
		c        c27Case
		desc     string
		repaired bool // would be right if the reduction's what reached storage
	}
	var redMu sync.Mutex
	redFails := map[string]map[int]*redFail{}

	savedRules := reductionRules
	defer func() { reductionRules = savedRules }()
	const chunk = 40000
	for from := 0; from < len(cases) && !mc.Expired(); from += chunk {
		to := from + chunk
		if to > len(cases) {
			to = len(cases)
		}
		part := cases[from:to]
		// phase A: reduction rules disabled -> engine evaluates over the raw series
		reductionRules = nil
		c27Parallel(len(part), func(i int) {
			c := part[i]
			r := c27Run(c.data.scale, c.data.series, c.node.text(), c.data.slots, c27ModeAsIs)
			atomic.AddInt64(&execs, 1)
			if r.reduced {
				coll.violate("C27:harness-reduction-not-disabled", 0, c.node.text(), "a reduction was applied although the rule table is empty", describe(c))
				return
			}
			cls, desc := c27Judge(c.data.scale, c.node, c.data.series, &r)
			atomic.AddInt64(&judged, 1)
			if cls == "" {
				outcome("raw-ok:" + c.node.template())
				return
			}
			bad := c27InnermostFailing(c.node, c.data)
			sig := "C27:"
			switch {
			case cls == "engine-error":
				sig += "engine-error:" + c27ErrNorm.ReplaceAllString(desc, "_")
			case cls == "differs" && bad.kind == "agg":
				sig += "aggregation-differs:" + bad.fn + ":" + c27MissingClass(c.data.series)
			case cls == "differs" && bad.kind == "overtime":
				sig += "over-time-differs:" + bad.fn + ":" + c27MissingClass(c.data.series)
			default:
				sig += cls
			}
			if c.data.scale.coarse != 0 && !failsOnSingleLevel(c, c27ModeAsIs) {
				sig += ":only-on-two-level-timescale"
			}
			outcome(sig)
			d := describe(c)
			d["innermost_failing"] = bad.text()
			coll.violate(sig, size(c), c.node.text()+"|"+c.data.String(), fmt.Sprintf("engine over raw series (reductions disabled), timescale %s: %s on %s: %s", c.data.scale.name, c.node.text(), c.data.String(), desc), d)
		})
		// phase B: the unchanged engine (reduction rules enabled)
		reductionRules = savedRules
		c27Parallel(len(part), func(i int) {
			c := part[i]
			r := c27Run(c.data.scale, c.data.series, c.node.text(), c.data.slots, c27ModeAsIs)
			atomic.AddInt64(&execs, 1)
			if !r.reduced {
				return // no reduction applied: same evaluation as phase A
			}
			atomic.AddInt64(&reducedCases, 1)
			cls, desc := c27Judge(c.data.scale, c.node, c.data.series, &r)
			if cls == "" {
				outcome("reduced-ok:" + c.node.template())
				return
			}
			// is it acceptable without the reduction? (otherwise the operator itself is at fault: reported by phase A)
			saved := c27RunWithoutReductionInfo(c)
			if saved != "" {
				return
			}
			if !r.whole {
				// only a sub-expression was reduced: find the smallest sub-expression that fails with the reduction
				bad := c27InnermostFailing(c.node, c.data)
				rb := c27Run(c.data.scale, c.data.series, bad.text(), c.data.slots, c27ModeAsIs)
				atomic.AddInt64(&execs, 1)
				if !rb.whole {
					// the reduced part on its own is acceptable; the operator above it mishandles that (acceptable) input
					sig := "C27:aggregation-differs:" + bad.fn + ":" + c27MissingClass(c.data.series)
					if bad.kind == "overtime" {
						sig = "C27:over-time-differs:" + bad.fn + ":" + c27MissingClass(c.data.series)
					}
					if c.data.scale.coarse != 0 && !failsOnSingleLevel(c, c27ModeAsIs) {
						sig += ":only-on-two-level-timescale"
					}
					outcome(sig)
					d := describe(c)
					d["innermost_failing"] = bad.text()
					coll.violate(sig, size(c)+1000000, c.node.text()+"|"+c.data.String(), fmt.Sprintf("unchanged engine (a sub-expression is reduced: %s): %s on %s: %s", r.reduction, c.node.text(), c.data.String(), desc), d)
					return
				}
				c = c27Case{bad, c.data}
				r = rb
				_, desc = c27Judge(c.data.scale, c.node, c.data.series, &r)
			}
			rr := c27Run(c.data.scale, c.data.series, c.node.text(), c.data.slots, c27ModeRepaired)
			atomic.AddInt64(&execs, 1)
			rcls, _ := c27Judge(c.data.scale, c.node, c.data.series, &rr)
			tpl := c.node.template()
			if c.data.scale.coarse != 0 {
				// is the same expression (ranges in grid steps) on the same series right on a one-level timescale? Compared
				// in the mode that separates it from the known digest defect: with the reduction's `what` handed to
				// storage when that does not repair the two-level run, as it is otherwise
				m := c27ModeAsIs
				if rcls != "" {
					m = c27ModeRepaired
				}
				if !failsOnSingleLevel(c, m) {
					tpl += c27OnlyTwoLevel + c.data.scale.rangeClass(c.node.firstRange())
				}
			}
			redMu.Lock()
			if redFails[tpl] == nil {
				redFails[tpl] = map[int]*redFail{}
			}
			g := c.node.outerGrouping()
			cur := redFails[tpl][g]
			if cur == nil || size(c) < size(cur.c) || (size(c) == size(cur.c) && c.data.String() < cur.c.data.String()) {
				redFails[tpl][g] = &redFail{c: c, repaired: rcls == "" && (cur == nil || cur.repaired),
					desc: fmt.Sprintf("timescale %s: %s on %s: with the reduction (%s; storage was asked %v) %s", c.data.scale.name, c.node.text(), c.data.String(), r.reduction, r.queries, desc)}
			} else if rcls != "" {
				cur.repaired = false
			}
			redMu.Unlock()
			outcome("reduced-bad:" + tpl)
		})
		for _, c := range part {
			miss, pres := 0, 0
			for _, s := range c.data.series {
				for _, v := range s.vals {
					if math.IsNaN(v) {
						miss++
					} else {
						pres++
					}
				}
			}
			if miss > 0 && pres >= 2 {
				nontrivial++
			}
		}
	}
	if mc.Expired() {
		rep.Cap("wall_budget")
	}
	// signatures of failing reductions
	var tpls []string
	for tpl := range redFails {
		tpls = append(tpls, tpl)
	}
	sort.Strings(tpls)
	for _, tpl := range tpls {
		byG := redFails[tpl]
		allRepaired := true
		var gs []int
		for g, f := range byG {
			gs = append(gs, g)
			allRepaired = allRepaired && f.repaired
		}
		sort.Ints(gs)
		first := byG[gs[0]]
		d := describe(first.c)
		d["template"] = tpl
		if allRepaired && !strings.Contains(tpl, c27OnlyTwoLevel) {
			// the rule itself is sound: the result is wrong only because the `what` computed by the reduction never reaches the storage query
			d["templates_affected"] = tpl
			coll.violate("C27:reduced-query-ignores-reduction-what", size(first.c), tpl, "reduction changes the result; it would not if the reduction's `what` were passed to the storage query: "+first.desc, d)
			continue
		}
		sig := "C27:reduction-changes-result:" + tpl
		if _, none := byG[0]; !none {
			var names []string
			for _, g := range gs {
				names = append(names, c27GroupingNames[g])
			}
			sig += ":only-" + strings.Join(names, "+")
		}
		coll.violate(sig, size(first.c), tpl, "reduction changes the result (also when the reduction's `what` is passed to the storage query): "+first.desc, d)
	}
	var sigs []string
	for s := range coll.found {
		sigs = append(sigs, s)
	}
	sort.Strings(sigs)
	for _, s := range sigs {
		f := coll.found[s]
		f.detail["cases_with_this_signature"] = f.count
		rep.Violate(s, f.desc, f.detail)
	}
	for _, smp := range []struct {
		e string
		n *c27Node
	}{{"sum by (a) (m)", instant[3*0+1]}, {"", windowed[1]}} {
		d := instData[len(instData)/3]
		if smp.n.kind != "agg" || smp.n.inner.kind != "m" {
			d = winData[len(winData)/3]
		}
		reductionRules = nil
		r := c27Run(d.scale, d.series, smp.n.text(), d.slots, c27ModeAsIs)
		reductionRules = savedRules
		rep.Sample(map[string]any{"expr": smp.n.text(), "series": d.String(), "engine_over_raw_series": r.table.String()})
	}
	rep.Parts["totals"] = map[string]any{"cases": len(cases), "engine_runs": execs, "cases_with_reduction_applied": reducedCases, "reduction_templates_failing": len(redFails)}
	rep.AddCounts(execs, execs, int64(len(cases)), nontrivial)
	if err := rep.Write(); err != nil {
		t.Fatal(err)
	}
	t.Logf("C27: cases=%d engine runs=%d reduced=%d violations=%d", len(cases), execs, reducedCases, rep.NumViolations())
}

// c27RunWithoutReductionInfo re-evaluates a case with the reduction undone on the evaluator (same state as
// when no rule matches) and returns the failure class of that evaluation ("" = acceptable). Used in phase B,
// where the global rule table must stay enabled.
func c27RunWithoutReductionInfo(c c27Case) (cls string) {
	defer func() {
		if p := recover(); p != nil {
			cls = "panic"
		}
	}()
	sc := c.data.scale
	stub := &c27Stub{metric: c27ValueMetric, t0: sc.t0, grid: sc.grid, series: c.data.series}
	ng := NewEngine(time.UTC, 0)
	ev, err := ng.NewEvaluator(context.Background(), stub, Query{Start: sc.start, End: sc.end(c.data.slots), Step: 1, Expr: c.node.text(),
		Options: Options{TimeNow: sc.now, Mode: data_model.RangeQuery}})
	if err != nil {
		return "error"
	}
	ev.ars = map[parser.Expr]parser.Expr{}
	parser.Inspect(ev.ast, func(node parser.Node, _ []parser.Node) error {
		if s, ok := node.(*parser.VectorSelector); ok && s.OmitNameTag {
			s.What, s.GroupBy, s.GroupWithout, s.Range, s.OmitNameTag, s.GroupByAll = "", nil, false, 0, false, true
		}
		return nil
	})
	v, cancel, err := ev.Run()
	if err != nil {
		return "error"
	}
	defer cancel()
	ts := v.(*TimeSeries)
	lo, hi := c27Requested(sc, ts.Time, c.data.slots)
	r := c27RunResult{times: append([]int64{}, ts.Time[lo:hi]...), table: c27Table{}}
	for _, d := range ts.Series.Data {
		var tg [3]int64
		for id, t := range d.Tags.ID2Tag {
			if t.SValue != "" && (id == "0" || id == "1" || id == "2") {
				var n int64
				fmt.Sscanf(t.SValue, "v%d", &n)
				tg[id[0]-'0'] = n
			}
		}
		r.table[c27TagKey(tg)] = append([]float64{}, (*d.Values)[lo:hi]...)
	}
	cls, _ = c27Judge(sc, c.node, c.data.series, &r)
	return cls
}

const c27OnlyTwoLevel = ":only-on-two-level-timescale:"
