//go:build verif

package receiver

// C13, part D: TCP/unix stream framing - the real TCP.receiveLoop driven over a scripted in-memory net.Conn.
//
// Parts A-C hand packets to parser.parse; the stream receivers first have to CUT the byte stream into packets
// (4-byte little-endian length, body) inside one fixed receive buffer, and "decoding arbitrary bytes never ... hangs;
// it either yields metrics or reports a parse error" is a statement about that loop as well: a byte string on a
// connection must end, after finitely many reads, with every frame handed to the decoder or the connection refused.
//
// Enumerated: every stream of 1..2 (thorough 1..3) frames over a frame alphabet built around the boundaries of the
// code's own constants (MaxTCPFrameBody, receive buffer = 4+MaxTCPFrameBody):
//   declared length  {0, 1, |valid JSON packet|, |valid TL packet|, max-1, max, max+1 .. max+5 (covers buffer size and
//                     buffer size+1), 2*max, 2^20, 2^31-1, 2^31, 2^32-1}
//   delivered bytes  {0, 1, declared-1, declared} for legal lengths; {0, 1, max-1, max, max+1, max+8, declared} for
//                     max+1..max+5 (fewer than / exactly / more than fits into the receive buffer); {0, max+8, declared
//                     (2^20 only)} for the far oversized ones
//   body             a valid packet (padded with spaces), 0xff.., 0x00..
// x 6 delivery plans (how the bytes arrive across Read calls: all at once, frame by frame, header and body apart,
// header torn 1+3, body torn after its first byte, fixed 4099-byte segments); bytes of a following frame are "more
// than declared". The scripted conn behaves like a net.Conn: Read(p) with len(p)==0 returns (0,nil) at once, EOF at
// the end of the stream.
// Oracle (no clock): hang = 3 consecutive Read calls without progress (nothing consumed although bytes are pending,
// or reads after EOF was returned): the loop's state cannot change any more. Otherwise the loop must return, and
// against an independent reference splitter of the stream: the sequence of Handler callbacks (metrics by value, parse
// errors with the packet they name) equals the concatenation of what a fresh parser reports for each reference frame;
// the connection is refused (non-nil error) iff the reference meets a declared length above MaxTCPFrameBody before
// the stream ends; an incomplete last frame is dropped at EOF.

import (
	"encoding/binary"
	"errors"
	"fmt"
	"hash/crc32"
	"io"
	"net"
	"runtime/debug"
	"strings"
	"sync/atomic"
	"time"

	"github.com/VKCOM/statshouse/internal/data_model"
	"github.com/VKCOM/statshouse/internal/verif/mc"
)

const c13StallLimit = 3

var c13FramingNanos atomic.Int64

var c13Castagnoli = crc32.MakeTable(crc32.Castagnoli)

var errC13Stuck = errors.New("verif: scripted connection: the receive loop makes no progress")

type c13StuckPanic struct{}

// c13Conn is a scripted net.Conn: a finite byte stream delivered in planned segments.
type c13Conn struct {
	stream   []byte
	pos      int
	segments []int // planned segment lengths; when exhausted (or nil) the rest is one segment
	segIdx   int
	segRem   int
	reads    int
	stall    int // consecutive reads that consumed nothing although bytes were pending
	eofReads int
	stuck    string
	afterEnd int
}

func (c *c13Conn) Read(p []byte) (int, error) {
	c.reads++
	if c.stuck != "" {
		// the loop ignored the error it was given: leave it the hard way (recovered by the driver)
		c.afterEnd++
		if c.afterEnd > 16 {
			panic(c13StuckPanic{})
		}
		return 0, errC13Stuck
	}
	if c.pos >= len(c.stream) {
		c.eofReads++
		if c.eofReads > c13StallLimit {
			c.stuck = "reads-after-eof"
			return 0, errC13Stuck
		}
		return 0, io.EOF
	}
	if len(p) == 0 {
		// what every net.Conn of the standard library does: (0, nil) at once. The caller is where it was.
		c.stall++
		if c.stall >= c13StallLimit {
			c.stuck = "zero-length-read"
			return 0, errC13Stuck
		}
		return 0, nil
	}
	c.stall = 0
	if c.segRem == 0 {
		if c.segIdx < len(c.segments) {
			c.segRem = c.segments[c.segIdx]
			c.segIdx++
		} else {
			c.segRem = len(c.stream) - c.pos
		}
	}
	n := c.segRem
	if n > len(p) {
		n = len(p)
	}
	if n > len(c.stream)-c.pos {
		n = len(c.stream) - c.pos
	}
	copy(p, c.stream[c.pos:c.pos+n])
	c.pos += n
	c.segRem -= n
	return n, nil
}

type c13Addr struct{}

func (c13Addr) Network() string { return "verif" }
func (c13Addr) String() string  { return "verif" }

func (c *c13Conn) Write(p []byte) (int, error)      { return len(p), nil }
func (c *c13Conn) Close() error                     { return nil }
func (c *c13Conn) LocalAddr() net.Addr              { return c13Addr{} }
func (c *c13Conn) RemoteAddr() net.Addr             { return c13Addr{} }
func (c *c13Conn) SetDeadline(time.Time) error      { return nil }
func (c *c13Conn) SetReadDeadline(time.Time) error  { return nil }
func (c *c13Conn) SetWriteDeadline(time.Time) error { return nil }

// ---------------------------------------------------------------------------------------------------------------
// events: what the Handler saw

type c13EventHandler struct{ ev *[]string }

func c13PktKey(p []byte) string {
	return fmt.Sprintf("len=%d/crc=%08x/%08x", len(p), crc32.ChecksumIEEE(p), crc32.Checksum(p, c13Castagnoli))
}

func (h c13EventHandler) HandleMetrics(args data_model.HandlerArgs) {
	*h.ev = append(*h.ev, fmt.Sprintf("M:%+v", c13CanonOfDecoded(args.MetricBytes)))
}
func (h c13EventHandler) HandleParseError(pkt []byte, err error) {
	*h.ev = append(*h.ev, "E:"+c13PktKey(pkt))
}

// c13RefFrameEvents: what a fresh parser reports for one frame (a private copy of it).
func c13RefFrameEvents(frame []byte) (ev []string, panicked string) {
	ps := c13NewParser()
	in := append(make([]byte, 0, len(frame)), frame...)
	defer func() {
		if r := recover(); r != nil {
			panicked = fmt.Sprint(r)
		}
	}()
	_ = ps.p.parse(c13EventHandler{&ev}, nil, in, &ps.batch, &ps.scratch, "")
	return ev, ""
}

// c13RefSplit is the reference framing: frames in stream order; refused = a declared length above max was met.
func c13RefSplit(stream []byte, max uint64) (frames [][]byte, refused bool, tail int) {
	pos := 0
	for {
		if len(stream)-pos < 4 {
			return frames, false, len(stream) - pos
		}
		l := uint64(stream[pos]) | uint64(stream[pos+1])<<8 | uint64(stream[pos+2])<<16 | uint64(stream[pos+3])<<24
		if l > max {
			return frames, true, len(stream) - pos
		}
		if uint64(len(stream)-pos-4) < l {
			return frames, false, len(stream) - pos
		}
		frames = append(frames, stream[pos+4:pos+4+int(l)])
		pos += 4 + int(l)
	}
}

// ---------------------------------------------------------------------------------------------------------------
// alphabet

type c13Frame struct {
	declared  uint64
	delivered int
	fill      int // 0 valid JSON packet then spaces, 1 valid TL packet then spaces, 2 0xff, 3 0x00
	name      string
}

var c13FillNames = []string{"json+spaces", "tl+spaces", "ff", "00"}

func c13FramingPackets() (jsonPkt, tlPkt []byte) {
	return c13EncJSON([]c13Metric{{Name: "fj", Tags: [][2]string{{"k", "v"}}, HasCounter: true, Counter: 2}}),
		c13EncTL([]c13Metric{{Name: "ft", HasValue: true, Value: []float64{1.5}}, {Name: "fu", HasCounter: true, Counter: 1}})
}

func c13FramingAlphabet() []c13Frame {
	const max = uint64(MaxTCPFrameBody)
	jsonPkt, tlPkt := c13FramingPackets()
	var out []c13Frame
	add := func(declared uint64, delivered int, fill int) {
		for _, f := range out {
			if f.declared == declared && f.delivered == delivered && (f.fill == fill || delivered == 0) {
				return
			}
		}
		out = append(out, c13Frame{declared, delivered, fill, fmt.Sprintf("declared=%d,delivered=%d,body=%s", declared, delivered, c13FillNames[fill])})
	}
	legal := []uint64{0, 1, uint64(len(jsonPkt)), uint64(len(tlPkt)), max - 1, max}
	for _, l := range legal {
		for _, d := range []int{int(l), 0, 1, int(l) - 1} {
			if d < 0 || uint64(d) > l {
				continue
			}
			for fill := 0; fill < 4; fill++ {
				if fill == 0 && l < uint64(len(jsonPkt)) || fill == 1 && l < uint64(len(tlPkt)) {
					continue
				}
				if d != int(l) && fill != 2 { // incomplete frames are never decoded: one body kind
					continue
				}
				add(l, d, fill)
			}
		}
	}
	// oversized, at the boundary (max+1 .. max+5: up to the receive-buffer size and one beyond): every delivered amount
	// around what the buffer can hold, every body kind
	for _, l := range []uint64{max + 1, max + 2, max + 3, max + 4, max + 5} {
		for _, d := range []int{0, 1, int(max) - 1, int(max), int(max) + 1, int(max) + 8, int(l)} {
			if uint64(d) > l {
				continue
			}
			for _, fill := range []int{2, 3, 0} {
				if fill == 0 && d != int(l) && d != int(max) {
					continue
				}
				add(l, d, fill)
			}
		}
	}
	// oversized, far from the boundary (incl. the values where a 32-bit int would overflow): nothing / more than the
	// buffer holds / everything that was declared (2^20 only)
	for _, l := range []uint64{2 * max, 1 << 20, 1<<31 - 1, 1 << 31, 1<<32 - 1} {
		ds := []int{0, int(max) + 8}
		if l <= 1<<20 {
			ds = append(ds, int(l))
		}
		for _, d := range ds {
			add(l, d, 2)
		}
	}
	return out
}

func (f c13Frame) appendTo(w []byte, jsonPkt, tlPkt []byte) []byte {
	w = binary.LittleEndian.AppendUint32(w, uint32(f.declared))
	start := len(w)
	if cap(w)-len(w) < f.delivered {
		w = append(make([]byte, 0, 2*(len(w)+f.delivered)), w...)
	}
	w = w[:start+f.delivered]
	body := w[start:]
	fillByte, n := byte(' '), 0
	switch f.fill {
	case 0:
		n = copy(body, jsonPkt)
	case 1:
		n = copy(body, tlPkt)
	case 2:
		fillByte = 0xff
	default:
		fillByte = 0
	}
	if n < len(body) {
		rest := body[n:]
		rest[0] = fillByte
		for k := 1; k < len(rest); k *= 2 { // doubling copy
			copy(rest[k:], rest[:k])
		}
	}
	return w
}

var c13PlanNames = []string{"burst", "frame-by-frame", "header|body", "header-torn-1+3", "body-torn-after-first-byte", "segments-of-4099"}

// c13Segments: the planned segment lengths of a delivery plan for a stream made of the given frames.
func c13Segments(plan int, frames []c13Frame, streamLen int) []int {
	var s []int
	switch plan {
	case 0:
		return nil
	case 5:
		for n := 0; n < streamLen; n += 4099 {
			s = append(s, 4099)
		}
		return s
	}
	for _, f := range frames {
		switch plan {
		case 1:
			s = append(s, 4+f.delivered)
		case 2:
			s = append(s, 4)
			if f.delivered > 0 {
				s = append(s, f.delivered)
			}
		case 3:
			s = append(s, 1, 3)
			if f.delivered > 0 {
				s = append(s, f.delivered)
			}
		case 4:
			if f.delivered > 1 {
				s = append(s, 5, f.delivered-1)
			} else {
				s = append(s, 4+f.delivered)
			}
		}
	}
	return s
}

// ---------------------------------------------------------------------------------------------------------------
// one execution

type c13FramingResult struct {
	events   []string
	err      error
	panicked string
	stack    string
	conn     *c13Conn
}

func c13RunReceiveLoop(stream []byte, segments []int) (r c13FramingResult) {
	tcp := &TCP{}
	c13WireParser(&tcp.parser)
	tcp.parser.network = "tcp"
	conn := &c13Conn{stream: stream, segments: segments}
	r.conn = conn
	defer func() {
		if p := recover(); p != nil {
			if _, ok := p.(c13StuckPanic); ok {
				r.err = errC13Stuck
				return
			}
			r.panicked = fmt.Sprint(p)
			r.stack = string(debug.Stack())
		}
	}()
	r.err = tcp.receiveLoop(nil, c13EventHandler{&r.events}, &serverConn{conn: conn}, "")
	return r
}

type c13FramingStats struct {
	streams, refFrames, refused, incompleteTail, boundary int64
}

func c13FramingExecution(u *c13UnitCtx, st *c13FramingStats, refCache map[string][]string, frames []c13Frame, plan int, buf *[]byte, jsonPkt, tlPkt []byte) {
	w := (*buf)[:0]
	for _, f := range frames {
		w = f.appendTo(w, jsonPkt, tlPkt)
	}
	*buf = w
	stream := w
	u.ticks.Add(1)
	u.parses++
	st.streams++
	res := c13RunReceiveLoop(stream, c13Segments(plan, frames, len(stream)))

	refFrames, refused, tail := c13RefSplit(stream, uint64(MaxTCPFrameBody))
	st.refFrames += int64(len(refFrames))
	if refused {
		st.refused++
	}
	if !refused && tail > 0 {
		st.incompleteTail++
	}
	var names []string
	nearBoundary := false
	for _, f := range frames {
		names = append(names, f.name)
		if f.declared+8 >= uint64(MaxTCPFrameBody) && f.declared <= uint64(MaxTCPFrameBody)+8 {
			nearBoundary = true
		}
	}
	if nearBoundary {
		st.boundary++
	}
	desc := fmt.Sprintf("stream of %d bytes = frames [%s], delivered as %q", len(stream), strings.Join(names, " | "), c13PlanNames[plan])
	detail := map[string]any{"frames": names, "delivery": c13PlanNames[plan], "stream_bytes": len(stream), "reads": res.conn.reads, "bytes_consumed": res.conn.pos,
		"reference_frames": len(refFrames), "reference_refuses_connection": refused, "max_frame_body": MaxTCPFrameBody}
	outcome := "returned-nil"
	switch {
	case res.panicked != "":
		outcome = "panic"
	case res.conn.stuck != "":
		outcome = "hang:" + res.conn.stuck
	case res.err != nil:
		outcome = "refused"
	}
	u.rep.Outcome(fmt.Sprintf("framing|%s|ref_refused=%v|ref_frames=%d|tail=%v|events=%d", outcome, refused, len(refFrames), tail > 0, len(res.events)))

	if res.panicked != "" {
		detail["stack"] = c13Trim(res.stack)
		u.rep.Violate("C13:tcp-framing:panic:"+c13PanicSite(res.stack), "TCP.receiveLoop panicked on a "+desc+": "+res.panicked, detail)
		return
	}
	if res.conn.stuck != "" {
		u.rep.Violate("C13:tcp-framing:hang:"+res.conn.stuck,
			fmt.Sprintf("TCP.receiveLoop makes no progress on a %s: after %d reads and %d of %d bytes consumed it %s; %d handler callbacks so far, the connection is neither decoded further nor refused",
				desc, res.conn.reads, res.conn.pos, len(stream),
				map[string]string{"zero-length-read": "keeps calling Read with an empty buffer (a net.Conn answers (0, nil) at once, so nothing ever changes: busy loop)", "reads-after-eof": "keeps reading after EOF"}[res.conn.stuck],
				len(res.events)), detail)
		return
	}
	// expected callbacks
	var want []string
	for _, fr := range refFrames {
		k := c13PktKey(fr)
		ev, ok := refCache[k]
		if !ok {
			var p string
			ev, p = c13RefFrameEvents(fr)
			if p != "" {
				ev = append(ev, "PANIC:"+p) // parts A-C report decoder panics; here it only must not be hidden
			}
			refCache[k] = ev
		}
		want = append(want, ev...)
	}
	if refused && res.err == nil {
		u.rep.Violate("C13:tcp-framing:oversized-frame-not-refused",
			fmt.Sprintf("%s: a frame declares more than MaxTCPFrameBody=%d bytes, TCP.receiveLoop returned nil (%d callbacks) instead of refusing the connection", desc, MaxTCPFrameBody, len(res.events)), detail)
		return
	}
	if !refused && res.err != nil {
		detail["error"] = res.err.Error()
		u.rep.Violate("C13:tcp-framing:legal-stream-refused", fmt.Sprintf("%s: every declared length is <= MaxTCPFrameBody=%d, TCP.receiveLoop refused the connection: %v", desc, MaxTCPFrameBody, res.err), detail)
		return
	}
	if len(want) != len(res.events) {
		detail["want_callbacks"], detail["got_callbacks"] = c13FirstN(want, 6), c13FirstN(res.events, 6)
		u.rep.Violate("C13:tcp-framing:frames-lost-or-invented", fmt.Sprintf("%s: the reference framing has %d frames producing %d handler callbacks, TCP.receiveLoop produced %d", desc, len(refFrames), len(want), len(res.events)), detail)
		return
	}
	for i := range want {
		if want[i] != res.events[i] {
			detail["callback_index"], detail["want"], detail["got"] = i, want[i], res.events[i]
			u.rep.Violate("C13:tcp-framing:frame-decoded-differently", fmt.Sprintf("%s: handler callback %d is %s, a fresh parser on the reference frame gives %s", desc, i, res.events[i], want[i]), detail)
			return
		}
	}
}

func c13FirstN(s []string, n int) []string {
	if len(s) > n {
		return s[:n]
	}
	return s
}

// c13FramingUnits: one unit per first frame.
func c13FramingUnits(rep *mc.Report, stats *[]c13FramingStats) (units []c13Unit) {
	alphabet := c13FramingAlphabet()
	jsonPkt, tlPkt := c13FramingPackets()
	maxFrames := mc.Pick(2, 3)
	// thorough: the third frame comes from the frames that are complete or sit at the boundary (the others end the stream
	// for the reference and the code alike after two frames already)
	var names []string
	for _, f := range alphabet {
		names = append(names, f.name)
	}
	rep.Bounds["framing_frame_alphabet"] = names
	rep.Bounds["framing_max_frames_per_stream"] = maxFrames
	rep.Bounds["framing_delivery_plans"] = c13PlanNames
	rep.Bounds["framing_stall_limit_reads"] = c13StallLimit
	var third []c13Frame
	for _, f := range alphabet {
		if f.delivered <= 64 || (f.declared > uint64(MaxTCPFrameBody) && f.declared <= uint64(MaxTCPFrameBody)+5 && f.delivered >= int(MaxTCPFrameBody)) {
			third = append(third, f)
		}
	}
	*stats = make([]c13FramingStats, len(alphabet))
	for fi := range alphabet {
		fi := fi
		units = append(units, c13Unit{run: func(u *c13UnitCtx) {
			t0 := time.Now()
			defer func() { c13FramingNanos.Add(int64(time.Since(t0))) }() // for the log line only
			st := &(*stats)[fi]
			refCache := map[string][]string{}
			buf := make([]byte, 0, 1<<17)
			for plan := range c13PlanNames {
				c13FramingExecution(u, st, refCache, []c13Frame{alphabet[fi]}, plan, &buf, jsonPkt, tlPkt)
			}
			for _, second := range alphabet {
				for plan := range c13PlanNames {
					c13FramingExecution(u, st, refCache, []c13Frame{alphabet[fi], second}, plan, &buf, jsonPkt, tlPkt)
				}
				if maxFrames >= 3 && alphabet[fi].delivered <= 64 { // thorough: a short first frame, then every second, then a third
					for _, th := range third {
						for plan := range c13PlanNames {
							c13FramingExecution(u, st, refCache, []c13Frame{alphabet[fi], second, th}, plan, &buf, jsonPkt, tlPkt)
						}
					}
				}
			}
		}})
	}
	return units
}
