//go:build verif

package receiver

// C13, part A3: packet sequences through ONE reused batch object AND ONE reused receive buffer.
//
// UDP.Serve reads every datagram into the same `data` slice and hands data[:n] to parser.parse together with the same
// AddMetricsBatchBytes and scratch; TCP.receiveLoop does the same with frames that sit behind 4-byte length prefixes in
// its one buffer. The decoders fill the batch in place and reuse the capacity of every string in it. Parts A and A2
// give every packet a byte slice of its own, so a decoder that keeps a view into the packet (instead of a copy) can
// never be hurt there: the damage is done when a LATER packet is written over the same bytes, or when another decoder
// "reuses the capacity" of such a view and thereby writes into the very packet it is reading.
//
// Enumerated: every ordered pair (quick; plus every ordered triple of a reduced packet set; thorough: every triple) of
// the A2 packets in 10 spellings - the 7 of part A plus MessagePack, JSON and Protobuf with the fields of every metric
// in the opposite order (name last; any key order is valid in these formats, and where the strings sit in the packet is
// what decides whether stale views overlap unread bytes) - x 3 receive-buffer layouts:
//   udp         every packet copied to data[0:n], parse(data[:n])                    (UDP.Serve)
//   tcp-single  one frame per read: length at data[0:4], parse(data[4:4+n])          (TCP.receiveLoop, frames arriving apart)
//   tcp-burst   all frames of the sequence in the buffer before the first is parsed (TCP.receiveLoop, frames arriving together)
// Oracle: unchanged - every packet of the sequence must be delivered to Handler.HandleMetrics as its own reference batch
// (by value, at callback time), without a parse error, on the documented format branch.

import (
	"encoding/binary"
	"encoding/hex"
	"fmt"
	"math"
	"strconv"
	"strings"

	"github.com/VKCOM/statshouse/internal/agent"
	"github.com/VKCOM/statshouse/internal/data_model/gen2/tlstatshouse"
	"github.com/VKCOM/statshouse/internal/verif/mc"
	"google.golang.org/protobuf/encoding/protowire"
	"runtime/debug"
)

// ---------------------------------------------------------------------------------------------------------------
// spellings with the opposite field order

func c13EncMsgpackRev(b []c13Metric) []byte {
	e := &c13MsgpackWriter{}
	e.mapHdr(1, false)
	e.str("metrics")
	e.arrHdr(len(b), true)
	for i := range b {
		m := &b[i]
		n := 2
		for _, has := range []bool{m.HasCounter, m.HasTs, m.HasValue, m.HasUnique, m.HasHist} {
			if has {
				n++
			}
		}
		e.mapHdr(n, false)
		if m.HasHist {
			e.str("histogram")
			e.arrHdr(len(m.Hist), true)
			for _, h := range m.Hist {
				e.arrHdr(2, false)
				e.f64(h[0])
				e.f64(h[1])
			}
		}
		if m.HasUnique {
			e.str("unique")
			e.arrHdr(len(m.Unique), true)
			for _, v := range m.Unique {
				e.i64(v)
			}
		}
		if m.HasValue {
			e.str("value")
			e.arrHdr(len(m.Value), true)
			for _, v := range m.Value {
				e.f64(v)
			}
		}
		if m.HasTs {
			e.str("ts")
			e.u32(m.Ts)
		}
		if m.HasCounter {
			e.str("counter")
			e.f64(m.Counter)
		}
		e.str("tags")
		e.mapHdr(len(m.Tags), true)
		for j := len(m.Tags) - 1; j >= 0; j-- {
			e.str(m.Tags[j][0])
			e.str(m.Tags[j][1])
		}
		e.str("name")
		e.str(m.Name)
	}
	return e.w
}

func c13EncJSONRev(b []c13Metric) []byte {
	var w strings.Builder
	w.WriteString(`{"metrics":[`)
	for i := range b {
		m := &b[i]
		if i > 0 {
			w.WriteString(",")
		}
		w.WriteString("{")
		if m.HasHist {
			w.WriteString(`"histogram":[`)
			for j, h := range m.Hist {
				if j > 0 {
					w.WriteString(",")
				}
				w.WriteString("[" + c13JSONFloat(h[0]) + "," + c13JSONFloat(h[1]) + "]")
			}
			w.WriteString("],")
		}
		if m.HasUnique {
			w.WriteString(`"unique":[`)
			for j, v := range m.Unique {
				if j > 0 {
					w.WriteString(",")
				}
				w.WriteString(strconv.FormatInt(v, 10))
			}
			w.WriteString("],")
		}
		if m.HasValue {
			w.WriteString(`"value":[`)
			for j, v := range m.Value {
				if j > 0 {
					w.WriteString(",")
				}
				w.WriteString(c13JSONFloat(v))
			}
			w.WriteString("],")
		}
		if m.HasTs {
			w.WriteString(`"ts":` + strconv.FormatUint(uint64(m.Ts), 10) + ",")
		}
		if m.HasCounter {
			w.WriteString(`"counter":` + c13JSONFloat(m.Counter) + ",")
		}
		w.WriteString(`"tags":{`)
		for j := len(m.Tags) - 1; j >= 0; j-- {
			if j < len(m.Tags)-1 {
				w.WriteString(",")
			}
			w.WriteString(c13JSONStr(m.Tags[j][0]) + ":" + c13JSONStr(m.Tags[j][1]))
		}
		w.WriteString(`},"name":` + c13JSONStr(m.Name) + "}")
	}
	w.WriteString("]}")
	return []byte(w.String())
}

func c13EncProtoRawRev(b []c13Metric) []byte {
	var out []byte
	for i := range b {
		m := &b[i]
		var w []byte
		if m.HasHist {
			for _, h := range m.Hist {
				var e []byte
				e = protowire.AppendTag(e, 2, protowire.Fixed64Type)
				e = protowire.AppendFixed64(e, math.Float64bits(h[1]))
				e = protowire.AppendTag(e, 1, protowire.Fixed64Type)
				e = protowire.AppendFixed64(e, math.Float64bits(h[0]))
				w = protowire.AppendTag(w, 7, protowire.BytesType)
				w = protowire.AppendBytes(w, e)
			}
		}
		if m.HasUnique {
			var e []byte
			for _, v := range m.Unique {
				e = protowire.AppendVarint(e, uint64(v))
			}
			w = protowire.AppendTag(w, 6, protowire.BytesType)
			w = protowire.AppendBytes(w, e)
		}
		if m.HasValue {
			var e []byte
			for _, v := range m.Value {
				e = protowire.AppendFixed64(e, math.Float64bits(v))
			}
			w = protowire.AppendTag(w, 5, protowire.BytesType)
			w = protowire.AppendBytes(w, e)
		}
		if m.HasTs {
			w = protowire.AppendTag(w, 4, protowire.VarintType)
			w = protowire.AppendVarint(w, uint64(m.Ts))
		}
		if m.HasCounter {
			w = protowire.AppendTag(w, 3, protowire.Fixed64Type)
			w = protowire.AppendFixed64(w, math.Float64bits(m.Counter))
		}
		for j := len(m.Tags) - 1; j >= 0; j-- {
			var e []byte
			e = protowire.AppendTag(e, 2, protowire.BytesType)
			e = protowire.AppendString(e, m.Tags[j][1])
			e = protowire.AppendTag(e, 1, protowire.BytesType)
			e = protowire.AppendString(e, m.Tags[j][0])
			w = protowire.AppendTag(w, 2, protowire.BytesType)
			w = protowire.AppendBytes(w, e)
		}
		w = protowire.AppendTag(w, 1, protowire.BytesType)
		w = protowire.AppendString(w, m.Name)
		out = protowire.AppendTag(out, 13337, protowire.BytesType)
		out = protowire.AppendBytes(out, w)
	}
	return out
}

func c13RecvEncodings(b []c13Metric) []c13Encoding {
	out := c13Encodings(b)
	return append(out,
		c13Encoding{"msgpack-name-last", "MsgPack", c13EncMsgpackRev(b), nil},
		c13Encoding{"json-name-last", "JSON", c13EncJSONRev(b), nil},
		c13Encoding{"protobuf-name-last", "Protobuf", c13EncProtoRawRev(b), nil},
	)
}

// c13RecvPackets: all packets of the family and the indices of the reduced set (quick-tier triples): a plain, a rich
// and a three-metric batch in every spelling.
func c13RecvPackets() (all []c13PairPacket, reduced []int) {
	for bi, b := range c13PairBatches() {
		for _, e := range c13RecvEncodings(b) {
			if bi == 0 || bi == 2 || bi == 12 { // {plain}, {rich}, {one, mixed, zeroValue}
				reduced = append(reduced, len(all))
			}
			all = append(all, c13PairPacket{e, b})
		}
	}
	return all, reduced
}

// ---------------------------------------------------------------------------------------------------------------
// driving the parser on slices of one receive buffer

// parseInPlace is parse without the private copy: in is a slice of the caller's receive buffer, handed to the real
// parser.parse exactly as the receive loops hand over data[:n] / data[4+offset:4+offset+n].
func (c *c13Parser) parseInPlace(in []byte) (o c13Obs) {
	defer func() {
		if r := recover(); r != nil {
			o.Panic = fmt.Sprint(r)
			o.PanicStack = string(debug.Stack())
			c.batch = tlstatshouse.AddMetricsBatchBytes{}
		}
		for i, s := range c.stats {
			if !c13IsZero(s) {
				o.Stats = append(o.Stats, c13StatNames[i])
				*s = agent.BuiltInItemValue{}
			}
		}
	}()
	o.RetErr = c.p.parse(c13Handler{&o}, nil, in, &c.batch, &c.scratch, "")
	return o
}

func (u *c13UnitCtx) doInPlace(ps *c13Parser, orig []byte, in []byte) c13Obs {
	u.cur.Store(&orig) // the watchdog re-runs the packet alone from its pristine bytes
	u.ticks.Add(1)
	o := ps.parseInPlace(in)
	u.parses++
	return o
}

var c13RecvLayouts = []string{"udp", "tcp-single", "tcp-burst"}

// c13RecvSequence runs one sequence of packets through one parser (one batch, one scratch) and one receive buffer.
func c13RecvSequence(u *c13UnitCtx, pk []c13PairPacket, seq []int, layout int, bufSize int) {
	ps := c13NewParser()
	data := make([]byte, bufSize)
	frames := make([][]byte, len(seq))
	if layout == 2 {
		off := 0
		for i, pi := range seq {
			p := pk[pi].enc.Pkt
			binary.LittleEndian.PutUint32(data[off:], uint32(len(p)))
			copy(data[off+4:], p)
			frames[i] = data[off+4 : off+4+len(p)]
			off += 4 + len(p)
		}
	}
	prev := ""
	var prevDesc []string
	for i, pi := range seq {
		p := pk[pi]
		var in []byte
		switch layout {
		case 0:
			n := copy(data, p.enc.Pkt)
			in = data[:n]
		case 1:
			binary.LittleEndian.PutUint32(data, uint32(len(p.enc.Pkt)))
			n := copy(data[4:], p.enc.Pkt)
			in = data[4 : 4+n]
		default:
			in = frames[i]
		}
		o := u.doInPlace(ps, p.enc.Pkt, in)
		sigTag := ""
		detail := map[string]any{"encoder": p.enc.Enc, "packet_hex": hex.EncodeToString(p.enc.Pkt), "batch": p.batch,
			"receive_buffer_layout": c13RecvLayouts[layout], "position_in_sequence": i + 1}
		if i == 0 {
			detail["context"] = "first packet on a fresh parser and receive buffer"
		} else {
			sigTag = ":recvbuf:after:" + prev
			detail["previous_packets"] = prevDesc
			detail["context"] = fmt.Sprintf("packet %d of a sequence through one reused batch object and one reused receive buffer (%s layout); before it: %s",
				i+1, c13RecvLayouts[layout], strings.Join(prevDesc, " ; "))
		}
		if i == len(seq)-1 {
			u.rep.Outcome("recv|" + c13RecvLayouts[layout] + "|" + prev + "|" + p.enc.Enc + "|" + o.outcomeKey())
		}
		c13JudgeValid(u, p.enc, p.batch, &o, sigTag, detail)
		if prev != "" {
			prev += "+"
		}
		prev += p.enc.Enc
		prevDesc = append(prevDesc, fmt.Sprintf("%s encoding of %+v (hex %x)", p.enc.Enc, p.batch, p.enc.Pkt))
	}
}

// c13RecvUnits: one work unit per first packet. Returns the number of sequences and of parses they contain.
func c13RecvUnits(rep *mc.Report) (units []c13Unit, sequences int64, packetsInSequences int64) {
	pk, reduced := c13RecvPackets()
	maxLen := 0
	for _, p := range pk {
		if len(p.enc.Pkt) > maxLen {
			maxLen = len(p.enc.Pkt)
		}
	}
	// room for three frames and for whatever a decoder might append behind a stale view; the real buffers are 64 KiB
	// (UDP) and 4+MaxTCPFrameBody bytes (TCP): only "ample" matters
	bufSize := 4*(maxLen+4) + 1024
	all := make([]int, len(pk))
	for i := range all {
		all[i] = i
	}
	tripleFrom := reduced
	if mc.Thorough() {
		tripleFrom = all
	}
	rep.Bounds["recvbuf_packets"] = len(pk)
	rep.Bounds["recvbuf_spellings"] = len(c13RecvEncodings(c13PairBatches()[0]))
	rep.Bounds["recvbuf_layouts"] = len(c13RecvLayouts)
	rep.Bounds["recvbuf_triple_packets"] = len(tripleFrom)
	rep.Bounds["recvbuf_buffer_bytes"] = bufSize
	nL := int64(len(c13RecvLayouts))
	for _, first := range all {
		first := first
		units = append(units, c13Unit{run: func(u *c13UnitCtx) {
			for second := range pk {
				for l := range c13RecvLayouts {
					c13RecvSequence(u, pk, []int{first, second}, l, bufSize)
				}
			}
		}})
		sequences += int64(len(pk)) * nL
		packetsInSequences += 2 * int64(len(pk)) * nL
	}
	for _, first := range tripleFrom {
		first := first
		units = append(units, c13Unit{run: func(u *c13UnitCtx) {
			for _, second := range tripleFrom {
				for _, third := range tripleFrom {
					for l := range c13RecvLayouts {
						c13RecvSequence(u, pk, []int{first, second, third}, l, bufSize)
					}
				}
			}
		}})
		n := int64(len(tripleFrom)) * int64(len(tripleFrom)) * nL
		sequences += n
		packetsInSequences += 3 * n
	}
	return units, sequences, packetsInSequences
}
