//go:build verif

package receiver

// C13: all client wire formats decode the same batch identically and safely.
//
// Part A (equivalence): every batch of 1 metric over the full field alphabet and every batch of 2 metrics over a
// reduced alphabet is encoded by encoders written here (TL, JSON, MessagePack compact/wide, Protobuf through the
// generated pb package, hand-rolled packed and hand-rolled unpacked Protobuf) and decoded by the real parser.parse
// through the Handler callbacks; each decoder must deliver exactly the reference metric sequence, compared by value
// on the seven fields the property names, and must be detected as the documented format.
// Part B (robustness): every byte string up to a length bound, and for valid encodings every truncation and every
// single-byte substitution by representative bytes; never a panic, never a hang (>=20 s watchdog, re-run 5x), and
// every packet either yields metrics or reports a parse error to the handler.
// Part C (process-fatal inputs): MessagePack packets whose collection headers are replaced by 32-bit-length headers
// are parsed in a child process with a virtual-memory limit, because a failure there is a runtime fatal error
// (out of memory) that cannot be recovered in-process.

import (
	"bufio"
	"bytes"
	"encoding/binary"
	"encoding/hex"
	"encoding/json"
	"fmt"
	"math"
	"os"
	"os/exec"
	"path/filepath"
	"runtime"
	"runtime/debug"
	"sort"
	"strconv"
	"strings"
	"sync"
	"sync/atomic"
	"testing"
	"time"
	"unsafe"

	"github.com/tinylib/msgp/msgp"
	"google.golang.org/protobuf/encoding/protowire"
	"google.golang.org/protobuf/proto"

	"github.com/VKCOM/statshouse/internal/agent"
	"github.com/VKCOM/statshouse/internal/data_model"
	"github.com/VKCOM/statshouse/internal/data_model/gen2/tlstatshouse"
	"github.com/VKCOM/statshouse/internal/receiver/pb"
	"github.com/VKCOM/statshouse/internal/verif/mc"
)

// ---------------------------------------------------------------------------------------------------------------
// reference metric and its canonical (by-value) form

type c13Metric struct {
	Name       string
	Tags       [][2]string
	HasCounter bool
	Counter    float64
	HasTs      bool
	Ts         uint32
	HasValue   bool
	Value      []float64
	HasUnique  bool
	Unique     []int64
	HasHist    bool
	Hist       [][2]float64
}

// c13Canon is the by-value content of a metric: the seven fields of the statement. An absent optional field and a
// present one holding the zero value / an empty array are the same value (Protobuf v3 cannot tell them apart, and the
// statement does not list the field mask).
type c13Canon struct {
	Name    string
	Tags    string
	Counter uint64
	Ts      uint32
	Value   string
	Unique  string
	Hist    string
}

func c13TagsKey(tags [][2]string) string {
	s := make([]string, 0, len(tags))
	for _, t := range tags {
		s = append(s, strconv.Quote(t[0])+"="+strconv.Quote(t[1]))
	}
	sort.Strings(s) // a dictionary: order is not part of the value
	return strings.Join(s, ",")
}

func c13FloatsKey(v []float64) string {
	var b strings.Builder
	for _, f := range v {
		fmt.Fprintf(&b, "%016x,", math.Float64bits(f))
	}
	return b.String()
}

func (m *c13Metric) canon() c13Canon {
	c := c13Canon{Name: m.Name, Tags: c13TagsKey(m.Tags)}
	if m.HasCounter {
		c.Counter = math.Float64bits(m.Counter)
	}
	if m.HasTs {
		c.Ts = m.Ts
	}
	if m.HasValue {
		c.Value = c13FloatsKey(m.Value)
	}
	if m.HasUnique {
		c.Unique = fmt.Sprint(m.Unique)
		if len(m.Unique) == 0 {
			c.Unique = ""
		}
	}
	if m.HasHist {
		for _, h := range m.Hist {
			c.Hist += c13FloatsKey(h[:]) + ";"
		}
	}
	return c
}

func c13CanonOfDecoded(m *tlstatshouse.MetricBytes) c13Canon {
	c := c13Canon{Name: string(m.Name), Counter: math.Float64bits(m.Counter), Ts: m.Ts, Value: c13FloatsKey(m.Value)}
	tags := make([][2]string, 0, len(m.Tags))
	for _, t := range m.Tags {
		tags = append(tags, [2]string{string(t.Key), string(t.Value)})
	}
	c.Tags = c13TagsKey(tags)
	if len(m.Unique) != 0 {
		c.Unique = fmt.Sprint(m.Unique)
	}
	for _, h := range m.Histogram {
		c.Hist += c13FloatsKey(h[:]) + ";"
	}
	return c
}

func c13DiffFields(a, b c13Canon) []string {
	var d []string
	if a.Name != b.Name {
		d = append(d, "name")
	}
	if a.Tags != b.Tags {
		d = append(d, "tags")
	}
	if a.Counter != b.Counter {
		d = append(d, "counter")
	}
	if a.Ts != b.Ts {
		d = append(d, "ts")
	}
	if a.Value != b.Value {
		d = append(d, "value")
	}
	if a.Unique != b.Unique {
		d = append(d, "unique")
	}
	if a.Hist != b.Hist {
		d = append(d, "histogram")
	}
	return d
}

// ---------------------------------------------------------------------------------------------------------------
// encoders (independent of the decoders under test)

func c13TLString(w []byte, s string) []byte {
	if len(s) >= 254 {
		panic("c13: long TL string not needed")
	}
	w = append(w, byte(len(s)))
	w = append(w, s...)
	for n := len(s) + 1; n%4 != 0; n++ {
		w = append(w, 0)
	}
	return w
}

func c13U32(w []byte, v uint32) []byte { return binary.LittleEndian.AppendUint32(w, v) }
func c13F64(w []byte, v float64) []byte {
	return binary.LittleEndian.AppendUint64(w, math.Float64bits(v))
}

func c13EncTL(b []c13Metric) []byte {
	w := c13U32(nil, 0x56580239)
	w = c13U32(w, 0)
	w = c13U32(w, uint32(len(b)))
	for i := range b {
		m := &b[i]
		var mask uint32
		if m.HasCounter {
			mask |= 1 << 0
		}
		if m.HasValue {
			mask |= 1 << 1
		}
		if m.HasUnique {
			mask |= 1 << 2
		}
		if m.HasHist {
			mask |= 1 << 3
		}
		if m.HasTs {
			mask |= 1 << 4
		}
		w = c13U32(w, mask)
		w = c13TLString(w, m.Name)
		w = c13U32(w, uint32(len(m.Tags)))
		for _, t := range m.Tags {
			w = c13TLString(w, t[0])
			w = c13TLString(w, t[1])
		}
		if m.HasCounter {
			w = c13F64(w, m.Counter)
		}
		if m.HasTs {
			w = c13U32(w, m.Ts)
		}
		if m.HasValue {
			w = c13U32(w, uint32(len(m.Value)))
			for _, v := range m.Value {
				w = c13F64(w, v)
			}
		}
		if m.HasUnique {
			w = c13U32(w, uint32(len(m.Unique)))
			for _, v := range m.Unique {
				w = binary.LittleEndian.AppendUint64(w, uint64(v))
			}
		}
		if m.HasHist {
			w = c13U32(w, uint32(len(m.Hist)))
			for _, h := range m.Hist {
				w = c13F64(w, h[0])
				w = c13F64(w, h[1])
			}
		}
	}
	return w
}

func c13JSONStr(s string) string {
	b, _ := json.Marshal(s)
	return string(b)
}

func c13JSONFloat(f float64) string { return strconv.FormatFloat(f, 'g', -1, 64) }

func c13EncJSON(b []c13Metric) []byte {
	var w strings.Builder
	w.WriteString(`{"metrics":[`)
	for i := range b {
		m := &b[i]
		if i > 0 {
			w.WriteString(",")
		}
		w.WriteString(`{"name":` + c13JSONStr(m.Name) + `,"tags":{`)
		for j, t := range m.Tags {
			if j > 0 {
				w.WriteString(",")
			}
			w.WriteString(c13JSONStr(t[0]) + ":" + c13JSONStr(t[1]))
		}
		w.WriteString("}")
		if m.HasCounter {
			w.WriteString(`,"counter":` + c13JSONFloat(m.Counter))
		}
		if m.HasTs {
			w.WriteString(`,"ts":` + strconv.FormatUint(uint64(m.Ts), 10))
		}
		if m.HasValue {
			w.WriteString(`,"value":[`)
			for j, v := range m.Value {
				if j > 0 {
					w.WriteString(",")
				}
				w.WriteString(c13JSONFloat(v))
			}
			w.WriteString("]")
		}
		if m.HasUnique {
			w.WriteString(`,"unique":[`)
			for j, v := range m.Unique {
				if j > 0 {
					w.WriteString(",")
				}
				w.WriteString(strconv.FormatInt(v, 10))
			}
			w.WriteString("]")
		}
		if m.HasHist {
			w.WriteString(`,"histogram":[`)
			for j, h := range m.Hist {
				if j > 0 {
					w.WriteString(",")
				}
				w.WriteString("[" + c13JSONFloat(h[0]) + "," + c13JSONFloat(h[1]) + "]")
			}
			w.WriteString("]")
		}
		w.WriteString("}")
	}
	w.WriteString("]}")
	return []byte(w.String())
}

// c13MsgpackWriter abstracts the two MessagePack spellings: compact (msgp.Append*, smallest forms) and wide
// (map16/array16/str8/uint32/int64/float64 everywhere).
type c13MsgpackWriter struct {
	wide    bool
	w       []byte
	headers []int // offsets of collection headers that size a decoder allocation (metrics, tags, value, unique, histogram)
}

func (e *c13MsgpackWriter) mapHdr(n int, alloc bool) {
	if alloc {
		e.headers = append(e.headers, len(e.w))
	}
	if e.wide {
		e.w = append(e.w, 0xde, byte(n>>8), byte(n))
	} else {
		e.w = msgp.AppendMapHeader(e.w, uint32(n))
	}
}
func (e *c13MsgpackWriter) arrHdr(n int, alloc bool) {
	if alloc {
		e.headers = append(e.headers, len(e.w))
	}
	if e.wide {
		e.w = append(e.w, 0xdc, byte(n>>8), byte(n))
	} else {
		e.w = msgp.AppendArrayHeader(e.w, uint32(n))
	}
}
func (e *c13MsgpackWriter) str(s string) {
	if e.wide {
		e.w = append(e.w, 0xd9, byte(len(s)))
		e.w = append(e.w, s...)
	} else {
		e.w = msgp.AppendString(e.w, s)
	}
}
func (e *c13MsgpackWriter) f64(f float64) {
	e.w = append(e.w, 0xcb)
	e.w = binary.BigEndian.AppendUint64(e.w, math.Float64bits(f))
}
func (e *c13MsgpackWriter) u32(v uint32) {
	if e.wide {
		e.w = append(e.w, 0xce)
		e.w = binary.BigEndian.AppendUint32(e.w, v)
	} else {
		e.w = msgp.AppendUint32(e.w, v)
	}
}
func (e *c13MsgpackWriter) i64(v int64) {
	if e.wide {
		e.w = append(e.w, 0xd3)
		e.w = binary.BigEndian.AppendUint64(e.w, uint64(v))
	} else {
		e.w = msgp.AppendInt64(e.w, v)
	}
}

func c13EncMsgpack(b []c13Metric, wide bool) ([]byte, []int) {
	e := &c13MsgpackWriter{wide: wide}
	e.mapHdr(1, false)
	e.str("metrics")
	e.arrHdr(len(b), true)
	for i := range b {
		m := &b[i]
		n := 2
		for _, has := range []bool{m.HasCounter, m.HasTs, m.HasValue, m.HasUnique, m.HasHist} {
			if has {
				n++
			}
		}
		e.mapHdr(n, false)
		e.str("name")
		e.str(m.Name)
		e.str("tags")
		e.mapHdr(len(m.Tags), true)
		for _, t := range m.Tags {
			e.str(t[0])
			e.str(t[1])
		}
		if m.HasCounter {
			e.str("counter")
			e.f64(m.Counter)
		}
		if m.HasTs {
			e.str("ts")
			e.u32(m.Ts)
		}
		if m.HasValue {
			e.str("value")
			e.arrHdr(len(m.Value), true)
			for _, v := range m.Value {
				e.f64(v)
			}
		}
		if m.HasUnique {
			e.str("unique")
			e.arrHdr(len(m.Unique), true)
			for _, v := range m.Unique {
				e.i64(v)
			}
		}
		if m.HasHist {
			e.str("histogram")
			e.arrHdr(len(m.Hist), true)
			for _, h := range m.Hist {
				e.arrHdr(2, false)
				e.f64(h[0])
				e.f64(h[1])
			}
		}
	}
	return e.w, e.headers
}

func c13EncProtoLib(b []c13Metric) []byte {
	var src pb.MetricBatch
	for i := range b {
		m := &b[i]
		pm := &pb.Metric{Name: m.Name, Tags: map[string]string{}}
		for _, t := range m.Tags {
			pm.Tags[t[0]] = t[1]
		}
		if m.HasCounter {
			pm.Counter = m.Counter
		}
		if m.HasTs {
			pm.Ts = m.Ts
		}
		if m.HasValue {
			pm.Value = m.Value
		}
		if m.HasUnique {
			pm.Unique = m.Unique
		}
		if m.HasHist {
			for _, h := range m.Hist {
				pm.Histogram = append(pm.Histogram, &pb.Centroid{Value: h[0], Count: h[1]})
			}
		}
		src.Metrics = append(src.Metrics, pm)
	}
	out, err := proto.MarshalOptions{Deterministic: true}.Marshal(&src)
	if err != nil {
		panic(err)
	}
	return out
}

// c13EncProtoRaw spells the same message with protowire directly: optional scalars are written whenever present
// (also when zero, which Protobuf permits), repeated scalars either packed (v3 default) or unpacked (v2 default; the
// Protobuf specification requires parsers to accept both spellings of a repeated scalar field).
func c13EncProtoRaw(b []c13Metric, packed bool) []byte {
	var out []byte
	for i := range b {
		m := &b[i]
		var w []byte
		w = protowire.AppendTag(w, 1, protowire.BytesType)
		w = protowire.AppendString(w, m.Name)
		for _, t := range m.Tags {
			var e []byte
			e = protowire.AppendTag(e, 1, protowire.BytesType)
			e = protowire.AppendString(e, t[0])
			e = protowire.AppendTag(e, 2, protowire.BytesType)
			e = protowire.AppendString(e, t[1])
			w = protowire.AppendTag(w, 2, protowire.BytesType)
			w = protowire.AppendBytes(w, e)
		}
		if m.HasCounter {
			w = protowire.AppendTag(w, 3, protowire.Fixed64Type)
			w = protowire.AppendFixed64(w, math.Float64bits(m.Counter))
		}
		if m.HasTs {
			w = protowire.AppendTag(w, 4, protowire.VarintType)
			w = protowire.AppendVarint(w, uint64(m.Ts))
		}
		if m.HasValue {
			if packed {
				var e []byte
				for _, v := range m.Value {
					e = protowire.AppendFixed64(e, math.Float64bits(v))
				}
				w = protowire.AppendTag(w, 5, protowire.BytesType)
				w = protowire.AppendBytes(w, e)
			} else {
				for _, v := range m.Value {
					w = protowire.AppendTag(w, 5, protowire.Fixed64Type)
					w = protowire.AppendFixed64(w, math.Float64bits(v))
				}
			}
		}
		if m.HasUnique {
			if packed {
				var e []byte
				for _, v := range m.Unique {
					e = protowire.AppendVarint(e, uint64(v))
				}
				w = protowire.AppendTag(w, 6, protowire.BytesType)
				w = protowire.AppendBytes(w, e)
			} else {
				for _, v := range m.Unique {
					w = protowire.AppendTag(w, 6, protowire.VarintType)
					w = protowire.AppendVarint(w, uint64(v))
				}
			}
		}
		if m.HasHist {
			for _, h := range m.Hist {
				var e []byte
				e = protowire.AppendTag(e, 1, protowire.Fixed64Type)
				e = protowire.AppendFixed64(e, math.Float64bits(h[0]))
				e = protowire.AppendTag(e, 2, protowire.Fixed64Type)
				e = protowire.AppendFixed64(e, math.Float64bits(h[1]))
				w = protowire.AppendTag(w, 7, protowire.BytesType)
				w = protowire.AppendBytes(w, e)
			}
		}
		out = protowire.AppendTag(out, 13337, protowire.BytesType)
		out = protowire.AppendBytes(out, w)
	}
	return out
}

type c13Encoding struct {
	Enc     string // encoder name (part of violation signatures)
	Class   string // documented format class: TL JSON MsgPack Protobuf
	Pkt     []byte
	Headers []int // MessagePack only
}

func c13Encodings(b []c13Metric) []c13Encoding {
	mc1, h1 := c13EncMsgpack(b, false)
	mc2, h2 := c13EncMsgpack(b, true)
	return []c13Encoding{
		{"tl", "TL", c13EncTL(b), nil},
		{"json", "JSON", c13EncJSON(b), nil},
		{"msgpack", "MsgPack", mc1, h1},
		{"msgpack-wide", "MsgPack", mc2, h2},
		{"protobuf", "Protobuf", c13EncProtoLib(b), nil},
		{"protobuf-packed", "Protobuf", c13EncProtoRaw(b, true), nil},
		{"protobuf-unpacked", "Protobuf", c13EncProtoRaw(b, false), nil},
	}
}

// ---------------------------------------------------------------------------------------------------------------
// the alphabet of batches

type c13Alphabet struct {
	names   []string
	tags    [][][2]string
	counter []int // 0 absent, 1 zero, 2 value
	ts      []int
	values  []int // 0 absent, 1 empty, 2 one, 3 two
	uniques []int
	hists   []int
}

var c13Full = c13Alphabet{
	names:   []string{"a", "", "mét"},
	tags:    [][][2]string{nil, {{"k", "v"}}, {{"1", "x"}, {"key2", ""}}},
	counter: []int{0, 1, 2},
	ts:      []int{0, 1, 2},
	values:  []int{0, 1, 2, 3},
	uniques: []int{0, 1, 2, 3},
	hists:   []int{0, 1, 2, 3},
}

var c13Reduced = c13Alphabet{
	names:   []string{"a", ""},
	tags:    [][][2]string{nil, {{"1", "x"}, {"key2", ""}}},
	counter: []int{0, 2},
	ts:      []int{0, 2},
	values:  []int{0, 3},
	uniques: []int{0, 3},
	hists:   []int{0, 3},
}

func (a *c13Alphabet) size() int {
	return len(a.names) * len(a.tags) * len(a.counter) * len(a.ts) * len(a.values) * len(a.uniques) * len(a.hists)
}

// metric number i of the alphabet (mixed radix)
func (a *c13Alphabet) metric(i int) c13Metric {
	pick := func(n int) int { r := i % n; i /= n; return r }
	var m c13Metric
	m.Name = a.names[pick(len(a.names))]
	m.Tags = a.tags[pick(len(a.tags))]
	switch a.counter[pick(len(a.counter))] {
	case 1:
		m.HasCounter = true
	case 2:
		m.HasCounter, m.Counter = true, 2.5
	}
	switch a.ts[pick(len(a.ts))] {
	case 1:
		m.HasTs = true
	case 2:
		m.HasTs, m.Ts = true, 1700000000
	}
	switch a.values[pick(len(a.values))] {
	case 1:
		m.HasValue, m.Value = true, []float64{}
	case 2:
		m.HasValue, m.Value = true, []float64{1.5}
	case 3:
		m.HasValue, m.Value = true, []float64{1.5, -2}
	}
	switch a.uniques[pick(len(a.uniques))] {
	case 1:
		m.HasUnique, m.Unique = true, []int64{}
	case 2:
		m.HasUnique, m.Unique = true, []int64{7}
	case 3:
		m.HasUnique, m.Unique = true, []int64{-3, 1 << 40}
	}
	switch a.hists[pick(len(a.hists))] {
	case 1:
		m.HasHist, m.Hist = true, [][2]float64{}
	case 2:
		m.HasHist, m.Hist = true, [][2]float64{{1, 2}}
	case 3:
		m.HasHist, m.Hist = true, [][2]float64{{1, 2}, {0.5, 3}}
	}
	return m
}

func (m *c13Metric) optionalPresent() bool {
	return m.HasCounter || m.HasTs || m.HasValue || m.HasUnique || m.HasHist || len(m.Tags) > 0
}

// ---------------------------------------------------------------------------------------------------------------
// driving the real parser and observing it

var c13StatNames = []string{
	"batch.TL.OK", "batch.TL.Err", "batch.MsgPack.OK", "batch.MsgPack.Err", "batch.JSON.OK", "batch.JSON.Err",
	"batch.Protobuf.OK", "batch.Protobuf.Err", "batch.RPC.OK", "batch.RPC.Err",
	"packet.TL.OK", "packet.TL.Err", "packet.MsgPack.OK", "packet.MsgPack.Err", "packet.JSON.OK", "packet.JSON.Err",
	"packet.Protobuf.OK", "packet.Protobuf.Err", "packet.RPC.OK", "packet.RPC.Err",
	"packet.Connect", "packet.FramingError", "packet.NetworkError", "packet.Disconnect", "packet.Legacy.Err", "packet.Empty.Err",
}

// c13Parser is a real parser whose statistics sinks are observable: the only way to see which format branch
// parser.parse took. The sinks are zero-valued agent.BuiltInItemValue objects (usable without an Agent).
type c13Parser struct {
	p       parser
	stats   []*agent.BuiltInItemValue
	batch   tlstatshouse.AddMetricsBatchBytes
	scratch []byte
}

func c13NewParser() *c13Parser {
	c := &c13Parser{}
	c.stats = c13WireParser(&c.p)
	return c
}

// c13WireParser gives a real parser (the one embedded in c13Parser, or the one embedded in a receiver.TCP) observable
// statistics sinks, in c13StatNames order.
func c13WireParser(p *parser) []*agent.BuiltInItemValue {
	s := make([]*agent.BuiltInItemValue, len(c13StatNames))
	for i := range s {
		s[i] = &agent.BuiltInItemValue{}
	}
	p.network = "udp"
	p.batchSizeTLOK, p.batchSizeTLErr, p.batchSizeMsgPackOK, p.batchSizeMsgPackErr = s[0], s[1], s[2], s[3]
	p.batchSizeJSONOK, p.batchSizeJSONErr, p.batchSizeProtobufOK, p.batchSizeProtobufErr = s[4], s[5], s[6], s[7]
	p.batchSizeRPCOK, p.batchSizeRPCErr = s[8], s[9]
	p.packetSizeTLOK, p.packetSizeTLErr, p.packetSizeMsgPackOK, p.packetSizeMsgPackErr = s[10], s[11], s[12], s[13]
	p.packetSizeJSONOK, p.packetSizeJSONErr, p.packetSizeProtobufOK, p.packetSizeProtobufErr = s[14], s[15], s[16], s[17]
	p.packetSizeRPCOK, p.packetSizeRPCErr = s[18], s[19]
	p.packetSizeConnect, p.packetSizeFramingError, p.packetSizeNetworkError, p.packetSizeDisconnect = s[20], s[21], s[22], s[23]
	p.packetSizeLegacyErr, p.packetSizeEmptyErr = s[24], s[25]
	return s
}

type c13Obs struct {
	Metrics    []c13Canon
	ErrCalls   int
	RetErr     error
	Stats      []string // names of the statistics sinks that received a value, in c13StatNames order
	Panic      string
	PanicStack string
}

// class is the format branch taken, derived from the packet-size statistic ("" if none or several).
func (o *c13Obs) class() string {
	cl := ""
	for _, s := range o.Stats {
		if strings.HasPrefix(s, "packet.") {
			if cl != "" {
				return "several:" + strings.Join(o.Stats, ",")
			}
			cl = s[len("packet."):]
			if i := strings.IndexByte(cl, '.'); i >= 0 {
				cl = cl[:i]
			}
		}
	}
	return cl
}

func (o *c13Obs) outcomeKey() string {
	e := "ok"
	if o.RetErr != nil {
		e = "err"
	}
	if o.Panic != "" {
		e = "panic"
	}
	return fmt.Sprintf("%s|%s|cb=%d|n=%d", o.class(), e, o.ErrCalls, len(o.Metrics))
}

type c13Handler struct{ o *c13Obs }

func (h c13Handler) HandleMetrics(args data_model.HandlerArgs) {
	h.o.Metrics = append(h.o.Metrics, c13CanonOfDecoded(args.MetricBytes))
}
func (h c13Handler) HandleParseError(pkt []byte, err error) { h.o.ErrCalls++ }

// parse runs the real parser.parse on pkt (copied, so that aliasing into a shared input cannot hide anything).
func (c *c13Parser) parse(pkt []byte) (o c13Obs) {
	in := append(make([]byte, 0, len(pkt)), pkt...)
	defer func() {
		if r := recover(); r != nil {
			o.Panic = fmt.Sprint(r)
			o.PanicStack = string(debug.Stack())
			c.batch = tlstatshouse.AddMetricsBatchBytes{}
		}
		for i, s := range c.stats {
			if !c13IsZero(s) {
				o.Stats = append(o.Stats, c13StatNames[i])
				*s = agent.BuiltInItemValue{}
			}
		}
	}()
	o.RetErr = c.p.parse(c13Handler{&o}, nil, in, &c.batch, &c.scratch, "")
	return o
}

var c13ZeroStat = make([]byte, unsafe.Sizeof(agent.BuiltInItemValue{}))

// c13IsZero reports whether a statistics sink is still in its zero state (no value was ever added to it).
func c13IsZero(s *agent.BuiltInItemValue) bool {
	return bytes.Equal(unsafe.Slice((*byte)(unsafe.Pointer(s)), len(c13ZeroStat)), c13ZeroStat)
}

func c13PanicSite(st string) string {
	lines := strings.Split(st, "\n")
	seen := false
	for _, l := range lines {
		if strings.HasPrefix(l, "panic(") {
			seen = true
			continue
		}
		if seen && !strings.HasPrefix(l, "\t") && !strings.HasPrefix(l, "runtime.") && l != "" {
			if i := strings.LastIndex(l, "("); i > 0 {
				l = l[:i]
			}
			if i := strings.LastIndex(l, "/"); i >= 0 {
				l = l[i+1:]
			}
			return l
		}
	}
	return "unknown"
}

// c13RefClasses is the documented detection rule (receiver.go constants and comments): empty; TL magic 39 02 58 56;
// '{' JSON; "SH" legacy; MessagePack map header (fixmap 0x80-0x8f, map16 0xde, map32 0xdf); everything else Protobuf.
// A map16/map32 lead byte without its length bytes is left open (documented as MessagePack by the lead byte, not a
// map header to the library): both answers are accepted.
func c13RefClasses(p []byte) []string {
	switch {
	case len(p) == 0:
		return []string{"Empty"}
	case len(p) >= 4 && p[0] == 0x39 && p[1] == 0x02 && p[2] == 0x58 && p[3] == 0x56:
		return []string{"TL"}
	case p[0] == '{':
		return []string{"JSON"}
	case len(p) >= 2 && p[0] == 'S' && p[1] == 'H':
		return []string{"Legacy"}
	case p[0] >= 0x80 && p[0] <= 0x8f:
		return []string{"MsgPack"}
	case p[0] == 0xde:
		if len(p) >= 3 {
			return []string{"MsgPack"}
		}
		return []string{"MsgPack", "Protobuf"}
	case p[0] == 0xdf:
		if len(p) >= 5 {
			return []string{"MsgPack"}
		}
		return []string{"MsgPack", "Protobuf"}
	}
	return []string{"Protobuf"}
}

// c13CheckArbitrary evaluates the safety oracle on one arbitrary packet.
func c13CheckArbitrary(rep *mc.Report, pkt []byte, o *c13Obs, origin string) {
	mkDetail := func() map[string]any {
		return map[string]any{"packet_hex": hex.EncodeToString(pkt), "origin": origin, "outcome": o.outcomeKey()}
	}
	if o.Panic != "" {
		detail := mkDetail()
		detail["stack"] = c13Trim(o.PanicStack)
		rep.Violate("C13:panic:"+c13PanicSite(o.PanicStack), fmt.Sprintf("parser.parse panicked on packet %x (%s): %s", pkt, origin, o.Panic), detail)
		return
	}
	cl := o.class()
	okClass := false
	for _, c := range c13RefClasses(pkt) {
		if c == cl {
			okClass = true
		}
	}
	if !okClass {
		rep.Violate("C13:format-detection", fmt.Sprintf("packet %x (%s) took the %q branch, documented rule says %v", pkt, origin, cl, c13RefClasses(pkt)), mkDetail())
	}
	// "either yields metrics or reports a parse error": a failed parse (non-nil result) must have been reported to the
	// handler, the only channel the receivers have (UDP.Serve and TCP.receiveLoop discard parse's return value).
	if o.RetErr != nil && o.ErrCalls == 0 {
		detail := mkDetail()
		detail["error"] = o.RetErr.Error()
		rep.Violate("C13:error-without-callback:"+cl, fmt.Sprintf("packet %x (%s): parse failed with %q but Handler.HandleParseError was never called and no metric was delivered after the failure (%d before it)", pkt, origin, o.RetErr, len(o.Metrics)), detail)
	}
	if o.RetErr == nil && o.ErrCalls != 0 {
		rep.Violate("C13:callback-without-error:"+cl, fmt.Sprintf("packet %x (%s): HandleParseError called %d times but parse returned nil", pkt, origin, o.ErrCalls), mkDetail())
	}
}

func c13Trim(s string) string {
	if len(s) > 2500 {
		return s[:2500]
	}
	return s
}

// ---------------------------------------------------------------------------------------------------------------
// watchdog pool: "never hangs" without a wall-clock oracle on correct code

const c13WatchdogS = 20

type c13Unit struct {
	run func(u *c13UnitCtx)
}

type c13UnitCtx struct {
	rep   *mc.Report
	ps    *c13Parser
	ticks atomic.Int64
	cur   atomic.Pointer[[]byte]
	// counters, merged by the pool when the unit finishes
	parses, mutated int64
}

// do runs one observed parse inside a unit.
func (u *c13UnitCtx) do(pkt []byte) c13Obs {
	u.cur.Store(&pkt)
	u.ticks.Add(1)
	o := u.ps.parse(pkt)
	u.parses++
	return o
}

// doOn is do on a given parser (the pair family uses one parser per packet pair).
func (u *c13UnitCtx) doOn(ps *c13Parser, pkt []byte) c13Obs {
	u.cur.Store(&pkt)
	u.ticks.Add(1)
	o := ps.parse(pkt)
	u.parses++
	return o
}

type c13Pool struct {
	rep        *mc.Report
	mu         sync.Mutex
	parses  int64
	mutated int64
	hung    int
}

// c13ParseAlone runs one packet on a fresh parser in a fresh goroutine and reports whether it finished in time.
func c13ParseAlone(pkt []byte, limit time.Duration) bool {
	done := make(chan struct{})
	go func() {
		defer close(done)
		ps := c13NewParser()
		_ = ps.parse(pkt)
	}()
	select {
	case <-done:
		return true
	case <-time.After(limit):
		return false
	}
}

func (pl *c13Pool) runAll(units []c13Unit) {
	ch := make(chan c13Unit, len(units))
	for _, u := range units {
		ch <- u
	}
	close(ch)
	var wg sync.WaitGroup
	for w := 0; w < runtime.GOMAXPROCS(0); w++ {
		wg.Add(1)
		go func() {
			defer wg.Done()
			for unit := range ch {
				if mc.Expired() {
					pl.rep.Cap("wall_budget")
					continue
				}
				ctx := &c13UnitCtx{rep: pl.rep, ps: c13NewParser()}
				done := make(chan struct{})
				go func() {
					defer close(done)
					unit.run(ctx)
				}()
				last, idle := int64(-1), 0
				tick := time.NewTicker(time.Second)
			wait:
				for {
					select {
					case <-done:
						break wait
					case <-tick.C:
						t := ctx.ticks.Load()
						if t != last {
							last, idle = t, 0
							continue
						}
						idle++
						if idle < c13WatchdogS {
							continue
						}
						// no progress for the watchdog period: re-run the current packet alone, 5 times
						cur := ctx.cur.Load()
						if cur == nil {
							idle = 0
							continue
						}
						finished := false
						for k := 0; k < 5 && !finished; k++ {
							finished = c13ParseAlone(*cur, c13WatchdogS*time.Second)
						}
						if finished {
							idle = 0 // slow machine, not a hang: keep waiting
							continue
						}
						pl.rep.Violate("C13:hang", fmt.Sprintf("parser.parse did not return within %d s on packet %x (5 of 5 re-runs on a fresh parser timed out as well)", c13WatchdogS, *cur),
							map[string]any{"packet_hex": hex.EncodeToString(*cur)})
						pl.rep.Cap("unit_abandoned_after_hang")
						pl.mu.Lock()
						pl.hung++
						pl.mu.Unlock()
						break wait // abandon the stuck goroutine
					}
				}
				tick.Stop()
				pl.mu.Lock()
				pl.parses += ctx.ticks.Load()
				pl.mutated += atomic.LoadInt64(&ctx.mutated)
				pl.mu.Unlock()
			}
		}()
	}
	wg.Wait()
}

// ---------------------------------------------------------------------------------------------------------------
// Part A: equivalence

func c13CheckBatch(u *c13UnitCtx, b []c13Metric, fresh bool) {
	want := make([]c13Canon, len(b))
	for i := range b {
		want[i] = b[i].canon()
	}
	for _, e := range c13Encodings(b) {
		for pass := 0; pass < 2; pass++ {
			if pass == 1 {
				if !fresh {
					break
				}
				// second pass: a parser with untouched (never used) batch and scratch buffers; the first pass ran on
				// buffers dirtied by all previous packets of the unit, as in the receive loops
				u.ps.batch = tlstatshouse.AddMetricsBatchBytes{}
				u.ps.scratch = nil
			}
			o := u.do(e.Pkt)
			u.rep.Outcome(e.Enc + "|" + o.outcomeKey())
			detail := map[string]any{"encoder": e.Enc, "packet_hex": hex.EncodeToString(e.Pkt), "batch": b, "fresh_buffers": pass == 1}
			if o.Panic != "" {
				detail["stack"] = c13Trim(o.PanicStack)
				u.rep.Violate("C13:panic:"+c13PanicSite(o.PanicStack), fmt.Sprintf("parser.parse panicked on a valid %s packet: %s", e.Enc, o.Panic), detail)
				continue
			}
			if o.RetErr != nil || o.ErrCalls != 0 {
				detail["error"] = fmt.Sprint(o.RetErr)
				u.rep.Violate("C13:valid-rejected:"+e.Enc, fmt.Sprintf("valid %s encoding of %+v rejected: %v", e.Enc, b, o.RetErr), detail)
				continue
			}
			if cl := o.class(); cl != e.Class {
				u.rep.Violate("C13:format-detection", fmt.Sprintf("valid %s packet %x took the %q branch, documented: %s", e.Enc, e.Pkt, cl, e.Class), detail)
			}
			if len(o.Metrics) != len(want) {
				u.rep.Violate("C13:mismatch:"+e.Enc+":count", fmt.Sprintf("%s encoding of %d metrics decoded into %d metrics; batch %+v", e.Enc, len(want), len(o.Metrics), b), detail)
				continue
			}
			fields := map[string]bool{}
			for i := range want {
				for _, f := range c13DiffFields(want[i], o.Metrics[i]) {
					fields[f] = true
				}
			}
			if len(fields) != 0 {
				var fl []string
				for f := range fields {
					fl = append(fl, f)
				}
				sort.Strings(fl)
				detail["want"] = want
				detail["got"] = o.Metrics
				u.rep.Violate("C13:mismatch:"+e.Enc+":"+strings.Join(fl, "+"), fmt.Sprintf("%s encoding decodes differently in field(s) %v: batch %+v, decoded %+v", e.Enc, fl, b, o.Metrics), detail)
			}
		}
	}
}

// ---------------------------------------------------------------------------------------------------------------
// Part A2: packet pairs through one reused batch object

// c13PairBatches is the alphabet of the pair family. The receive loops (UDP.Serve, TCP.receiveLoop) parse every packet
// into the same AddMetricsBatchBytes, whose Reset only truncates slices: whatever the previous packet left in the
// backing arrays is re-exposed by every reslice, so a decoder that omits to clear an element it does not fully
// overwrite leaks the previous packet into the next one. The alphabet therefore has zero-valued components (counter,
// ts, value, unique, histogram value and count, empty tag value, empty name: a proto3 encoder omits every one of them),
// differing element counts at the same index, and non-zero data at the same positions to be leaked.
func c13PairBatches() [][]c13Metric {
	plain := c13Metric{Name: "a"}
	zeros := c13Metric{Name: "", Tags: [][2]string{{"k", ""}}, HasCounter: true, HasTs: true, HasValue: true, Value: []float64{0},
		HasUnique: true, Unique: []int64{0}, HasHist: true, Hist: [][2]float64{{0, 0}}}
	rich := c13Metric{Name: "rich", Tags: [][2]string{{"k", "v"}, {"key2", "w"}}, HasCounter: true, Counter: 2.5, HasTs: true, Ts: 1700000000,
		HasValue: true, Value: []float64{1.5, -2, 9}, HasUnique: true, Unique: []int64{-3, 1 << 40, 5}, HasHist: true, Hist: [][2]float64{{1, 2}, {0.5, 3}, {8, 9}}}
	zeroValue := c13Metric{Name: "b", Tags: [][2]string{{"k", "v"}}, HasValue: true, Value: []float64{0, 1.5}, HasUnique: true, Unique: []int64{7, 0},
		HasHist: true, Hist: [][2]float64{{0, 3}}}
	zeroCount := c13Metric{Name: "c", Tags: [][2]string{{"", "v"}}, HasCounter: true, Counter: 0, HasHist: true, Hist: [][2]float64{{4, 0}, {0, 5}}}
	mixed := c13Metric{Name: "d", HasTs: true, Ts: 0, HasValue: true, Value: []float64{}, HasHist: true, Hist: [][2]float64{{6, 7}, {0, 0}, {0, 1}}}
	one := c13Metric{Name: "e", Tags: [][2]string{{"key2", ""}}, HasCounter: true, Counter: 1, HasTs: true, Ts: 5, HasValue: true, Value: []float64{3},
		HasUnique: true, Unique: []int64{9}, HasHist: true, Hist: [][2]float64{{1, 1}}}
	return [][]c13Metric{
		{plain}, {zeros}, {rich}, {zeroValue}, {zeroCount}, {mixed}, {one},
		{rich, rich}, {zeros, zeros}, {rich, zeroCount}, {zeroValue, rich}, {plain, zeros}, {one, mixed, zeroValue},
	}
}

// c13JudgeValid compares the observation of a valid packet with its reference batch (same oracle as part A).
func c13JudgeValid(u *c13UnitCtx, e c13Encoding, b []c13Metric, o *c13Obs, sigTag string, detail map[string]any) {
	if o.Panic != "" {
		detail["stack"] = c13Trim(o.PanicStack)
		u.rep.Violate("C13:panic:"+c13PanicSite(o.PanicStack), fmt.Sprintf("parser.parse panicked on a valid %s packet: %s", e.Enc, o.Panic), detail)
		return
	}
	if o.RetErr != nil || o.ErrCalls != 0 {
		detail["error"] = fmt.Sprint(o.RetErr)
		u.rep.Violate("C13:valid-rejected:"+e.Enc+sigTag, fmt.Sprintf("valid %s encoding of %+v rejected: %v", e.Enc, b, o.RetErr), detail)
		return
	}
	if cl := o.class(); cl != e.Class {
		u.rep.Violate("C13:format-detection", fmt.Sprintf("valid %s packet %x took the %q branch, documented: %s", e.Enc, e.Pkt, cl, e.Class), detail)
	}
	if len(o.Metrics) != len(b) {
		u.rep.Violate("C13:mismatch:"+e.Enc+":count"+sigTag, fmt.Sprintf("%s encoding of %d metrics decoded into %d metrics; batch %+v", e.Enc, len(b), len(o.Metrics), b), detail)
		return
	}
	fields := map[string]bool{}
	want := make([]c13Canon, len(b))
	for i := range b {
		want[i] = b[i].canon()
		for _, f := range c13DiffFields(want[i], o.Metrics[i]) {
			fields[f] = true
		}
	}
	if len(fields) != 0 {
		var fl []string
		for f := range fields {
			fl = append(fl, f)
		}
		sort.Strings(fl)
		detail["want"] = want
		detail["got"] = o.Metrics
		u.rep.Violate("C13:mismatch:"+e.Enc+":"+strings.Join(fl, "+")+sigTag, fmt.Sprintf("%s encoding decodes differently in field(s) %v: batch %+v, decoded %+v (%v)", e.Enc, fl, b, o.Metrics, detail["context"]), detail)
	}
}

type c13PairPacket struct {
	enc   c13Encoding
	batch []c13Metric
}

func c13PairPackets() []c13PairPacket {
	var out []c13PairPacket
	for _, b := range c13PairBatches() {
		for _, e := range c13Encodings(b) {
			out = append(out, c13PairPacket{e, b})
		}
	}
	return out
}

// c13CheckPairsFrom: packet `first` then every packet, each pair on a parser of its own whose batch and scratch are
// reused between the two parses exactly as in the receive loops. Both packets must decode to their own reference.
func c13CheckPairsFrom(u *c13UnitCtx, pk []c13PairPacket, first int) {
	for second := range pk {
		ps := c13NewParser()
		a, b := pk[first], pk[second]
		o1 := u.doOn(ps, a.enc.Pkt)
		c13JudgeValid(u, a.enc, a.batch, &o1, "", map[string]any{"encoder": a.enc.Enc, "packet_hex": hex.EncodeToString(a.enc.Pkt), "batch": a.batch, "context": "first packet on a fresh parser"})
		o2 := u.doOn(ps, b.enc.Pkt)
		u.rep.Outcome("pair|" + a.enc.Enc + "|" + b.enc.Enc + "|" + o2.outcomeKey())
		c13JudgeValid(u, b.enc, b.batch, &o2, ":after:"+a.enc.Enc, map[string]any{"encoder": b.enc.Enc, "packet_hex": hex.EncodeToString(b.enc.Pkt), "batch": b.batch,
			"previous_encoder": a.enc.Enc, "previous_packet_hex": hex.EncodeToString(a.enc.Pkt), "previous_batch": a.batch,
			"context": fmt.Sprintf("second packet through the same batch object; the previous packet was the %s encoding of %+v", a.enc.Enc, a.batch)})
	}
}

// ---------------------------------------------------------------------------------------------------------------
// Part B: robustness

var c13ReducedBytes = []byte{
	0x00, 0x01, 0x02, 0x06, 0x08, 0x0a, 0x0d, 0x12, 0x20, '"', 0x39, 0x48, 'S', 0x56, 0x58, 0x68, '{', '}', '[', ':', 'a', 0x7f,
	0x80, 0x81, 0x8f, 0x90, 0x99, 0xa0, 0xa1, 0xc0, 0xc1, 0xca, 0xcb, 0xce, 0xd3, 0xdc, 0xdd, 0xde, 0xdf, 0xff,
}

// substitution bytes: NUL, small varint / fixint, '"', '{', high fixint, fixmap, fixarray, nil, float64 marker, 0xff.
// 16/32-bit collection headers (0xdc-0xdf) are substituted in part C (child process): a decoder that allocates by the
// declared length makes them expensive (megabytes per parse) or fatal.
var c13SubstBytes = []byte{0x00, 0x01, '"', '{', 0x7f, 0x80, 0x92, 0xc0, 0xcb, 0xd9, 0xff}

func c13MutateUnit(u *c13UnitCtx, e c13Encoding) {
	origin := "mutation of valid " + e.Enc
	for k := 0; k < len(e.Pkt); k++ { // every truncation (k = 0 is the empty packet)
		p := e.Pkt[:k]
		o := u.do(p)
		u.mutated++
		u.rep.Outcome("trunc|" + e.Enc + "|" + o.outcomeKey())
		c13CheckArbitrary(u.rep, p, &o, origin+" (truncated to "+strconv.Itoa(k)+")")
	}
	if e.Enc == "msgpack-wide" {
		// its 16-bit length bytes turn almost every substitution into a multi-megabyte allocation of the decoder;
		// substitutions are enumerated on the compact spelling only
		return
	}
	buf := make([]byte, len(e.Pkt))
	for k := 0; k < len(e.Pkt); k++ {
		for _, sb := range c13SubstBytes {
			if sb == e.Pkt[k] {
				continue
			}
			copy(buf, e.Pkt)
			buf[k] = sb
			o := u.do(buf)
			u.mutated++
			u.rep.Outcome("subst|" + e.Enc + "|" + o.outcomeKey())
			c13CheckArbitrary(u.rep, buf, &o, fmt.Sprintf("%s (byte %d -> %02x)", origin, k, sb))
		}
	}
}

// ---------------------------------------------------------------------------------------------------------------
// Part C: child process for inputs whose failure mode is a process-fatal error

const c13ChildEnv = "VERIF_C13_CHILD_JOBS"

// TestVerifC13Child is the child side: parses the packets of a job file one by one, announcing each before it starts.
func TestVerifC13Child(t *testing.T) {
	path := os.Getenv(c13ChildEnv)
	if path == "" {
		t.Skip("helper process of TestVerifC13")
	}
	start, _ := strconv.Atoi(os.Getenv(c13ChildEnv + "_START"))
	f, err := os.Open(path)
	if err != nil {
		t.Fatal(err)
	}
	defer f.Close()
	ps := c13NewParser()
	sc := bufio.NewScanner(f)
	sc.Buffer(make([]byte, 1<<20), 1<<20)
	for i := 0; sc.Scan(); i++ {
		if i < start {
			continue
		}
		pkt, err := hex.DecodeString(strings.TrimSpace(sc.Text()))
		if err != nil {
			t.Fatal(err)
		}
		fmt.Fprintf(os.Stdout, "\nC13S %d\n", i)
		o := ps.parse(pkt)
		fmt.Fprintf(os.Stdout, "\nC13D %d %s %s\n", i, o.outcomeKey(), hex.EncodeToString([]byte(o.Panic)))
		// a decoder that allocated by a declared length may have left a huge buffer behind: drop it
		ps.batch = tlstatshouse.AddMetricsBatchBytes{}
	}
}

type c13ChildResult struct {
	done     map[int]string
	crashed  map[int]string // index -> stderr/stdout tail
	infra    []string
	restarts int
}

func c13RunChild(jobs [][]byte, memLimitKB int64, scratch string, tag string) c13ChildResult {
	res := c13ChildResult{done: map[int]string{}, crashed: map[int]string{}}
	path := filepath.Join(scratch, "c13_jobs_"+tag+".txt")
	var sb strings.Builder
	for _, j := range jobs {
		sb.WriteString(hex.EncodeToString(j))
		sb.WriteString("\n")
	}
	if err := os.WriteFile(path, []byte(sb.String()), 0o644); err != nil {
		res.infra = append(res.infra, err.Error())
		return res
	}
	start := 0
	for start < len(jobs) {
		cmd := exec.Command("/bin/sh", "-c", fmt.Sprintf("ulimit -v %d; exec \"$0\" \"$@\"", memLimitKB), os.Args[0],
			"-test.run", "^TestVerifC13Child$", "-test.count=1", "-test.timeout", "900s")
		cmd.Env = append(os.Environ(), c13ChildEnv+"="+path, c13ChildEnv+"_START="+strconv.Itoa(start), "GOMAXPROCS=2", "GOTRACEBACK=single")
		var out bytes.Buffer
		cmd.Stdout = &out
		cmd.Stderr = &out
		err := cmd.Run()
		res.restarts++
		lastStarted := -1
		for _, line := range strings.Split(out.String(), "\n") {
			if strings.HasPrefix(line, "C13S ") {
				lastStarted, _ = strconv.Atoi(strings.TrimSpace(line[5:]))
			} else if strings.HasPrefix(line, "C13D ") {
				f := strings.Fields(line)
				if len(f) >= 3 {
					i, _ := strconv.Atoi(f[1])
					res.done[i] = strings.Join(f[2:], " ")
				}
			}
		}
		if err == nil {
			if _, ok := res.done[len(jobs)-1]; !ok && len(jobs) > start {
				res.infra = append(res.infra, "child exited 0 without finishing its jobs: "+c13Trim(out.String()))
			}
			break
		}
		if lastStarted < start {
			res.infra = append(res.infra, fmt.Sprintf("child died before its first job (%v): %s", err, c13Trim(out.String())))
			break
		}
		if _, ok := res.done[lastStarted]; ok {
			res.infra = append(res.infra, fmt.Sprintf("child failed outside a parse (%v): %s", err, c13Trim(out.String())))
			break
		}
		txt := out.String()
		if i := strings.Index(txt, "fatal error:"); i >= 0 {
			txt = txt[i:]
		}
		res.crashed[lastStarted] = c13Trim(txt)
		start = lastStarted + 1
	}
	return res
}

func c13CrashSite(txt string) (kind, site string) {
	kind = "crash"
	if strings.Contains(txt, "out of memory") || strings.Contains(txt, "cannot allocate memory") {
		kind = "oom"
	}
	site = "unknown"
	for _, l := range strings.Split(txt, "\n") {
		if strings.HasPrefix(l, "github.com/VKCOM/statshouse/internal/receiver.") {
			l = strings.TrimPrefix(l, "github.com/VKCOM/statshouse/internal/receiver.")
			if i := strings.Index(l, "("); i > 0 {
				l = l[:i]
			}
			site = l
			break
		}
	}
	return kind, site
}

// ---------------------------------------------------------------------------------------------------------------

func TestVerifC13(t *testing.T) {
	if os.Getenv(c13ChildEnv) != "" {
		t.Skip("child mode")
	}
	rep := mc.NewReport("C13")
	rep.Rule = "A: every 1-metric batch over the full field alphabet (3 names x 3 tag sets x counter/ts {absent,0,value} x values/uniques/histogram {absent,empty,1,2 elements}) and every ordered pair over the reduced alphabet, each in 7 encodings (TL, JSON, MessagePack compact and wide, Protobuf via generated pb, hand-rolled packed, hand-rolled unpacked), each parsed on dirty and on fresh buffers; A2: every ordered pair of 91 packets (13 batches with zero-valued counter/ts/value/unique/centroid components, empty strings and differing element counts x 7 encodings) parsed one after the other through one reused batch object as in the receive loops, the second must decode to its own reference; A3: every ordered pair (and every ordered triple of a reduced set; thorough: every triple) of those packets in 10 spellings (the 7 plus MessagePack/JSON/Protobuf with the fields in the opposite order) parsed in place in ONE reused receive buffer (layouts: UDP datagram at offset 0, TCP frame behind its length prefix, TCP frames arriving together) through one reused batch object, every packet must decode to its own reference; B: every byte string up to length L over all 256 bytes and up to length M over 40 format-relevant bytes, plus every truncation and every single-byte substitution (11 representative bytes; MessagePack-wide: truncations only) of valid encodings; C: 32-bit-length header injection into MessagePack encodings in a memory-limited child process; D: every stream of 1..2 (thorough ..3) frames over a frame alphabet around the framing constants (declared length {0, 1, valid packet, max-1, max, max+1..max+5, 2*max, 2^20, 2^31-1, 2^31, 2^32-1} x delivered bytes {none, 1, one short, exact, around the receive-buffer size} x body {valid packet+padding, ff, 00}) x 6 delivery plans through the real TCP.receiveLoop over a scripted net.Conn: no 3 consecutive reads without progress, callbacks equal to a fresh parser's on every frame of an independent reference split, refused iff a declared length exceeds MaxTCPFrameBody. Non-trivial = batch with at least one optional field or tag (presence logic exercised) / non-empty arbitrary string / mutated packet that differs from the valid one / stream with a declared length within 8 of the maximum"
	quick := !mc.Thorough()
	maxAll := mc.Pick(2, 3)
	maxReduced := mc.Pick(3, 4)
	rep.Bounds["all_bytes_max_len"] = maxAll
	rep.Bounds["reduced_alphabet_max_len"] = maxReduced
	rep.Bounds["reduced_alphabet_bytes"] = len(c13ReducedBytes)
	rep.Bounds["single_metric_batches"] = c13Full.size()
	rep.Bounds["pair_batches"] = c13Reduced.size() * c13Reduced.size()
	rep.Bounds["watchdog_s"] = c13WatchdogS
	rep.Assume("trusted: tinylib/msgp Append*, protowire Append*, proto.Marshal and encoding/json as encoders of the reference batches")
	rep.Assume("by-value comparison: an absent optional field equals a present zero/empty one (Protobuf v3 cannot distinguish them; the statement lists the seven value fields, not the field mask); tags compared as a dictionary")

	pool := &c13Pool{rep: rep}
	var units []c13Unit
	var batches, ntBatches int64

	// ---- Part A
	nFull := c13Full.size()
	const chunk = 48
	for lo := 0; lo < nFull; lo += chunk {
		lo := lo
		hi := lo + chunk
		if hi > nFull {
			hi = nFull
		}
		for i := lo; i < hi; i++ {
			m := c13Full.metric(i)
			batches++
			if m.optionalPresent() {
				ntBatches++
			}
		}
		units = append(units, c13Unit{run: func(u *c13UnitCtx) {
			for i := lo; i < hi; i++ {
				c13CheckBatch(u, []c13Metric{c13Full.metric(i)}, true)
			}
		}})
	}
	nRed := c13Reduced.size()
	for i := 0; i < nRed; i++ {
		i := i
		batches += int64(nRed)
		ntBatches += int64(nRed)
		if !(func() bool { m := c13Reduced.metric(i); return m.optionalPresent() })() {
			ntBatches-- // the pair (plain, plain)
		}
		units = append(units, c13Unit{run: func(u *c13UnitCtx) {
			for j := 0; j < nRed; j++ {
				c13CheckBatch(u, []c13Metric{c13Reduced.metric(i), c13Reduced.metric(j)}, false)
			}
		}})
	}
	rep.Sample(map[string]any{"batch": []c13Metric{c13Full.metric(nFull - 1)}, "msgpack_hex": hex.EncodeToString(c13Encodings([]c13Metric{c13Full.metric(nFull - 1)})[2].Pkt)})

	// ---- Part A2: every ordered pair of packets through one reused batch object
	pairPk := c13PairPackets()
	rep.Bounds["pair_family_packets"] = len(pairPk)
	rep.Bounds["pair_family_ordered_pairs"] = len(pairPk) * len(pairPk)
	for first := range pairPk {
		first := first
		units = append(units, c13Unit{run: func(u *c13UnitCtx) { c13CheckPairsFrom(u, pairPk, first) }})
	}
	nPairs := int64(len(pairPk) * len(pairPk))

	// ---- Part A3: packet sequences through one reused batch object AND one reused receive buffer (verif_c13_recvbuf_test.go)
	recvUnits, nRecvSeq, nRecvPackets := c13RecvUnits(rep)
	units = append(units, recvUnits...)

	// ---- Part D: stream framing - the real TCP.receiveLoop over a scripted connection (verif_c13_framing_test.go)
	var framingStats []c13FramingStats
	units = append(units, c13FramingUnits(rep, &framingStats)...)

	// ---- Part B.1: all byte strings
	var arbitrary int64
	for L := 0; L <= maxAll; L++ {
		n := int64(1)
		for k := 0; k < L; k++ {
			n *= 256
		}
		arbitrary += n
	}
	units = append(units, c13Unit{run: func(u *c13UnitCtx) {
		o := u.do(nil)
		c13CheckArbitrary(u.rep, nil, &o, "all byte strings")
		u.rep.Outcome("arb|" + o.outcomeKey())
	}})
	for first := 0; first < 256; first++ {
		first := first
		units = append(units, c13Unit{run: func(u *c13UnitCtx) {
			for L := 1; L <= maxAll; L++ {
				buf := make([]byte, L)
				buf[0] = byte(first)
				var rec func(pos int)
				rec = func(pos int) {
					if pos == L {
						o := u.do(buf)
						c13CheckArbitrary(u.rep, buf, &o, "all byte strings")
						u.rep.Outcome("arb|" + o.outcomeKey())
						return
					}
					for b := 0; b < 256; b++ {
						buf[pos] = byte(b)
						rec(pos + 1)
					}
				}
				rec(1)
			}
		}})
	}
	// reduced alphabet strings of length maxAll+1 .. maxReduced
	for L := maxAll + 1; L <= maxReduced; L++ {
		L := L
		n := int64(1)
		for k := 0; k < L; k++ {
			n *= int64(len(c13ReducedBytes))
		}
		arbitrary += n
		for _, first := range c13ReducedBytes {
			first := first
			units = append(units, c13Unit{run: func(u *c13UnitCtx) {
				buf := make([]byte, L)
				buf[0] = first
				var rec func(pos int)
				rec = func(pos int) {
					if pos == L {
						o := u.do(buf)
						c13CheckArbitrary(u.rep, buf, &o, "reduced-alphabet byte strings")
						u.rep.Outcome("arb|" + o.outcomeKey())
						return
					}
					for _, b := range c13ReducedBytes {
						buf[pos] = b
						rec(pos + 1)
					}
				}
				rec(1)
			}})
		}
	}

	// ---- Part B.2: mutations of valid encodings
	var mutBases [][]c13Metric
	if quick {
		for i := 0; i < nRed; i++ {
			mutBases = append(mutBases, []c13Metric{c13Reduced.metric(i)})
		}
		for i := 0; i < nRed; i += 9 {
			mutBases = append(mutBases, []c13Metric{c13Reduced.metric(i), c13Reduced.metric(nRed - 1 - i)})
		}
	} else {
		for i := 0; i < nFull; i++ {
			mutBases = append(mutBases, []c13Metric{c13Full.metric(i)})
		}
		for i := 0; i < nRed; i++ {
			mutBases = append(mutBases, []c13Metric{c13Reduced.metric(i), c13Reduced.metric(nRed - 1 - i)})
		}
	}
	rep.Bounds["mutation_base_batches"] = len(mutBases)
	rep.Bounds["substitution_bytes"] = fmt.Sprintf("%x", c13SubstBytes)
	for _, b := range mutBases {
		b := b
		units = append(units, c13Unit{run: func(u *c13UnitCtx) {
			for _, e := range c13Encodings(b) {
				c13MutateUnit(u, e)
			}
		}})
	}

	t0 := time.Now()
	pool.runAll(units)
	t.Logf("C13: in-process parts done in %.1fs (framing units: %.1f cpu-s)", time.Since(t0).Seconds(), float64(c13FramingNanos.Load())/1e9)
	t0 = time.Now()

	// ---- Part C: 32-bit length headers, in a memory-limited child
	scratch := os.Getenv("VERIF_SCRATCH")
	if scratch == "" {
		scratch = t.TempDir()
	}
	var jobs [][]byte
	var jobDesc []string
	cBases := mc.Pick(2, 24)
	step := nRed / cBases
	if step < 1 {
		step = 1
	}
	for i := nRed - 1; i >= 0 && len(jobs) < 200000; i -= step {
		b := []c13Metric{c13Reduced.metric(i)}
		for _, wide := range []bool{false, true} {
			pkt, headers := c13EncMsgpack(b, wide)
			// (a) structured: each allocation-sizing header replaced by array32/map32 with a chosen length
			for _, h := range headers {
				hl := 1
				if wide {
					hl = 3
				}
				lead := byte(0xdd)
				if pkt[h]&0xf0 == 0x80 || pkt[h] == 0xde {
					lead = 0xdf
				}
				for _, n := range mc.Pick([]uint32{0xffffffff, 0x00001000}, []uint32{0xffffffff, 0x10000000, 0x00001000}) {
					p := append([]byte{}, pkt[:h]...)
					p = append(p, lead)
					p = binary.BigEndian.AppendUint32(p, n)
					p = append(p, pkt[h+hl:]...)
					jobs = append(jobs, p)
					jobDesc = append(jobDesc, fmt.Sprintf("header at %d of msgpack(wide=%v) encoding of %+v replaced by %02x with length %#x", h, wide, b, lead, n))
				}
			}
			// (b) plain single-byte substitution by 0xdd / 0xdf at every position
			if !wide {
				for k := range pkt {
					for _, sb := range []byte{0xdc, 0xdd, 0xde, 0xdf} {
						p := append([]byte{}, pkt...)
						p[k] = sb
						jobs = append(jobs, p)
						jobDesc = append(jobDesc, fmt.Sprintf("byte %d of msgpack encoding of %+v replaced by %02x", k, b, sb))
					}
				}
			}
		}
	}
	rep.Bounds["child_jobs"] = len(jobs)
	const memLimitKB = 1 << 20 // 1 GiB of address space: far above anything a <=64 KiB packet can legitimately need
	rep.Bounds["child_address_space_limit_kb"] = memLimitKB
	nChild := 8
	if len(jobs) < nChild {
		nChild = 1
	}
	var cwg sync.WaitGroup
	results := make([]c13ChildResult, nChild)
	offsets := make([]int, nChild+1)
	for k := 0; k <= nChild; k++ {
		offsets[k] = len(jobs) * k / nChild
	}
	for k := 0; k < nChild; k++ {
		k := k
		cwg.Add(1)
		go func() {
			defer cwg.Done()
			results[k] = c13RunChild(jobs[offsets[k]:offsets[k+1]], memLimitKB, scratch, strconv.Itoa(k))
		}()
	}
	cwg.Wait()
	t.Logf("C13: child part done in %.1fs", time.Since(t0).Seconds())
	var childDone, childCrashed int64
	for k, r := range results {
		for _, e := range r.infra {
			rep.Infra("C13 child " + strconv.Itoa(k) + ": " + e)
		}
		childDone += int64(len(r.done))
		idx := make([]int, 0, len(r.crashed))
		for i := range r.crashed {
			idx = append(idx, i)
		}
		sort.Ints(idx)
		for _, i := range idx {
			childCrashed++
			kind, site := c13CrashSite(r.crashed[i])
			g := offsets[k] + i
			rep.Violate("C13:"+kind+":"+site, fmt.Sprintf("the process parsing packet %x died with a runtime fatal error (%s in %s) under a %d KiB address-space limit: %s", jobs[g], kind, site, memLimitKB, jobDesc[g]),
				map[string]any{"packet_hex": hex.EncodeToString(jobs[g]), "what": jobDesc[g], "output": r.crashed[i]})
			rep.Outcome("child|crash|" + kind + "|" + site)
		}
		for _, d := range r.done {
			rep.Outcome("child|" + strings.Fields(d)[0])
		}
	}

	var framing c13FramingStats
	for _, st := range framingStats {
		framing.streams += st.streams
		framing.refFrames += st.refFrames
		framing.refused += st.refused
		framing.incompleteTail += st.incompleteTail
		framing.boundary += st.boundary
	}
	execs := pool.parses + childDone + childCrashed
	rep.AddCounts(execs, execs, batches*7+nPairs+nRecvSeq+arbitrary+pool.mutated+int64(len(jobs))+framing.streams, ntBatches*7+nPairs+nRecvSeq+(arbitrary-1)+pool.mutated+int64(len(jobs))+framing.boundary)
	rep.Parts["tcp_framing"] = map[string]any{"streams_through_receiveLoop": framing.streams, "reference_frames": framing.refFrames, "streams_the_reference_refuses": framing.refused,
		"streams_ending_in_an_incomplete_frame": framing.incompleteTail, "streams_with_a_declared_length_within_8_of_the_maximum": framing.boundary}
	rep.Parts["packet_pairs"] = map[string]any{"packets": len(pairPk), "ordered_pairs": nPairs}
	rep.Parts["receive_buffer_sequences"] = map[string]any{"sequences": nRecvSeq, "packets_parsed_in_place": nRecvPackets, "layouts": c13RecvLayouts}
	rep.Parts["equivalence"] = map[string]any{"batches": batches, "encodings_per_batch": 7}
	rep.Parts["arbitrary_bytes"] = map[string]any{"strings": arbitrary}
	rep.Parts["mutations"] = map[string]any{"mutated_packets": pool.mutated}
	rep.Parts["child"] = map[string]any{"jobs": len(jobs), "finished": childDone, "fatal": childCrashed}
	if err := rep.Write(); err != nil {
		t.Fatal(err)
	}
	t.Logf("C13: parses=%d batches=%d arbitrary=%d mutated=%d child jobs=%d (fatal %d) violations=%d", pool.parses, batches, arbitrary, pool.mutated, len(jobs), childCrashed, rep.NumViolations())
}
