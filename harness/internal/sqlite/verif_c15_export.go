//go:build verif

package sqlite

// Export shim for the C15 harness of internal/metadata (environment-fault family).
//
// VerifC15SetReplica puts the engine into / takes it out of replica role. The role is a plain
// field that this tree only sets in openDB (Options.Replica; "TODO replace with runtime mode
// change" in txLoop); a write Do on a replica fails with "failed to write binlog in replica
// mode" AFTER its callback has run (engine.go doWithoutWait). The harness holds the role only
// for the duration of one request (the field is written under the read-write connection's
// mutex), so nothing else of the engine sees it (txLoop, which reads the field without the
// mutex, at most skips one of its periodic commits).
func (e *Engine) VerifC15SetReplica(on bool) {
	e.rw.mu.Lock()
	if on {
		e.mode = replica
	} else {
		e.mode = master
	}
	e.rw.mu.Unlock()
}

// VerifC15WaitQLen is the number of callers of Do that are parked until the binlog commits
// (WaitCommit mode: write callers behind their own event, read callers behind uncommitted
// writes). The durability-window family of the C15 harness drives requests from goroutines and
// uses this to learn, without any timing assumption, that a request has finished its callback
// and is parked (the queue grows by one under waitQMx inside doWithoutWait) and how many
// parked callers a Commit callback has released (binlogNotifyWaited runs inside Commit).
func (e *Engine) VerifC15WaitQLen() int {
	e.waitQMx.Lock()
	defer e.waitQMx.Unlock()
	return len(e.waitQ)
}

// VerifC15StopTxLoop ends the commit-timer goroutine right after open. txLoop commits the SQLite
// transaction once per second of WALL CLOCK and, in WaitCommit mode, holds the read-write
// connection's mutex while it waits for the binlog to become durable up to the last appended
// event. With a binlog whose durable offset is moved by the harness that would make the outcome
// of a history depend on wall time; without the loop the SQLite file simply keeps the state of
// the last commit (Open / Close), which is always at or behind the durable binlog prefix - the
// same relation the loop maintains (it commits only after binlogWaitDBSync).
func (e *Engine) VerifC15StopTxLoop() {
	if e.stop != nil {
		e.stop()
	}
}
