//go:build verif

package sqlite

// Export shim for the C15 harness of internal/metadata (environment-fault family).
//
// VerifC15SetReplica puts the engine into / takes it out of replica role. The role is a plain
// field that this tree only sets in openDB (Options.Replica; "TODO replace with runtime mode
// change" in txLoop); a write Do on a replica fails with "failed to write binlog in replica
// mode" AFTER its callback has run (engine.go doWithoutWait). The harness holds the role only
// for the duration of one request (the field is written under the read-write connection's
// mutex), so nothing else of the engine sees it (txLoop, which reads the field without the
// mutex, at most skips one of its periodic commits).
func (e *Engine) VerifC15SetReplica(on bool) {
	e.rw.mu.Lock()
	if on {
		e.mode = replica
	} else {
		e.mode = master
	}
	e.rw.mu.Unlock()
}
