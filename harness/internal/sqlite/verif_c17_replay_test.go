//go:build verif

package sqlite

// C17, family "replay with every payload cut" (deterministic, no ptrace).
//
// The kill-point families kill a MASTER engine; the replay path ((*binlogEngineReplicaImpl).Apply/apply/Skip/Commit:
// restart re-read and replica mode) only ever ran at the restarts, over small binlogs that the fsbinlog reader hands
// over in whole events, with one Commit at the end. The binlog contract (binlog.Engine.Apply) allows far more: a
// payload may end inside an event or in front of a service record ("expected errors"), and Commit callbacks arrive
// at any callback boundary (fsbinlog: 64 KB read buffer boundaries, commit timer). This family drives the real engine
// through a harness binlog.Binlog that mimics the fsbinlog reader loop over the byte stream of a binlog the harness's
// own scripted workload produced (real master engine + real fsbinlog, incl. rotation records):
//
//	script = (role, commit period, read-window ends k1<k2.. = payload cuts at 4-byte boundaries, set of callback
//	          boundaries at which Commit(position) is delivered; a Commit always follows the last callback)
//
// After EVERY callback the database files are read as they are on disk (= the image a process kill at that moment
// leaves); every distinct image (by content) gets the full crash-state oracle of the kill-point families
// (cfg.check: database without replay == apply(binlog[0:stored offset]), offset at an event boundary and inside the
// binlog, restart with the real fsbinlog == fresh rebuild == model of every event). The reader protocol has its own
// reference model (c17RPlan): the engine must report exactly the end of the last complete event of each payload.

import (
	"context"
	"encoding/binary"
	"errors"
	"fmt"
	"hash/fnv"
	"os"
	"path/filepath"
	"runtime"
	"sort"
	"strings"
	"sync"
	"sync/atomic"
	"time"

	"github.com/VKCOM/statshouse/internal/verif/mc"
	binlog2 "github.com/VKCOM/statshouse/internal/vkgo/binlog"
	"github.com/VKCOM/statshouse/internal/vkgo/binlog/fsbinlog"
)

// ---------------------------------------------------------------------------------------------------
// the history: produced by the real master engine over the real fsbinlog (the scripted workload's writes)

type c17RLog struct {
	Dir    string // bl/ holds the binlog files
	Stream []byte // the files concatenated in position order (global offset == index)
	Events []c17Ev
}

func c17RMakeLog(dir string, writes int) (*c17RLog, error) {
	for _, sub := range []string{"bl", "db"} {
		if err := os.MkdirAll(filepath.Join(dir, sub), 0755); err != nil {
			return nil, err
		}
	}
	if _, err := fsbinlog.CreateEmptyFsBinlog(c17BinlogOptions(dir, 0)); err != nil {
		return nil, err
	}
	eng, err := c17OpenEngine(dir, WaitCommit, 5*time.Millisecond, time.Millisecond)
	if err != nil {
		return nil, err
	}
	errFail := errors.New("c17: callback fails on purpose")
	for _, op := range c17Workload(writes) {
		op := op
		switch op.Kind {
		case "view", "pause":
		case "fail":
			_ = eng.Do(context.Background(), "c17fail", func(c Conn, cache []byte) ([]byte, error) {
				if err := c17Exec(c, 0, op.K, op.V); err != nil {
					return nil, err
				}
				return c17Event(1000, op), errFail
			})
		default:
			if err := eng.Do(context.Background(), "c17write", func(c Conn, cache []byte) ([]byte, error) {
				return c17Event(op.Write, op), c17Exec(c, c17KindOf(op), op.K, op.V)
			}); err != nil {
				return nil, fmt.Errorf("write %d: %w", op.Write, err)
			}
		}
	}
	ctx, cancel := context.WithTimeout(context.Background(), 60*time.Second)
	defer cancel()
	if err := eng.Close(ctx); err != nil {
		return nil, fmt.Errorf("close: %w", err)
	}
	eng.stop()
	l := &c17RLog{Dir: dir}
	st, err := c17ReadBinlog(dir)
	if err != nil {
		return nil, err
	}
	if len(st.Problems) > 0 {
		return nil, fmt.Errorf("generated binlog is not clean: %v", st.Problems)
	}
	l.Events = st.Events
	type file struct {
		pos  int64
		data []byte
	}
	var files []file
	ents, err := os.ReadDir(filepath.Join(dir, "bl"))
	if err != nil {
		return nil, err
	}
	for _, e := range ents {
		d, err := os.ReadFile(filepath.Join(dir, "bl", e.Name()))
		if err != nil {
			return nil, err
		}
		f := file{pos: -1, data: d}
		if len(d) >= 36 && binary.LittleEndian.Uint32(d) == c17LevRotateFrom {
			f.pos = int64(binary.LittleEndian.Uint64(d[8:]))
		} else if len(d) >= 24 && binary.LittleEndian.Uint32(d) == c17LevStart {
			f.pos = 0
		}
		if f.pos < 0 {
			return nil, fmt.Errorf("binlog file %s has no header", e.Name())
		}
		files = append(files, f)
	}
	sort.Slice(files, func(i, j int) bool { return files[i].pos < files[j].pos })
	for _, f := range files {
		if f.pos != int64(len(l.Stream)) {
			return nil, fmt.Errorf("binlog files are not contiguous: file at %d after %d bytes", f.pos, len(l.Stream))
		}
		l.Stream = append(l.Stream, f.data...)
	}
	if len(l.Stream)%4 != 0 || int64(len(l.Stream)) != st.Length {
		return nil, fmt.Errorf("binlog stream has %d bytes (parser: %d)", len(l.Stream), st.Length)
	}
	return l, nil
}

// ---------------------------------------------------------------------------------------------------
// reference model of the reader protocol: which callbacks a reader with the given read-window ends makes, and what a
// correct engine answers (position = end of the last complete event of the payload).

type c17RCall struct {
	Kind   string // "apply", "skip", "commit"
	From   int    // apply: payload = stream[From:To]; skip: To-From bytes; commit: offset From
	To     int
	NewPos int    // position a correct engine reports
	Err    string // apply: "" | "eof" (payload ends inside an event) | "magic" (payload continues with a service record)
}

func (c c17RCall) String() string {
	switch c.Kind {
	case "apply":
		e := ""
		if c.Err != "" {
			e = "," + c.Err
		}
		return fmt.Sprintf("Apply[%d:%d]->%d%s", c.From, c.To, c.NewPos, e)
	case "skip":
		return fmt.Sprintf("Skip(%d)@%d", c.To-c.From, c.From)
	}
	return fmt.Sprintf("Commit(%d)", c.From)
}

func c17RServiceLen(magic uint32) int {
	switch magic {
	case c17LevStart:
		return 24
	case c17LevTag, c17LevCrc32:
		return 20
	case c17LevRotateFrom, c17LevRotateTo:
		return 36
	}
	return 0
}

// c17RPlan mirrors the loop of fsbinlog's readUncompressedFile: the buffer holds stream[pos:avail]; service records
// are consumed by the reader (Skip), everything else is handed to Apply (4-byte aligned); when the engine needs more
// data (or everything was consumed) the window grows to the next end. Apply/Skip calls only (no commits).
func c17RPlan(stream []byte, start int, cuts []int) ([]c17RCall, error) {
	ends := append(append([]int{}, cuts...), len(stream))
	var calls []c17RCall
	pos, wi := start, 0
	unknownMagic := false
	for guard := 0; ; guard++ {
		if guard > 10000 {
			return nil, errors.New("reader model does not terminate")
		}
		avail := ends[wi]
		buf := stream[pos:avail]
		buf = buf[:len(buf)&^3]
		needMore := false
		if len(buf) < 4 {
			needMore = true
		} else if n := c17RServiceLen(binary.LittleEndian.Uint32(buf)); n > 0 {
			unknownMagic = false
			if len(buf) < n {
				needMore = true
			} else {
				calls = append(calls, c17RCall{Kind: "skip", From: pos, To: pos + n, NewPos: pos + n})
				pos += n
			}
		} else {
			if unknownMagic {
				return nil, fmt.Errorf("unknown record at %d", pos)
			}
			c := c17RCall{Kind: "apply", From: pos, To: pos + len(buf)}
			read := 0
			for b := buf; ; {
				if len(b) == 0 {
					break
				}
				_, n, ok, known := c17ParseEvent(b)
				if !known {
					c.Err = "magic"
					break
				}
				if !ok || n > len(b) {
					c.Err = "eof"
					break
				}
				read += n
				b = b[n:]
			}
			c.NewPos = pos + read
			calls = append(calls, c)
			pos = c.NewPos
			switch c.Err {
			case "eof":
				needMore = true
			case "magic":
				unknownMagic = true
			}
		}
		if needMore || pos >= avail {
			if wi+1 < len(ends) {
				wi++
				continue
			}
			if pos == len(stream) {
				return calls, nil
			}
			return nil, fmt.Errorf("stream ends inside a record at %d", pos)
		}
	}
}

// ---------------------------------------------------------------------------------------------------
// the harness binlog: executes a plan against the engine's callbacks

type c17RBinlog struct {
	stream  []byte
	start   int
	end     int        // position after the last callback
	plan    []c17RCall // with the commits in place
	master  bool
	after   func(i int, c c17RCall, direct bool) // called after every callback, from Run's goroutine
	stop    chan struct{}
	once    sync.Once
	scratch []byte

	problems []string // deviations from the reference model / callback errors
}

func (b *c17RBinlog) Run(offset int64, snapshotMeta []byte, controlMeta []byte, engine binlog2.Engine) error {
	if int(offset) != b.start {
		b.problems = append(b.problems, fmt.Sprintf("engine asks the binlog to start at %d, the database was left at %d", offset, b.start))
		return fmt.Errorf("c17 replay: unexpected start offset %d", offset)
	}
	impl, _ := engine.(*binlogEngineReplicaImpl)
	for i, c := range b.plan {
		direct := impl != nil && impl.state == none
		switch c.Kind {
		case "apply":
			// the payload is only valid during the call (contract): hand a private copy and overwrite it afterwards
			b.scratch = append(b.scratch[:0], b.stream[c.From:c.To]...)
			newPos, err := engine.Apply(b.scratch)
			for j := range b.scratch {
				b.scratch[j] = 0xEE
			}
			got := ""
			switch {
			case err == nil:
			case errors.Is(err, binlog2.ErrorUnknownMagic):
				got = "magic"
			case isEOFErr(err):
				got = "eof"
			default:
				b.problems = append(b.problems, fmt.Sprintf("callback #%d %v fails: %v", i, c, err))
				return fmt.Errorf("Engine.Apply return error %w", err)
			}
			if int(newPos) != c.NewPos || got != c.Err {
				b.problems = append(b.problems, fmt.Sprintf("callback #%d %v: the engine reports position %d (%q)", i, c, newPos, got))
				return fmt.Errorf("c17 replay: engine reports position %d, expected %d", newPos, c.NewPos)
			}
			direct = direct && impl.state == none
		case "skip":
			newPos, err := engine.Skip(int64(c.To - c.From))
			if err != nil {
				b.problems = append(b.problems, fmt.Sprintf("callback #%d %v fails: %v", i, c, err))
				return fmt.Errorf("Engine.Skip return error %w", err)
			}
			if int(newPos) != c.NewPos {
				b.problems = append(b.problems, fmt.Sprintf("callback #%d %v: the engine reports position %d", i, c, newPos))
				return fmt.Errorf("Engine.Skip return new position %d, expect %d", newPos, c.NewPos)
			}
			direct = direct && impl.state == none
		case "commit":
			if err := engine.Commit(int64(c.From), nil, int64(c.From)); err != nil {
				b.problems = append(b.problems, fmt.Sprintf("callback #%d %v fails: %v", i, c, err))
				return fmt.Errorf("Engine.Commit return error %w", err)
			}
		}
		if b.after != nil {
			b.after(i, c, direct)
		}
	}
	if err := engine.ChangeRole(binlog2.ChangeRoleInfo{IsMaster: b.master, IsReady: true}); err != nil {
		return err
	}
	<-b.stop
	if b.master {
		// like the fsbinlog writer at shutdown: what the engine holds is reported as committed (the engine is a ready
		// master whose queue was applied in binlogWaitReady, Commit only publishes the position here)
		if err := engine.Commit(int64(b.end), nil, int64(b.end)); err != nil {
			return err
		}
	}
	return nil
}

var errC17RReadOnly = errors.New("c17 replay binlog: nothing is appended in this family")

func (b *c17RBinlog) Append(onOffset int64, payload []byte) (int64, error)     { return onOffset, errC17RReadOnly }
func (b *c17RBinlog) AppendASAP(onOffset int64, payload []byte) (int64, error) { return onOffset, errC17RReadOnly }
func (b *c17RBinlog) EngineStatus(status binlog2.EngineStatus)                 {}
func (b *c17RBinlog) GetStartCmd() (binlog2.StartCmd, bool)                    { return binlog2.StartCmd{}, false }
func (b *c17RBinlog) RequestReindex(diff bool, fast bool)                      {}
func (b *c17RBinlog) AddStats(stats map[string]string)                         {}
func (b *c17RBinlog) RequestShutdown()                                         { b.once.Do(func() { close(b.stop) }) }

// ---------------------------------------------------------------------------------------------------

// c17RStart is a database a life starts from: nil = the empty database the engine created (stored offset 0), otherwise
// a kill image of the first phase (second crash: the replay FROM an image is itself cut and killed).
type c17RStart struct {
	Offset int
	Key    string // stored offset | rows
	Hash   uint64
	Files  map[string][]byte
}

type c17RScript struct {
	Start   *c17RStart
	Master  bool
	Period  time.Duration // Options.CommitEvery: 1 ns = "commit period always elapsed", 1 h = "elapsed only before the first delayed commit"
	Cuts    []int
	Commits []int // boundaries (index of the Apply/Skip call BEFORE which Commit(position) is delivered), ascending
}

func (s c17RScript) String() string {
	role := "replica"
	if s.Master {
		role = "master-restart"
	}
	from := ""
	if s.Start != nil {
		from = fmt.Sprintf("start=kill-image{%s} ", s.Start.Key)
	}
	return fmt.Sprintf("%srole=%s commit-period=%v window-ends=%v commits-before-calls=%v", from, role, s.Period, s.Cuts, s.Commits)
}

type c17RFamily struct {
	cfg      *c17Cfg
	rep      *mc.Report
	emit     func([]c17Verdict)
	log      *c17RLog
	template string // directory with a database the real engine created on the empty prefix (stored offset 0)
	scratch  string // directory of the family's databases: tmpfs when available (every life ends with SQLite commits, whose fsyncs on a shared disk cost ~100 ms per life and mean nothing for a process-kill image)
	seq      atomic.Int64
	images   sync.Map // content hash -> struct{}
	collect  atomic.Bool // first phase: kill images are registered as start states of the second phase
	startMu  sync.Mutex
	starts   map[string]*c17RStart // logical content (stored offset | rows) -> representative image (smallest content hash: deterministic)

	lives, calls, partialDirect, partialDirectCommitted, imagesSeen, imagesChecked, restarts atomic.Int64
	sigMu                                                                                     sync.Mutex
	sigs                                                                                      map[string]int
}

// c17RStamp is a cheap fingerprint of the database directory: per file its name, size and first 100 bytes (the SQLite
// header holds the file change counter, which every commit increments). Only used to skip re-reading files that
// cannot have changed since the previous callback of the same life; image identity is decided by c17RHashDB.
func c17RStamp(dir string) (string, error) {
	ents, err := os.ReadDir(filepath.Join(dir, "db"))
	if err != nil {
		return "", err
	}
	var sb strings.Builder
	var head [100]byte
	for _, e := range ents {
		fi, err := e.Info()
		if err != nil {
			return "", err
		}
		fmt.Fprintf(&sb, "%s:%d:", e.Name(), fi.Size())
		if !strings.HasSuffix(e.Name(), "-journal") {
			f, err := os.Open(filepath.Join(dir, "db", e.Name()))
			if err != nil {
				return "", err
			}
			n, _ := f.ReadAt(head[:], 0)
			f.Close()
			sb.Write(head[:n])
		}
	}
	return sb.String(), nil
}

func c17RHashDB(dir string) (uint64, map[string][]byte, error) {
	ents, err := os.ReadDir(filepath.Join(dir, "db"))
	if err != nil {
		return 0, nil, err
	}
	h := fnv.New64a()
	files := map[string][]byte{}
	for _, e := range ents { // ReadDir sorts by name
		d, err := os.ReadFile(filepath.Join(dir, "db", e.Name()))
		if err != nil {
			return 0, nil, err
		}
		fmt.Fprintf(h, "%s:%d:", e.Name(), len(d))
		if !strings.HasSuffix(e.Name(), "-journal") {
			// a rollback journal starts with a random nonce (SQLite salts its page checksums), so its bytes differ from
			// run to run; between callbacks no commit is in progress and nothing was spilled from the page cache, so a
			// journal found here holds the unmodified pages of this very database file: name and size identify it
			h.Write(d)
		}
		files[e.Name()] = d
	}
	return h.Sum64(), files, nil
}

// judge runs the crash-state oracle on one image (db files) against the family's binlog.
func (f *c17RFamily) judge(files map[string][]byte, hash uint64, s c17RScript, plan []c17RCall, at int, killed bool) error {
	dir := filepath.Join(f.scratch, fmt.Sprintf("ri%06d", f.seq.Add(1)))
	defer os.RemoveAll(dir)
	if err := c17CopyDir(f.log.Dir, dir, false); err != nil {
		return err
	}
	for name, d := range files {
		if err := os.WriteFile(filepath.Join(dir, "db", name), d, 0644); err != nil {
			return err
		}
	}
	r := &c17Run{Variant: "replay", Class: "replay-callback", Mode: "nowait", N: at, Dir: dir, Killed: killed, Opened: true, Closed: !killed}
	vs, key, nt := f.cfg.check(r, f.rep)
	f.restarts.Add(1)
	var where string
	if killed {
		var done []string
		for i := 0; i <= at && i < len(plan); i++ {
			done = append(done, plan[i].String())
		}
		where = fmt.Sprintf("process image after callback #%d of [%v], callbacks so far: %v", at, s, done)
	} else {
		where = fmt.Sprintf("database after the complete replay [%v] and a clean Close", s)
	}
	for i := range vs {
		vs[i].Sig = "C17:replay:" + vs[i].Sig[len("C17:"):]
		vs[i].Desc = where + ": " + vs[i].Desc
		vs[i].Detail["replay_script"] = s.String()
		delete(vs[i].Detail, "kill_at_syscall")
		delete(vs[i].Detail, "acked_writes")
	}
	f.report(vs)
	if killed && f.collect.Load() {
		if db, err := c17ReadDB(dir); err == nil && db.HasOff { // plain SQLite; rolls a hot journal back in this private copy
			k := fmt.Sprintf("%d|%s", db.Offset, c17StateKey(db.Rows))
			f.startMu.Lock()
			if old := f.starts[k]; old == nil || hash < old.Hash {
				f.starts[k] = &c17RStart{Offset: int(db.Offset), Key: k, Hash: hash, Files: files}
			}
			f.startMu.Unlock()
		}
	}
	if key != "" {
		f.rep.State(key)
		if nt {
			f.rep.Nontrivial(key)
		}
	}
	return nil
}

func (f *c17RFamily) report(vs []c17Verdict) {
	if len(vs) == 0 {
		return
	}
	f.sigMu.Lock()
	for _, v := range vs {
		f.sigs[v.Sig]++
	}
	f.sigMu.Unlock()
	f.emit(vs)
}

// life runs one script on a fresh copy of the template database.
func (f *c17RFamily) life(s c17RScript, base []c17RCall) error {
	dir := filepath.Join(f.scratch, fmt.Sprintf("rl%06d", f.seq.Add(1)))
	defer os.RemoveAll(dir)
	start := 0
	if s.Start == nil {
		if err := c17CopyDir(f.template, dir, true); err != nil {
			return err
		}
	} else {
		start = s.Start.Offset
		for _, sub := range []string{"bl", "db"} {
			if err := os.MkdirAll(filepath.Join(dir, sub), 0755); err != nil {
				return err
			}
		}
		for name, d := range s.Start.Files {
			if err := os.WriteFile(filepath.Join(dir, "db", name), d, 0644); err != nil {
				return err
			}
		}
	}
	// the plan with the commits in place. Replica: one Commit always follows the last callback (as the reader does when
	// it reaches the end). Master restart: the binlog turns the engine into a ready master right after the last
	// callback - events still queued are applied by the engine itself (binlogWaitReady) - and commits at shutdown.
	var plan []c17RCall
	ci := 0
	pos := start
	for i, c := range base {
		for ci < len(s.Commits) && s.Commits[ci] == i {
			plan = append(plan, c17RCall{Kind: "commit", From: pos, To: pos, NewPos: pos})
			ci++
		}
		plan = append(plan, c)
		pos = c.NewPos
	}
	if !s.Master {
		plan = append(plan, c17RCall{Kind: "commit", From: pos, To: pos, NewPos: pos})
	}

	var imgErr error
	// non-vacuity bookkeeping: a direct Apply that applied >= 1 event and was answered with an expected error, with no
	// later direct Apply/Skip (which rewrites the offset row), is "pending"; a Commit callback that changes the files
	// (SQLite commit) while one is pending makes that Apply's transaction durable on its own
	pendingPartial := false
	lastStamp := ""
	bl := &c17RBinlog{stream: f.log.Stream, start: start, end: pos, plan: plan, master: s.Master, stop: make(chan struct{})}
	bl.after = func(i int, c c17RCall, direct bool) {
		f.calls.Add(1)
		if direct && c.Kind != "commit" {
			pendingPartial = c.Kind == "apply" && c.Err != "" && c.NewPos > c.From
			if pendingPartial {
				f.partialDirect.Add(1)
			}
		}
		f.imagesSeen.Add(1)
		stamp, err := c17RStamp(dir)
		if err != nil {
			imgErr = err
			return
		}
		if stamp == lastStamp {
			return // same files as after the previous callback: that image was judged
		}
		lastStamp = stamp
		h, files, err := c17RHashDB(dir)
		if err != nil {
			imgErr = err
			return
		}
		if c.Kind == "commit" && pendingPartial {
			f.partialDirectCommitted.Add(1)
			pendingPartial = false
		}
		if _, dup := f.images.LoadOrStore(h, struct{}{}); dup {
			return
		}
		f.imagesChecked.Add(1)
		if err := f.judge(files, h, s, plan, i, true); err != nil {
			imgErr = err
		}
	}
	f.lives.Add(1)
	eng, err := OpenEngine(Options{
		Path:                   filepath.Join(dir, "db", "c17.db"),
		APPID:                  0xC17,
		Scheme:                 c17Schema,
		Replica:                !s.Master,
		DurabilityMode:         NoWaitCommit,
		CommitEvery:            s.Period,
		CacheMaxSizePerConnect: 8,
		MaxROConn:              2,
	}, bl, c17Apply(false), c17Apply(true))
	if imgErr != nil {
		return imgErr
	}
	for _, p := range bl.problems {
		f.report([]c17Verdict{{Sig: "C17:replay:engine-deviates-from-binlog-protocol", Desc: fmt.Sprintf("replay [%v]: %s", s, p), Detail: map[string]any{"replay_script": s.String()}}})
	}
	if err != nil {
		if len(bl.problems) == 0 {
			f.report([]c17Verdict{{Sig: "C17:replay:engine-fails-on-valid-binlog", Desc: fmt.Sprintf("replay [%v]: OpenEngine fails: %v", s, err), Detail: map[string]any{"replay_script": s.String()}}})
		}
		return nil
	}
	ctx, cancel := context.WithTimeout(context.Background(), 60*time.Second)
	err = eng.Close(ctx)
	cancel()
	eng.stop()
	if err != nil {
		f.report([]c17Verdict{{Sig: "C17:replay:engine-fails-on-valid-binlog", Desc: fmt.Sprintf("replay [%v]: Close after the complete replay fails: %v", s, err), Detail: map[string]any{"replay_script": s.String()}}})
		return nil
	}
	h, files, err := c17RHashDB(dir)
	if err != nil {
		return err
	}
	if _, dup := f.images.LoadOrStore(h^0x5bd1e995, struct{}{}); !dup { // closed databases are judged as completed runs
		f.imagesChecked.Add(1)
		return f.judge(files, h, s, plan, len(plan)-1, false)
	}
	return nil
}

// c17RSubsets calls fn with every ascending subset of {lo..hi-1} of size <= k.
func c17RSubsets(lo, hi, k int, fn func([]int)) {
	var cur []int
	var rec func(from int)
	rec = func(from int) {
		fn(append([]int{}, cur...))
		if len(cur) == k {
			return
		}
		for v := from; v < hi; v++ {
			cur = append(cur, v)
			rec(v + 1)
			cur = cur[:len(cur)-1]
		}
	}
	rec(lo)
}

// c17ReplayFamily enumerates the family; violations go through emit (signatures C17:replay:*).
func c17ReplayFamily(cfg *c17Cfg, rep *mc.Report, emit func([]c17Verdict)) error {
	t0 := time.Now()
	maxCuts, maxCommits := 1, mc.Pick(1, 2)
	f := &c17RFamily{cfg: cfg, rep: rep, emit: emit, sigs: map[string]int{}, starts: map[string]*c17RStart{}}
	var err error
	f.scratch = filepath.Join(cfg.scratch, "replay")
	if d, e := os.MkdirTemp("/dev/shm", fmt.Sprintf("vcheck_C17_replay_%d_", os.Getpid())); e == nil {
		f.scratch = d
	} else if err := os.MkdirAll(f.scratch, 0755); err != nil {
		return err
	}
	defer os.RemoveAll(f.scratch)
	if f.log, err = c17RMakeLog(filepath.Join(f.scratch, "replay_log"), cfg.writes); err != nil {
		return fmt.Errorf("replay family: history: %w", err)
	}
	// template database: created by the real engine over the empty prefix of the stream
	f.template = filepath.Join(f.scratch, "replay_template")
	for _, sub := range []string{"bl", "db"} {
		if err := os.MkdirAll(filepath.Join(f.template, sub), 0755); err != nil {
			return err
		}
	}
	{
		bl := &c17RBinlog{stream: f.log.Stream, master: false, stop: make(chan struct{})}
		eng, err := OpenEngine(Options{Path: filepath.Join(f.template, "db", "c17.db"), APPID: 0xC17, Scheme: c17Schema, Replica: true,
			DurabilityMode: NoWaitCommit, CommitEvery: time.Hour, CacheMaxSizePerConnect: 8, MaxROConn: 2}, bl, c17Apply(false), c17Apply(true))
		if err != nil {
			return fmt.Errorf("replay family: template database: %w", err)
		}
		if err := eng.Close(context.Background()); err != nil {
			return fmt.Errorf("replay family: template database close: %w", err)
		}
		eng.stop()
	}
	L := len(f.log.Stream)
	type job struct {
		s    c17RScript
		base []c17RCall
	}
	cutSets := 0
	maxCalls := 0
	scripts := 0
	var skipped atomic.Int64
	shard, shards := mc.ShardFromEnv()
	// phase runs every script (cut sets x commit sets x roles x periods) from the given start state
	phase := func(st *c17RStart, commitBound int) error {
		start := 0
		if st != nil {
			start = st.Offset
		}
		var jobs []job
		var planErr error
		var positions []int
		for k := start + 4; k < L; k += 4 {
			positions = append(positions, k)
		}
		c17RSubsets(0, len(positions), maxCuts, func(idx []int) {
			cuts := make([]int, len(idx))
			for i, v := range idx {
				cuts[i] = positions[v]
			}
			base, err := c17RPlan(f.log.Stream, start, cuts)
			if err != nil {
				planErr = fmt.Errorf("start %d window ends %v: %w", start, cuts, err)
				return
			}
			cutSets++
			if len(base) > maxCalls {
				maxCalls = len(base)
			}
			c17RSubsets(0, len(base), commitBound, func(commits []int) {
				for _, master := range []bool{false, true} {
					for _, period := range []time.Duration{time.Nanosecond, time.Hour} {
						jobs = append(jobs, job{c17RScript{Start: st, Master: master, Period: period, Cuts: cuts, Commits: commits}, base})
					}
				}
			})
		})
		if planErr != nil {
			return fmt.Errorf("replay family: reader model: %w", planErr)
		}
		scripts += len(jobs)
		workers := runtime.GOMAXPROCS(0)
		if workers > 16 {
			workers = 16
		}
		ch := make(chan job, 64)
		var wg sync.WaitGroup
		var firstErr atomic.Value
		for w := 0; w < workers; w++ {
			wg.Add(1)
			go func() {
				defer wg.Done()
				for j := range ch {
					if mc.Expired() || firstErr.Load() != nil {
						skipped.Add(1)
						continue
					}
					if err := f.life(j.s, j.base); err != nil {
						firstErr.Store(err.Error())
					}
				}
			}()
		}
		for i, j := range jobs {
			if i%shards == shard {
				ch <- j
			}
		}
		close(ch)
		wg.Wait()
		if v := firstErr.Load(); v != nil {
			return fmt.Errorf("replay family: %s", v.(string))
		}
		return nil
	}
	// first phase: lives from the empty database; its kill images are the start states of the second phase
	f.collect.Store(true)
	if err := phase(nil, maxCommits); err != nil {
		return err
	}
	f.collect.Store(false)
	firstLives, firstScripts := f.lives.Load(), scripts
	// second phase (thorough tier): a second crash - the replay FROM every logically distinct kill image of the first
	// phase (stored offset > 0: the engine starts with everything queued until the first Commit) is cut and killed the
	// same way. Skipped when the first phase already reported violations (the images are then not trustworthy starts).
	secondCommits := mc.Pick(-1, 1)
	var startKeys []string
	if secondCommits >= 0 && len(f.sigs) == 0 && shards == 1 {
		for k := range f.starts {
			startKeys = append(startKeys, k)
		}
		sort.Strings(startKeys)
		for _, k := range startKeys {
			if err := phase(f.starts[k], secondCommits); err != nil {
				return err
			}
		}
	}
	if skipped.Load() > 0 {
		rep.Cap("wall_budget")
	}
	second := "not in this tier"
	if secondCommits >= 0 {
		second = fmt.Sprintf("the same scripts with <= %d Commit boundaries, started from every logically distinct kill image of the first phase (%d start states: %v)", secondCommits, len(startKeys), startKeys)
	}
	rep.Bounds["replay_family"] = fmt.Sprintf("history = binlog files written by the real master engine + real fsbinlog for the scripted workload's %d writes (%d bytes, %d events, service records incl. rotation); scripts = roles {replica, master restart} x commit period {always elapsed (1ns), elapsed only initially (1h)} x every set of <= %d read-window ends at 4-byte boundaries inside the stream x every set of <= %d callback boundaries with a Commit(position) (replica: a Commit always follows the last callback; master restart: ready right after the last callback, Commit at shutdown); image of the database files after EVERY callback; second crash during the replay from an image: %s", cfg.writes, L, len(f.log.Events), maxCuts, maxCommits, second)
	rep.Parts["replay_family"] = map[string]any{
		"scripts": scripts, "scripts_from_empty_database": firstScripts, "engine_lives": f.lives.Load(), "engine_lives_from_empty_database": firstLives,
		"start_states_of_second_phase": len(startKeys), "cut_sets": cutSets,
		"callbacks": f.calls.Load(), "max_apply_skip_calls_per_script": maxCalls,
		"direct_applies_answered_with_expected_error_after_applying_events": f.partialDirect.Load(),
		"of_those_made_durable_by_a_commit_callback_before_any_other_direct_callback": f.partialDirectCommitted.Load(),
		"images_after_callbacks": f.imagesSeen.Load(), "distinct_images_judged": f.imagesChecked.Load(), "restarts_on_images": f.restarts.Load(),
		"violations_by_signature": f.sigs, "wall_s": time.Since(t0).Seconds(),
	}
	rep.AddCounts(f.lives.Load()+2*f.restarts.Load(), f.calls.Load(), 0, 0)
	return nil
}
