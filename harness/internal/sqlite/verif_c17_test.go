//go:build verif

package sqlite

// C17: the binlog-backed SQLite engine stays consistent with its binlog across crashes.
//
// Fault enumeration on the real process: the harness re-executes its own test binary as a child
// (TestVerifC17Child) that opens the real Engine over a real fsbinlog in a scratch directory and runs a
// fixed workload (overwriting writes, a delete, a big event that forces a binlog rotation, one callback
// that fails after it already executed SQL, View reads from the main thread and from a concurrent reader).
// The child runs under
//
//	strace -f -e trace=<write family> -P <every file of the database and of the binlog>
//	       -e inject=<write family>:signal=KILL:when=N
//
// for EVERY N up to the number of matching syscalls of an unkilled run (plus a margin for schedule
// variation), in both commit modes. The process dies at syscall entry, i.e. before the Nth write-family
// syscall on a database/binlog file takes effect; the acknowledgement log the child keeps is a file outside
// the -P set, so it is never a kill point. After every kill the harness checks, on copies of the directory,
// the four clauses of the statement against an independent parser of the binlog files and a map model.
//
// The oracle is an invariant of ANY crash state (it never refers to which schedule was taken), so the
// timing variation between runs cannot cause an alarm on correct code; it only changes which crash states
// are visited. Level: fault_enumeration (kill points of observed schedules, not all schedules).

import (
	"bufio"
	"bytes"
	"context"
	"encoding/binary"
	"errors"
	"fmt"
	"hash/fnv"
	"io"
	"log"
	"os"
	"path/filepath"
	"runtime"
	"sort"
	"strconv"
	"strings"
	"sync"
	"sync/atomic"
	"syscall"
	"testing"
	"time"

	"github.com/VKCOM/statshouse/internal/sqlite/sqlite0"
	"github.com/VKCOM/statshouse/internal/verif/mc"
	binlog2 "github.com/VKCOM/statshouse/internal/vkgo/binlog"
	"github.com/VKCOM/statshouse/internal/vkgo/binlog/fsbinlog"
)

const (
	c17Magic       = uint32(0xC17E0001)
	c17BinlogMagic = uint32(0x0C17C17)
	c17Schema      = "CREATE TABLE IF NOT EXISTS kv (k INTEGER PRIMARY KEY, v INTEGER);"
	c17FailKey     = 99
	c17FailVal     = 999
	c17ChunkSize   = 300 // MaxChunkSize of the binlog: the big event forces one rotation
	c17Syscalls    = "write,pwrite64,pwritev,pwritev2,fsync,fdatasync,ftruncate,rename,renameat,renameat2,unlink,unlinkat"

	// fsbinlog service records (values of the on-disk format; the harness parses the files independently)
	c17LevStart      = uint32(0x044c644b)
	c17LevTag        = uint32(0x04476154)
	c17LevCrc32      = uint32(0x04435243)
	c17LevRotateFrom = uint32(0x04724cd2)
	c17LevRotateTo   = uint32(0x04464c72)
)

// ---------------------------------------------------------------------------------------------------
// workload (shared by child and parent)

type c17Op struct {
	Kind  string // "set", "del", "add", "fail", "view", "pause"
	K, V  int64
	Fill  int // filler bytes appended to the event (forces rotation when large)
	Write int // index among the writes (set/del), -1 otherwise
}

func c17Workload(n int) []c17Op {
	// n binlog-producing writes; keys collide so that every prefix has a different state
	base := []c17Op{
		{Kind: "set", K: 1, V: 10},
		{Kind: "set", K: 2, V: 20, Fill: 5},
		{Kind: "fail", K: c17FailKey, V: c17FailVal},
		{Kind: "view"},
		{Kind: "add", K: 1, V: 1}, // not idempotent: applying it twice is visible
		{Kind: "pause"},
		{Kind: "del", K: 2},
		{Kind: "set", K: 3, V: 30, Fill: 250}, // > MaxChunkSize together with what precedes: rotation
		{Kind: "view"},
		{Kind: "add", K: 3, V: 5},
		// thorough continues
		{Kind: "pause"},
		{Kind: "set", K: 2, V: 21, Fill: 2},
		{Kind: "fail", K: c17FailKey, V: c17FailVal},
		{Kind: "add", K: 1, V: 7},
		{Kind: "del", K: 1},
		{Kind: "view"},
		{Kind: "set", K: 5, V: 50, Fill: 260}, // second rotation
		{Kind: "pause"},
		{Kind: "add", K: 3, V: 100},
		{Kind: "set", K: 1, V: 12},
	}
	var out []c17Op
	w := 0
	for _, op := range base {
		op.Write = -1
		if op.Kind == "set" || op.Kind == "del" || op.Kind == "add" {
			if w == n {
				break
			}
			op.Write = w
			w++
		}
		out = append(out, op)
	}
	return out
}

// event: magic, seq, kind(0 set,1 del), k, v, fill length, filler
func c17Event(seq int, op c17Op) []byte {
	b := make([]byte, 24, 24+op.Fill)
	binary.LittleEndian.PutUint32(b[0:], c17Magic)
	binary.LittleEndian.PutUint32(b[4:], uint32(seq))
	kind := uint32(0)
	switch op.Kind {
	case "del":
		kind = 1
	case "add":
		kind = 2
	}
	binary.LittleEndian.PutUint32(b[8:], kind)
	binary.LittleEndian.PutUint32(b[12:], uint32(op.K))
	binary.LittleEndian.PutUint32(b[16:], uint32(op.V))
	binary.LittleEndian.PutUint32(b[20:], uint32(op.Fill))
	for i := 0; i < op.Fill; i++ {
		b = append(b, byte(0xA0+i%16))
	}
	return b
}

type c17Ev struct {
	Seq      int
	Kind     uint32 // 0 set, 1 del, 2 add
	K, V     int64
	Off, End int64 // global offsets: first byte, first byte after the padded event
}

// c17ParseEvent parses one event at the head of b: n = padded length, ok=false when incomplete.
func c17ParseEvent(b []byte) (ev c17Ev, n int, ok bool, known bool) {
	if len(b) < 4 {
		return ev, 0, false, true
	}
	if binary.LittleEndian.Uint32(b) != c17Magic {
		return ev, 0, false, false
	}
	if len(b) < 24 {
		return ev, 0, false, true
	}
	fill := int(binary.LittleEndian.Uint32(b[20:]))
	total := 24 + fill
	if fill < 0 || fill > 1<<20 || len(b) < total {
		return ev, 0, false, true
	}
	ev.Seq = int(binary.LittleEndian.Uint32(b[4:]))
	ev.Kind = binary.LittleEndian.Uint32(b[8:])
	ev.K = int64(binary.LittleEndian.Uint32(b[12:]))
	ev.V = int64(binary.LittleEndian.Uint32(b[16:]))
	return ev, fsbinlog.AddPadding(total), true, true
}

// the engine's apply / scan callbacks (the application side of the protocol, as in the package's tests)
func c17Apply(scanOnly bool) ApplyEventFunction {
	return func(conn Conn, offset int64, b []byte) (int, error) {
		read := 0
		for len(b) > 0 {
			ev, n, ok, known := c17ParseEvent(b)
			if !known {
				return read, binlog2.ErrorUnknownMagic
			}
			if !ok {
				return read, binlog2.ErrorNotEnoughData
			}
			if n > len(b) { // complete payload, padding not there yet
				return read, binlog2.ErrorNotEnoughData
			}
			if !scanOnly {
				var err error
				err = c17Exec(conn, ev.Kind, ev.K, ev.V)
				if err != nil {
					return read, err
				}
			}
			read += n
			b = b[n:]
		}
		return read, nil
	}
}

// c17Exec is the SQL of one operation (used by the writer's callback and by the replay callback alike).
func c17Exec(conn Conn, kind uint32, k, v int64) (err error) {
	switch kind {
	case 1:
		_, err = conn.Exec("c17del", "DELETE FROM kv WHERE k = $k", Int64("$k", k))
	case 2:
		_, err = conn.Exec("c17add", "UPDATE kv SET v = v + $v WHERE k = $k", Int64("$k", k), Int64("$v", v))
	default:
		_, err = conn.Exec("c17set", "INSERT OR REPLACE INTO kv(k, v) VALUES ($k, $v)", Int64("$k", k), Int64("$v", v))
	}
	return err
}

func c17KindOf(op c17Op) uint32 {
	switch op.Kind {
	case "del":
		return 1
	case "add":
		return 2
	}
	return 0
}

type c17Silent struct{}

func (c17Silent) Tracef(string, ...interface{}) {}
func (c17Silent) Debugf(string, ...interface{}) {}
func (c17Silent) Infof(string, ...interface{})  {}
func (c17Silent) Warnf(string, ...interface{})  {}
func (c17Silent) Errorf(string, ...interface{}) {}

// c17DoReaders: think times of the goroutines that read through Do() (empty event) in the concurrent workload.
var c17DoReaders = []time.Duration{2 * time.Millisecond, 7 * time.Millisecond, 11 * time.Millisecond}

// c17Chunk is the binlog's MaxChunkSize (the child of the concurrent-writers variant raises it: no rotation there).
var c17Chunk uint32 = c17ChunkSize

func c17BinlogOptions(dir string, writeDelay time.Duration) fsbinlog.Options {
	return fsbinlog.Options{PrefixPath: filepath.Join(dir, "bl", "c17"), Magic: c17BinlogMagic, MaxChunkSize: c17Chunk, WriteCallDelay: &writeDelay}
}

func c17OpenEngine(dir string, mode DurabilityMode, commitEvery, writeDelay time.Duration) (*Engine, error) {
	bl, err := fsbinlog.NewFsBinlog(c17Silent{}, c17BinlogOptions(dir, writeDelay))
	if err != nil {
		return nil, err
	}
	return OpenEngine(Options{
		Path:                   filepath.Join(dir, "db", "c17.db"),
		APPID:                  0xC17,
		Scheme:                 c17Schema,
		DurabilityMode:         mode,
		CommitEvery:            commitEvery,
		CacheMaxSizePerConnect: 8,
		MaxROConn:              2,
	}, bl, c17Apply(false), c17Apply(true))
}

// ---------------------------------------------------------------------------------------------------
// child

type c17AckLog struct {
	mu sync.Mutex
	f  *os.File
}

func (a *c17AckLog) line(format string, args ...any) {
	a.mu.Lock()
	defer a.mu.Unlock()
	fmt.Fprintf(a.f, format+"\n", args...)
}

func c17ModelApply(m map[int64]int64, kind uint32, k, v int64) {
	switch kind {
	case 1:
		delete(m, k)
	case 2:
		if old, ok := m[k]; ok {
			m[k] = old + v
		}
	default:
		m[k] = v
	}
}

func c17StateKey(m map[int64]int64) string {
	ks := make([]int64, 0, len(m))
	for k := range m {
		ks = append(ks, k)
	}
	sort.Slice(ks, func(i, j int) bool { return ks[i] < ks[j] })
	var sb strings.Builder
	for _, k := range ks {
		fmt.Fprintf(&sb, "%d=%d;", k, m[k])
	}
	return sb.String()
}

func c17BinlogBytesOnDisk(dir string) int64 {
	ents, _ := os.ReadDir(filepath.Join(dir, "bl"))
	var n int64
	for _, e := range ents {
		if fi, err := e.Info(); err == nil {
			n += fi.Size()
		}
	}
	return n
}

// TestVerifC17Child is the workload process. It only runs when the harness starts it (C17_CHILD=1).
func TestVerifC17Child(t *testing.T) {
	if os.Getenv("C17_CHILD") != "1" {
		t.Skip("child of TestVerifC17 only")
	}
	log.SetOutput(io.Discard)
	dir := os.Getenv("C17_DIR")
	nWrites, _ := strconv.Atoi(os.Getenv("C17_N"))
	mode := WaitCommit
	if os.Getenv("C17_MODE") == "nowait" {
		mode = NoWaitCommit
	}
	commitEvery := 10 * time.Millisecond
	af, err := os.OpenFile(filepath.Join(dir, "ack.log"), os.O_CREATE|os.O_WRONLY|os.O_APPEND, 0644)
	if err != nil {
		t.Fatal(err)
	}
	ack := &c17AckLog{f: af}
	variant := os.Getenv("C17_VARIANT")
	writeDelay := 6 * time.Millisecond
	if variant == "conc" {
		c17Chunk = 1 << 16
		writeDelay = 40 * time.Millisecond
	}
	eng, err := c17OpenEngine(dir, mode, commitEvery, writeDelay)
	if err != nil {
		ack.line("openerr %q", err.Error())
		os.Exit(3)
	}
	ack.line("open")

	// model states published BEFORE the write is attempted: a reader may legitimately see a write whose Do
	// has not returned yet (the SQLite commit is done by another goroutine after the binlog commit)
	var mu sync.Mutex
	states := map[string]bool{"": true}
	cur := map[int64]int64{}

	viewOnce := func(who string) {
		var rows string
		var off int64 = -1
		var onDisk int64
		err := eng.View(context.Background(), "c17view", func(c Conn) error {
			r := c.Query("c17sel", "SELECT k, v FROM kv ORDER BY k")
			var sb strings.Builder
			for r.Next() {
				k, _ := r.ColumnInt64(0)
				v, _ := r.ColumnInt64(1)
				fmt.Fprintf(&sb, "%d=%d;", k, v)
			}
			if r.Error() != nil {
				return r.Error()
			}
			rows = sb.String()
			r2 := c.Query("c17off", "SELECT offset FROM __binlog_offset")
			for r2.Next() {
				off, _ = r2.ColumnInt64(0)
			}
			onDisk = c17BinlogBytesOnDisk(dir) // read inside the read transaction: the binlog only grows
			return r2.Error()
		})
		if err != nil {
			ack.line("viewerr %s %q", who, err.Error())
			return
		}
		mu.Lock()
		known := states[rows]
		mu.Unlock()
		switch {
		case !known:
			ack.line("BAD view-state %s rows=%q offset=%d", who, rows, off)
		case off > onDisk:
			ack.line("BAD view-ahead-of-binlog %s rows=%q offset=%d binlog_bytes=%d", who, rows, off, onDisk)
		default:
			ack.line("view %s %q %d", who, rows, off)
		}
	}

	stop := make(chan struct{})
	var wg sync.WaitGroup
	wg.Add(1)
	go func() { // concurrent reader
		defer wg.Done()
		for {
			select {
			case <-stop:
				return
			case <-time.After(5 * time.Millisecond):
			}
			viewOnce("bg")
		}
	}()

	errFail := errors.New("c17: callback fails on purpose")
	if variant == "conc" {
		c17ConcurrentWriters(eng, ack, &mu, states, cur, nWrites, errFail, dir, mode == WaitCommit)
	}
	for _, op := range c17Workload(nWrites) {
		if variant == "conc" {
			break
		}
		switch op.Kind {
		case "view":
			viewOnce("main")
		case "pause":
			time.Sleep(3 * commitEvery)
		case "fail":
			err := eng.Do(context.Background(), "c17fail", func(c Conn, cache []byte) ([]byte, error) {
				if _, err := c.Exec("c17set", "INSERT OR REPLACE INTO kv(k, v) VALUES ($k, $v)", Int64("$k", op.K), Int64("$v", op.V)); err != nil {
					return nil, err
				}
				return c17Event(1000, op), errFail
			})
			ack.line("fail %v", err != nil)
		default:
			mu.Lock()
			c17ModelApply(cur, c17KindOf(op), op.K, op.V)
			states[c17StateKey(cur)] = true
			mu.Unlock()
			op := op
			off, _, err := eng.DoWithOffset(context.Background(), "c17write", func(c Conn, cache []byte) ([]byte, error) {
				err := c17Exec(c, c17KindOf(op), op.K, op.V)
				return c17Event(op.Write, op), err
			})
			if err != nil {
				ack.line("writeerr %d %q", op.Write, err.Error())
				os.Exit(4)
			}
			ack.line("ack %d %d", op.Write, off)
		}
	}
	close(stop)
	wg.Wait()
	if err := eng.Close(context.Background()); err != nil {
		ack.line("closeerr %q", err.Error())
		os.Exit(5)
	}
	ack.line("closed")
	os.Exit(0)
}

// c17ConcurrentWriters is the workload of the "conc" variant: 4 writer goroutines with different think times
// (5, 13, 23, 31 ms) issue `per` Do()s each over 3 colliding keys (set / non-idempotent add / delete), one of them
// also a failing callback. With think times a Do regularly ARRIVES while the periodic commit is waiting for the
// binlog commit of an earlier write (writers that only run back to back are all blocked on the same binlog commit in
// wait-for-commit mode and never arrive during that wait). The sequence number of an event and the model state are
// fixed inside the callback, which the engine serialises, so binlog order == sequence order.
//
// The alphabet of callers also contains READS THROUGH Do(): c17DoReaders goroutines (think times 2/7/11 ms) call Do
// with a callback that only queries (kv rows and the stored offset, through the read-write connection, i.e. the open
// transaction with every write executed so far) and returns an EMPTY event. In wait-for-commit mode such a Do has to
// wait for every write executed before it (it is queued between the writers in the engine's acknowledgement queue
// with no offset of its own); in no-wait mode it returns at once. Oracle: the rows a Do-read is handed are exactly
// the model state of the prefix of writes executed so far (callbacks are serialised); in wait-for-commit mode, when
// the Do RETURNS, every event of that prefix is in the binlog files (checked twice: stored offset read by the callback
// <= bytes in the binlog files measured after the return, and - by the parent, after a kill - every event of the
// observed prefix is in the durable binlog). The writers' acknowledgements are checked as before.
func c17ConcurrentWriters(eng *Engine, ack *c17AckLog, mu *sync.Mutex, states map[string]bool, cur map[int64]int64, per int, errFail error, dir string, waitMode bool) {
	think := []time.Duration{5 * time.Millisecond, 13 * time.Millisecond, 23 * time.Millisecond, 31 * time.Millisecond}
	kinds := []string{"set", "add", "set", "del"}
	seq := 0
	var wg sync.WaitGroup
	writersDone := make(chan struct{})
	var rwg sync.WaitGroup
	for ri, rthink := range c17DoReaders {
		rwg.Add(1)
		go func(ri int, rthink time.Duration) {
			defer rwg.Done()
			time.Sleep(time.Duration(ri+1) * 3 * time.Millisecond)
			for {
				select {
				case <-writersDone:
					return
				default:
				}
				var rows, want string
				var off int64 = -1
				seen, queued := -1, 0
				err := eng.Do(context.Background(), "c17doread", func(c Conn, cache []byte) ([]byte, error) {
					r := c.Query("c17sel", "SELECT k, v FROM kv ORDER BY k")
					var sb strings.Builder
					for r.Next() {
						k, _ := r.ColumnInt64(0)
						v, _ := r.ColumnInt64(1)
						fmt.Fprintf(&sb, "%d=%d;", k, v)
					}
					if r.Error() != nil {
						return nil, r.Error()
					}
					rows = sb.String()
					r2 := c.Query("c17off", "SELECT offset FROM __binlog_offset")
					for r2.Next() {
						off, _ = r2.ColumnInt64(0)
					}
					if r2.Error() != nil {
						return nil, r2.Error()
					}
					mu.Lock()
					seen, want = seq, c17StateKey(cur)
					mu.Unlock()
					eng.waitQMx.Lock() // observation only (non-vacuity counter): unacknowledged callers ahead of this read
					queued = len(eng.waitQ)
					eng.waitQMx.Unlock()
					return nil, nil // empty event: a read
				})
				var onDisk int64
				if waitMode {
					onDisk = c17BinlogBytesOnDisk(dir) // measured AFTER the return: the binlog only grows
				}
				switch {
				case err != nil:
					ack.line("doreaderr r%d %q", ri, err.Error())
				case rows != want:
					ack.line("BAD doread-state r%d rows=%q after %d writes, model state of that prefix=%q offset=%d", ri, rows, seen, want, off)
				case waitMode && off > onDisk:
					ack.line("BAD doread-ahead-of-binlog r%d rows=%q (state after %d writes) offset=%d binlog_bytes=%d callers_ahead=%d", ri, rows, seen, off, onDisk, queued)
				default:
					ack.line("doread %d %d %d", seen, off, queued)
				}
				time.Sleep(rthink)
			}
		}(ri, rthink)
	}
	defer func() {
		close(writersDone)
		rwg.Wait()
	}()
	for g := range think {
		wg.Add(1)
		go func(g int) {
			defer wg.Done()
			time.Sleep(time.Duration(g) * 7 * time.Millisecond)
			for j := 0; j < per; j++ {
				op := c17Op{Kind: kinds[(g+2*j+j/2)%4], K: int64(1 + (g+j)%3), V: int64(10*(g+1) + j), Fill: (g + j) % 7}
				if g == 1 && j == 1 {
					err := eng.Do(context.Background(), "c17fail", func(c Conn, cache []byte) ([]byte, error) {
						if _, err := c.Exec("c17set", "INSERT OR REPLACE INTO kv(k, v) VALUES ($k, $v)", Int64("$k", c17FailKey), Int64("$v", c17FailVal)); err != nil {
							return nil, err
						}
						return c17Event(1000, c17Op{Kind: "set", K: c17FailKey, V: c17FailVal}), errFail
					})
					ack.line("fail %v", err != nil)
				}
				mySeq := -1
				off, _, err := eng.DoWithOffset(context.Background(), "c17write", func(c Conn, cache []byte) ([]byte, error) {
					if err := c17Exec(c, c17KindOf(op), op.K, op.V); err != nil {
						return nil, err
					}
					mu.Lock()
					mySeq = seq
					seq++
					c17ModelApply(cur, c17KindOf(op), op.K, op.V)
					states[c17StateKey(cur)] = true
					mu.Unlock()
					return c17Event(mySeq, op), nil
				})
				if err != nil {
					ack.line("writeerr %d %q", mySeq, err.Error())
					os.Exit(4)
				}
				ack.line("ack %d %d", mySeq, off)
				time.Sleep(think[g])
			}
		}(g)
	}
	wg.Wait()
}

// ---------------------------------------------------------------------------------------------------
// parent: independent readers of the crash state

type c17BinlogState struct {
	Events   []c17Ev
	Length   int64 // first global offset not covered by any file
	Files    []string
	Problems []string // structural oddities (rotation in progress, short header...), informational
	// RotationInProgress: the files themselves show a rotate() that was cut short: a chunk without a complete
	// header, or a chunk that starts 36 bytes (the missing ROTATE_TO) after the end of the previous one
	RotationInProgress bool
}

// c17ReadBinlog parses the binlog files of dir with the harness's own reader.
func c17ReadBinlog(dir string) (c17BinlogState, error) {
	var st c17BinlogState
	ents, err := os.ReadDir(filepath.Join(dir, "bl"))
	if err != nil {
		return st, err
	}
	type file struct {
		name string
		pos  int64
		data []byte
	}
	var files []file
	for _, e := range ents {
		d, err := os.ReadFile(filepath.Join(dir, "bl", e.Name()))
		if err != nil {
			return st, err
		}
		f := file{name: e.Name(), pos: -1, data: d}
		if len(d) >= 4 {
			switch binary.LittleEndian.Uint32(d) {
			case c17LevStart:
				f.pos = 0
			case c17LevRotateFrom:
				if len(d) >= 36 {
					f.pos = int64(binary.LittleEndian.Uint64(d[8:]))
				}
			}
		}
		st.Files = append(st.Files, fmt.Sprintf("%s(%d bytes, pos %d)", e.Name(), len(d), f.pos))
		if f.pos < 0 {
			st.Problems = append(st.Problems, fmt.Sprintf("%s: %d bytes, no complete header", e.Name(), len(d)))
			st.RotationInProgress = true
			continue
		}
		files = append(files, f)
	}
	sort.Slice(files, func(i, j int) bool { return files[i].pos < files[j].pos })
	for i := 1; i < len(files); i++ {
		if files[i].pos == files[i-1].pos+int64(len(files[i-1].data))+36 {
			st.Problems = append(st.Problems, fmt.Sprintf("%s has no ROTATE_TO although %s exists", files[i-1].name, files[i].name))
			st.RotationInProgress = true
		}
	}
	for _, f := range files {
		l := 0
	walk:
		for l < len(f.data) {
			rest := f.data[l:]
			if len(rest) < 4 {
				break
			}
			need := 0
			switch binary.LittleEndian.Uint32(rest) {
			case c17LevStart:
				need = 24
			case c17LevTag, c17LevCrc32:
				need = 20
			case c17LevRotateFrom, c17LevRotateTo:
				need = 36
			default:
				ev, n, ok, known := c17ParseEvent(rest)
				if !known {
					st.Problems = append(st.Problems, fmt.Sprintf("%s: unknown record at %d", f.name, l))
					break walk
				}
				if !ok || n > len(rest) {
					break walk
				}
				ev.Off = f.pos + int64(l)
				ev.End = ev.Off + int64(n)
				st.Events = append(st.Events, ev)
				l += n
				continue
			}
			if len(rest) < need {
				break
			}
			l += need
		}
		if end := f.pos + int64(len(f.data)); end > st.Length {
			st.Length = end
		}
	}
	return st, nil
}

type c17DBState struct {
	Exists  bool
	Rows    map[int64]int64
	Offset  int64
	HasOff  bool
	Journal bool
}

func c17QueryInts(conn *sqlite0.Conn, sql string, cols int, f func([]int64)) error {
	st, _, err := conn.Prepare([]byte(sql))
	if err != nil {
		return err
	}
	defer st.Close()
	for {
		row, err := st.Step()
		if err != nil {
			return err
		}
		if !row {
			return nil
		}
		vals := make([]int64, cols)
		for i := range vals {
			vals[i], _ = st.ColumnInt64(i)
		}
		f(vals)
	}
}

// c17ReadDB opens the database file with a plain SQLite connection: no engine, no binlog replay. A hot
// journal is rolled back by SQLite itself, exactly as the engine's own connection would do first.
func c17ReadDB(dir string) (c17DBState, error) {
	st := c17DBState{Rows: map[int64]int64{}}
	p := filepath.Join(dir, "db", "c17.db")
	if _, err := os.Stat(p); err != nil {
		return st, nil
	}
	if _, err := os.Stat(p + "-journal"); err == nil {
		st.Journal = true
	}
	st.Exists = true
	conn, err := sqlite0.Open(p, sqlite0.OpenReadWrite)
	if err != nil {
		return st, err
	}
	defer conn.Close()
	_ = conn.SetBusyTimeout(time.Second)
	tables := map[string]bool{}
	tst, _, err := conn.Prepare([]byte("SELECT name FROM sqlite_master WHERE type='table'"))
	if err != nil {
		return st, err
	}
	for {
		row, err := tst.Step()
		if err != nil {
			tst.Close()
			return st, err
		}
		if !row {
			break
		}
		s, _ := tst.ColumnBlobString(0)
		tables[s] = true
	}
	tst.Close()
	if tables["kv"] {
		if err := c17QueryInts(conn, "SELECT k, v FROM kv", 2, func(v []int64) { st.Rows[v[0]] = v[1] }); err != nil {
			return st, err
		}
	}
	if tables["__binlog_offset"] {
		if err := c17QueryInts(conn, "SELECT offset FROM __binlog_offset", 1, func(v []int64) { st.Offset, st.HasOff = v[0], true }); err != nil {
			return st, err
		}
	}
	return st, nil
}

func c17CopyDir(src, dst string, withDB bool) error {
	for _, sub := range []string{"bl", "db"} {
		if err := os.MkdirAll(filepath.Join(dst, sub), 0755); err != nil {
			return err
		}
		if sub == "db" && !withDB {
			continue
		}
		ents, err := os.ReadDir(filepath.Join(src, sub))
		if err != nil {
			return err
		}
		for _, e := range ents {
			d, err := os.ReadFile(filepath.Join(src, sub, e.Name()))
			if err != nil {
				return err
			}
			if err := os.WriteFile(filepath.Join(dst, sub, e.Name()), d, 0644); err != nil {
				return err
			}
		}
	}
	return nil
}

// c17Restart opens the real engine on dir (normal start: replay of the binlog from the stored offset),
// closes it cleanly and returns the database contents.
func c17Restart(dir string) (c17DBState, error) {
	eng, err := c17OpenEngine(dir, WaitCommit, time.Hour, 0)
	if err != nil {
		return c17DBState{}, fmt.Errorf("open: %w", err)
	}
	ctx, cancel := context.WithTimeout(context.Background(), 30*time.Second)
	defer cancel()
	if err := eng.Close(ctx); err != nil {
		return c17DBState{}, fmt.Errorf("close: %w", err)
	}
	return c17ReadDB(dir)
}

// ---------------------------------------------------------------------------------------------------
// parent: running children

// c17DoRead: a Do() with an empty event that returned; Seen = number of writes executed before its callback (it was
// handed the rows of exactly that prefix), Off = stored offset it read, Queued = callers waiting ahead of it.
type c17DoRead struct {
	Seen   int
	Off    int64
	Queued int
}

type c17Run struct {
	Variant string // "seq": one writer, the scripted workload; "conc": 4 concurrent writers with think times
	Class   string // which counter the kill point refers to: "binlog" or "sqlite"
	Mode    string
	N       int // kill point (0 = no injection)
	Dir     string
	Killed  bool
	Exit    int
	Acks    []int // write indexes acknowledged
	DoReads []c17DoRead // reads through Do() that returned
	Opened  bool
	Closed  bool
	Bad     []string
	Other   []string // openerr / writeerr / closeerr / viewerr lines
	Traced  []string // matched syscalls "name path-kind"
	TimedOut bool
}

// ---------------------------------------------------------------------------------------------------
// kill-point injector.
//
// strace's "-e inject=SET:signal=KILL:when=N" keeps its counter per thread and per syscall number (checked:
// three threads doing three writes each are never killed by when=4), so for a multi-threaded Go process "the
// N-th write-family syscall of the process" cannot be expressed with it. The harness therefore carries its own
// ptrace(2) tracer with the same semantics strace has (stop at syscall ENTRY, SIGKILL before the syscall
// takes effect) but ONE counter for the whole process, restricted to syscalls whose file lies in the
// database or binlog directory of the run.

const (
	c17PtraceOExitKill = 0x100000
	c17WNoThread       = 0x20000000
)

var c17SysNames = map[uint64]string{1: "write", 18: "pwrite64", 296: "pwritev", 328: "pwritev2", 74: "fsync", 75: "fdatasync",
	77: "ftruncate", 82: "rename", 264: "renameat", 316: "renameat2", 87: "unlink", 263: "unlinkat"}

func c17ReadCString(tid int, addr uint64) string {
	f, err := os.Open(fmt.Sprintf("/proc/%d/mem", tid))
	if err != nil {
		return ""
	}
	defer f.Close()
	buf := make([]byte, 512)
	n, _ := f.ReadAt(buf, int64(addr))
	buf = buf[:n]
	if i := bytes.IndexByte(buf, 0); i >= 0 {
		buf = buf[:i]
	}
	return string(buf)
}

// c17SyscallPath returns the path the syscall at entry operates on ("" when not a write-family syscall).
func c17SyscallPath(tid int, regs *syscall.PtraceRegs) (name, path string) {
	name, ok := c17SysNames[regs.Orig_rax]
	if !ok {
		return "", ""
	}
	switch regs.Orig_rax {
	case 82, 87: // rename(old,new), unlink(path)
		path = c17ReadCString(tid, regs.Rdi)
	case 263, 264, 316: // unlinkat(dirfd,path), renameat(olddirfd,old,...)
		path = c17ReadCString(tid, regs.Rsi)
	default: // fd based
		path, _ = os.Readlink(fmt.Sprintf("/proc/%d/fd/%d", tid, int32(regs.Rdi)))
	}
	return name, path
}

func c17PathKind(p string) string {
	switch {
	case strings.Contains(p, "/bl/"):
		return "binlog"
	case strings.HasSuffix(p, "-journal"):
		return "journal"
	case strings.HasSuffix(p, "-wal") || strings.HasSuffix(p, "-wal2") || strings.HasSuffix(p, "-shm"):
		return "wal"
	case strings.HasSuffix(p, "c17.db"):
		return "db"
	case strings.HasSuffix(p, "/db"):
		return "dbdir"
	}
	return "other"
}

// c17Class: the two kill-point counters. The binlog's own sequence of writes/fsyncs is (in wait-for-commit mode
// fully) determined by the workload, the database's by when the commits happen; counting them separately makes
// "the k-th syscall on the binlog" the same logical point in every run, whatever SQLite does in between.
func c17Class(kind string) string {
	if kind == "binlog" {
		return "binlog"
	}
	return "sqlite"
}

type c17TraceResult struct {
	Stops int
	Dur   time.Duration
	Sites    []string // matched syscalls in global order: "name kind"
	Killed   bool     // the harness killed the process at Sites[len-1] (before it took effect)
	Exit     int
	TimedOut bool
}

// c17Trace runs argv under ptrace and kills the whole process at the entry of the killAt-th (1-based) matching
// syscall; killAt=0 only records. Must be called on a goroutine that stays on one OS thread.
func c17Trace(argv []string, env []string, dir string, killClass string, killAt int, timeout time.Duration) (res c17TraceResult, err error) {
	t0 := time.Now()
	defer func() { res.Dur = time.Since(t0) }()
	runtime.LockOSThread()
	defer runtime.UnlockOSThread()
	devnull, err := os.OpenFile(os.DevNull, os.O_RDWR, 0)
	if err != nil {
		return res, err
	}
	defer devnull.Close()
	outf, err := os.Create(filepath.Join(dir, "child.out"))
	if err != nil {
		return res, err
	}
	defer outf.Close()
	pid, err := syscall.ForkExec(argv[0], argv, &syscall.ProcAttr{Dir: dir, Env: env,
		Files: []uintptr{devnull.Fd(), outf.Fd(), outf.Fd()}, Sys: &syscall.SysProcAttr{Ptrace: true}})
	if err != nil {
		return res, fmt.Errorf("fork/exec: %w", err)
	}
	var ws syscall.WaitStatus
	if _, err = syscall.Wait4(pid, &ws, 0, nil); err != nil {
		return res, fmt.Errorf("wait for exec stop: %w", err)
	}
	if !ws.Stopped() {
		return res, fmt.Errorf("child did not stop at exec: %v", ws)
	}
	if err = syscall.PtraceSetOptions(pid, syscall.PTRACE_O_TRACESYSGOOD|syscall.PTRACE_O_TRACECLONE|syscall.PTRACE_O_TRACEFORK|syscall.PTRACE_O_TRACEVFORK|c17PtraceOExitKill); err != nil {
		_ = syscall.Kill(pid, syscall.SIGKILL)
		return res, fmt.Errorf("PTRACE_SETOPTIONS: %w", err)
	}
	done := make(chan struct{})
	defer close(done)
	var timedOut atomic.Bool
	go func() {
		select {
		case <-done:
		case <-time.After(timeout):
			timedOut.Store(true)
			_ = syscall.Kill(pid, syscall.SIGKILL)
		}
	}()
	if err = syscall.PtraceSyscall(pid, 0); err != nil {
		return res, fmt.Errorf("PTRACE_SYSCALL: %w", err)
	}
	seen := map[int]bool{pid: true}
	prefixDB, prefixBL := filepath.Join(dir, "db"), filepath.Join(dir, "bl")
	count := 0
	for {
		tid, werr := syscall.Wait4(-1, &ws, syscall.WALL|c17WNoThread, nil)
		if werr == syscall.EINTR {
			continue
		}
		if werr != nil { // ECHILD: everything is gone
			break
		}
		if ws.Exited() || ws.Signaled() {
			if tid == pid {
				if ws.Exited() {
					res.Exit = ws.ExitStatus()
				} else {
					res.Exit = -int(ws.Signal())
				}
			}
			continue
		}
		if !ws.Stopped() {
			continue
		}
		res.Stops++
		sig := ws.StopSignal()
		deliver := 0
		switch {
		case sig == syscall.SIGTRAP|0x80: // syscall stop
			var regs syscall.PtraceRegs
			if e := syscall.PtraceGetRegs(tid, &regs); e == nil && int64(regs.Rax) == -int64(syscall.ENOSYS) { // entry
				if name, path := c17SyscallPath(tid, &regs); name != "" && (path == prefixDB || strings.HasPrefix(path, prefixDB+"/") || strings.HasPrefix(path, prefixBL+"/")) {
					kind := c17PathKind(path)
					res.Sites = append(res.Sites, name+" "+kind)
					if c17Class(kind) == killClass {
						count++
					}
					if killAt > 0 && c17Class(kind) == killClass && count == killAt && !res.Killed {
						res.Killed = true
						_ = syscall.Kill(pid, syscall.SIGKILL) // the stopped syscall never executes
						continue
					}
				}
			}
		case sig == syscall.SIGTRAP: // clone/fork/exec event stops
		case sig == syscall.SIGSTOP && !seen[tid]: // first stop of an auto-attached thread
			seen[tid] = true
		default:
			deliver = int(sig)
		}
		seen[tid] = true
		_ = syscall.PtraceSyscall(tid, deliver)
	}
	res.TimedOut = timedOut.Load()
	return res, nil
}

type c17Cfg struct {
	exe     string
	scratch string
	writes  int
	seq     atomic.Int64
	fresh    sync.Map // binlog content hash -> *c17Fresh
	rebuilds atomic.Int64
	stops    atomic.Int64
	childNs  atomic.Int64
	perConc  int // Do()s per writer goroutine in the concurrent variant
}

func (c *c17Cfg) size(variant string) int {
	if variant == "conc" {
		return c.perConc
	}
	return c.writes
}

type c17Fresh struct {
	once sync.Once
	st   c17DBState
	err  error
}

// freshRebuild builds a new database from the binlog files of src (engine started with no database file).
// The result depends only on the bytes of the binlog files, so it is computed once per distinct content.
func (c *c17Cfg) freshRebuild(src, scratchDir string) (c17DBState, error) {
	h := fnv.New64a()
	ents, _ := os.ReadDir(filepath.Join(src, "bl"))
	for _, e := range ents {
		d, _ := os.ReadFile(filepath.Join(src, "bl", e.Name()))
		fmt.Fprintf(h, "%s:%d:", e.Name(), len(d))
		h.Write(d)
	}
	v, _ := c.fresh.LoadOrStore(h.Sum64(), &c17Fresh{})
	f := v.(*c17Fresh)
	f.once.Do(func() {
		if err := c17CopyDir(src, scratchDir, false); err != nil {
			f.err = err
			return
		}
		f.st, f.err = c17Restart(scratchDir)
		c.rebuilds.Add(1)
	})
	return f.st, f.err
}

// runChild prepares a fresh directory (the empty binlog is created here: the engine under test starts on an
// existing binlog) and runs the workload process under the tracer; n>0 kills at the n-th matching syscall.
func (c *c17Cfg) runChild(variant, mode, class string, n int) (*c17Run, error) {
	dir := filepath.Join(c.scratch, fmt.Sprintf("r%06d_%s_%s_%s_%d", c.seq.Add(1), variant, mode, class, n))
	for _, sub := range []string{"bl", "db"} {
		if err := os.MkdirAll(filepath.Join(dir, sub), 0755); err != nil {
			return nil, err
		}
	}
	if _, err := fsbinlog.CreateEmptyFsBinlog(c17BinlogOptions(dir, 0)); err != nil {
		return nil, err
	}
	r := &c17Run{Variant: variant, Mode: mode, Class: class, N: n, Dir: dir}
	var env []string
	for _, e := range os.Environ() {
		if !strings.HasPrefix(e, "VERIF_OUT=") && !strings.HasPrefix(e, "GOMAXPROCS=") {
			env = append(env, e)
		}
	}
	env = append(env, "C17_CHILD=1", "C17_DIR="+dir, "C17_MODE="+mode, "C17_N="+strconv.Itoa(c.size(variant)), "C17_VARIANT="+variant, "GOMAXPROCS=4")
	argv := []string{c.exe, "-test.run", "^TestVerifC17Child$", "-test.count=1", "-test.timeout=120s"}
	tr, err := c17Trace(argv, env, dir, class, n, 100*time.Second)
	c.stops.Add(int64(tr.Stops))
	c.childNs.Add(int64(tr.Dur))
	if err != nil {
		return nil, err
	}
	r.Killed, r.Exit, r.TimedOut, r.Traced = tr.Killed, tr.Exit, tr.TimedOut, tr.Sites
	if f, err := os.Open(filepath.Join(dir, "ack.log")); err == nil {
		sc := bufio.NewScanner(f)
		for sc.Scan() {
			line := sc.Text()
			switch {
			case line == "open":
				r.Opened = true
			case line == "closed":
				r.Closed = true
			case strings.HasPrefix(line, "ack "):
				var i int
				var off int64
				if _, err := fmt.Sscanf(line, "ack %d %d", &i, &off); err == nil {
					r.Acks = append(r.Acks, i)
				}
			case strings.HasPrefix(line, "BAD "):
				r.Bad = append(r.Bad, line)
			case strings.HasPrefix(line, "doread "):
				var d c17DoRead
				if _, err := fmt.Sscanf(line, "doread %d %d %d", &d.Seen, &d.Off, &d.Queued); err == nil {
					r.DoReads = append(r.DoReads, d)
				}
			case strings.HasPrefix(line, "view ") || strings.HasPrefix(line, "fail "):
				if line == "fail false" {
					r.Bad = append(r.Bad, "BAD failing callback was reported as success")
				}
			default:
				r.Other = append(r.Other, line)
			}
		}
		f.Close()
	}
	if !r.Killed && r.Exit != 0 && !r.TimedOut {
		out, _ := os.ReadFile(filepath.Join(dir, "child.out"))
		r.Other = append(r.Other, fmt.Sprintf("child exit %d: %s", r.Exit, c17Tail(string(out), 600)))
	}
	return r, nil
}

func c17Tail(s string, n int) string {
	if len(s) > n {
		return s[len(s)-n:]
	}
	return s
}

// ---------------------------------------------------------------------------------------------------
// parent: the oracle on one crash state

type c17Verdict struct {
	Sig, Desc string
	Detail    map[string]any
}

func c17Model(evs []c17Ev) map[int64]int64 {
	m := map[int64]int64{}
	for _, e := range evs {
		c17ModelApply(m, e.Kind, e.K, e.V)
	}
	return m
}


func (c *c17Cfg) check(r *c17Run, rep *mc.Report) (vs []c17Verdict, stateKey string, nontrivial bool) {
	add := func(sig, desc string, detail map[string]any) {
		if detail == nil {
			detail = map[string]any{}
		}
		detail["mode"] = r.Mode
		detail["workload"] = r.Variant
		detail["kill_at_syscall"] = fmt.Sprintf("%s #%d", r.Class, r.N)
		if len(r.Traced) > 0 {
			detail["killed_syscall"] = r.Traced[len(r.Traced)-1]
		}
		detail["acked_writes"] = r.Acks
		vs = append(vs, c17Verdict{Sig: "C17:" + sig, Desc: fmt.Sprintf("workload=%s mode=%s kill@%s#%d: %s", r.Variant, r.Mode, r.Class, r.N, desc), Detail: detail})
	}
	for _, b := range r.Bad {
		sig := "reader-observes-unknown-state"
		if strings.Contains(b, "view-ahead-of-binlog") {
			sig = "reader-observes-events-not-in-binlog"
		} else if strings.Contains(b, "doread-ahead-of-binlog") {
			sig = "waiting-read-observes-events-not-in-binlog"
		} else if strings.Contains(b, "failing callback") {
			sig = "failed-callback-acknowledged"
		}
		add(sig, b, nil)
	}
	if !r.Killed {
		for _, o := range r.Other {
			if strings.HasPrefix(o, "viewerr") {
				continue // a busy reader is not part of the statement
			}
			add("workload-error-without-crash", o, nil)
		}
	}
	bl, err := c17ReadBinlog(r.Dir)
	if err != nil {
		add("harness-binlog-unreadable", err.Error(), nil)
		return vs, "", false
	}
	blInfo := map[string]any{"binlog_files": bl.Files, "binlog_events": len(bl.Events), "binlog_length": bl.Length, "binlog_notes": bl.Problems}
	withBl := func(m map[string]any) map[string]any {
		for k, v := range blInfo {
			m[k] = v
		}
		return m
	}
	// the binlog itself must be a prefix of the attempted writes, in order, and must not contain the failed write
	for i, e := range bl.Events {
		if e.Seq != i {
			add("binlog-events-out-of-order", fmt.Sprintf("event #%d in the binlog has sequence number %d", i, e.Seq), withBl(map[string]any{}))
			break
		}
	}
	for _, e := range bl.Events {
		if e.K == c17FailKey || e.Seq == 1000 {
			add("failed-callback-left-binlog-record", fmt.Sprintf("the binlog contains the event of the failed callback at offset %d", e.Off), withBl(map[string]any{}))
		}
	}
	// (i) database without replay
	a := r.Dir + "_a"
	if err := c17CopyDir(r.Dir, a, true); err != nil {
		add("harness-copy", err.Error(), nil)
		return vs, "", false
	}
	defer os.RemoveAll(a)
	db, err := c17ReadDB(a)
	if err != nil {
		add("database-unreadable-after-kill", "plain SQLite cannot read the database: "+err.Error(), withBl(map[string]any{}))
	} else {
		var prefix []c17Ev
		straddle := false
		for _, e := range bl.Events {
			if e.Off < db.Offset {
				prefix = append(prefix, e)
				if e.End > db.Offset {
					straddle = true
				}
			}
		}
		want := c17Model(prefix)
		d := map[string]any{"db_rows": c17StateKey(db.Rows), "db_offset": db.Offset, "expected_rows_for_that_offset": c17StateKey(want), "hot_journal": db.Journal}
		switch {
		case db.Offset > bl.Length:
			add("stored-offset-beyond-binlog", fmt.Sprintf("the database stores binlog offset %d but the binlog files end at %d", db.Offset, bl.Length), withBl(d))
		case straddle:
			add("stored-offset-inside-event", fmt.Sprintf("stored offset %d lies inside an event", db.Offset), withBl(d))
		case c17StateKey(db.Rows) != c17StateKey(want):
			add("database-not-prefix-of-binlog", fmt.Sprintf("without replay the database holds {%s} at stored offset %d; applying binlog[0:%d] gives {%s}", c17StateKey(db.Rows), db.Offset, db.Offset, c17StateKey(want)), withBl(d))
		}
		if _, ok := db.Rows[c17FailKey]; ok {
			add("failed-callback-left-rows", "the row written by the failed callback is in the database", withBl(d))
		}
		stateKey = fmt.Sprintf("%s/%s|db{%s}@%d|bl=%d/%d|j=%v", r.Variant, r.Mode, c17StateKey(db.Rows), db.Offset, len(bl.Events), bl.Length, db.Journal)
		nontrivial = db.Journal || len(prefix) < len(bl.Events) || len(bl.Problems) > 0
	}
	// (ii) normal restart == fresh database built from the durable binlog == model
	b, cdir := r.Dir+"_b", r.Dir+"_c"
	defer os.RemoveAll(b)
	defer os.RemoveAll(cdir)
	if err := c17CopyDir(r.Dir, b, true); err != nil {
		add("harness-copy", err.Error(), nil)
		return vs, stateKey, nontrivial
	}
	full := c17Model(bl.Events)
	after, err := c17Restart(b)
	if err != nil {
		sig := "restart-fails-after-kill"
		if bl.RotationInProgress { // decided from the files, never from the error text
			sig = "restart-fails-after-kill-in-binlog-rotation"
		}
		add(sig, "the engine cannot be restarted on the crash state: "+err.Error(), withBl(map[string]any{}))
	} else {
		fresh, err2 := c.freshRebuild(r.Dir, cdir)
		d := map[string]any{"restarted_rows": c17StateKey(after.Rows), "restarted_offset": after.Offset, "model_rows": c17StateKey(full)}
		if err2 != nil {
			add("fresh-rebuild-fails", "a fresh database cannot be built from the binlog: "+err2.Error(), withBl(d))
		} else {
			d["fresh_rows"], d["fresh_offset"] = c17StateKey(fresh.Rows), fresh.Offset
			if c17StateKey(after.Rows) != c17StateKey(fresh.Rows) || after.Offset != fresh.Offset {
				add("restart-differs-from-fresh-rebuild", fmt.Sprintf("after restart {%s}@%d, fresh database from the same binlog {%s}@%d", c17StateKey(after.Rows), after.Offset, c17StateKey(fresh.Rows), fresh.Offset), withBl(d))
			}
		}
		if c17StateKey(after.Rows) != c17StateKey(full) {
			add("restart-differs-from-binlog", fmt.Sprintf("after restart the database holds {%s}; the durable binlog applies to {%s}", c17StateKey(after.Rows), c17StateKey(full)), withBl(d))
		}
		if _, ok := after.Rows[c17FailKey]; ok {
			add("failed-callback-left-rows", "the row written by the failed callback is in the database after restart", withBl(d))
		}
	}
	// (iii) acknowledged writes of wait-for-commit mode are in the durable binlog (hence, by (ii), present)
	if r.Mode == "wait" {
		have := map[int]bool{}
		for _, e := range bl.Events {
			have[e.Seq] = true
		}
		for _, i := range r.Acks {
			if !have[i] {
				add("acknowledged-write-lost", fmt.Sprintf("write #%d was acknowledged in wait-for-commit mode but is not in the durable binlog", i), withBl(map[string]any{}))
			}
		}
		// a read through Do() that returned in wait-for-commit mode was handed the rows of the first Seen writes:
		// all of them must be in the durable binlog ("readers never observe effects of events not yet in the binlog")
		for _, d := range r.DoReads {
			missing := -1
			for s := 0; s < d.Seen; s++ {
				if !have[s] {
					missing = s
					break
				}
			}
			if missing >= 0 {
				add("waiting-read-observes-events-not-in-binlog", fmt.Sprintf("a read through Do() returned in wait-for-commit mode with the rows of the first %d writes (stored offset %d, %d callers queued ahead of it), but event #%d is not in the durable binlog", d.Seen, d.Off, d.Queued, missing), withBl(map[string]any{}))
				break
			}
		}
	}
	return vs, stateKey, nontrivial
}

// ---------------------------------------------------------------------------------------------------

func TestVerifC17(t *testing.T) {
	if os.Getenv("C17_CHILD") == "1" {
		t.Skip()
	}
	log.SetOutput(io.Discard)
	rep := mc.NewReport("C17")
	writes := mc.Pick(6, 12)
	rep.Rule = "a case = one real child process running one of the two workloads under the harness's ptrace tracer and killed (SIGKILL at syscall entry) at the N-th write-family syscall on a database or binlog file; every N of the unkilled run, both commit modes; after each kill the 4 clauses are checked on copies of the directory; the callers of the concurrent workload are writers, failing writers, View readers and readers through Do() (empty event). non-trivial = crash state in which database and binlog disagree before recovery (stored offset behind the binlog end, hot journal, or binlog rotation half done). Plus the deterministic family \"replay with every payload cut\" (no ptrace): a case = one life of the real engine in the replay path (replica / master restart) driven by a harness binlog that mimics the fsbinlog reader over the binlog files of the scripted workload: every read-window end (payload cut) at a 4-byte boundary, Commit callbacks at every set of callback boundaries up to the bound; the database files are read after EVERY callback (= process-kill image) and every distinct image gets the same crash-state oracle (signatures C17:replay:*)"
	rep.Bounds["writes"] = writes
	rep.Bounds["workload"] = fmt.Sprintf("%d binlog-producing writes over 3-5 colliding keys (set/overwrite/delete/non-idempotent add), 1-2 callbacks that fail after executing SQL, View reads from the main goroutine and from a concurrent reader, 1-2 binlog rotations (MaxChunkSize %d), CommitEvery 10ms, WriteCallDelay 6ms", writes, c17ChunkSize)
	rep.Bounds["workload_conc"] = fmt.Sprintf("concurrent writers: 4 goroutines with think times 5/13/23/31 ms issue %d Do() each over 3 colliding keys (set / non-idempotent add / delete) plus one failing callback, the concurrent View reader and %d goroutines that read through Do() (empty event; think times %v) for as long as the writers run; CommitEvery 10ms, WriteCallDelay 40ms (the binlog lags the SQL transaction by up to 40 ms, several commit periods), no rotation; sequence numbers and model states are fixed inside the (serialised) callback", mc.Pick(3, 5), len(c17DoReaders), c17DoReaders)
	rep.Bounds["modes"] = []string{"WaitCommit", "NoWaitCommit"}
	rep.Bounds["syscalls"] = c17Syscalls
	rep.Assume("kill points of OBSERVED thread schedules are enumerated, not all schedules (the engine's goroutines and SQLite's C code run free); the oracle is an invariant of any crash state, so schedule variation changes the visited states, never the verdict on correct code")
	rep.Assume("process kill, not power loss: every completed write is in the file; torn single writes are covered for the binlog by C18 and left to SQLite's journal for the database")
	rep.Assume("the SQLite build available here (3.53.0 amalgamation) has no WAL2 journal mode: PRAGMA journal_mode=WAL2 is ignored and the engine runs in rollback-journal mode")
	exe, err := os.Executable()
	if err != nil {
		t.Fatal(err)
	}
	scratch := os.Getenv("VERIF_SCRATCH")
	if scratch == "" {
		scratch = t.TempDir()
	}
	cfg := &c17Cfg{exe: exe, scratch: scratch, writes: writes, perConc: mc.Pick(3, 5)}
	shard, shards := mc.ShardFromEnv()

	var execs, trans, nontriv atomic.Int64
	var doReads, doReadsQueued, doReadsWait, doReadsWaitQueued atomic.Int64 // reads through Do() that returned / with callers queued ahead
	countDoReads := func(r *c17Run) {
		for _, d := range r.DoReads {
			doReads.Add(1)
			if d.Queued > 0 {
				doReadsQueued.Add(1)
			}
			if r.Mode == "wait" {
				doReadsWait.Add(1)
				if d.Queued > 0 {
					doReadsWaitQueued.Add(1)
				}
			}
		}
	}
	// findings with the known root cause (crash inside the binlog's rotate) are emitted after all others, so
	// that they never crowd a different violation out of the driver's short list
	var lateMu sync.Mutex
	var late []c17Verdict
	sigCount := map[string]int{} // how many crash states / runs showed each signature (the report keeps 3 examples)
	emit := func(vs []c17Verdict) {
		lateMu.Lock()
		for _, v := range vs {
			sigCount[v.Sig]++
		}
		lateMu.Unlock()
		for _, v := range vs {
			if v.Sig == "C17:restart-fails-after-kill-in-binlog-rotation" {
				lateMu.Lock()
				late = append(late, v)
				lateMu.Unlock()
				continue
			}
			rep.Violate(v.Sig, v.Desc, v.Detail)
		}
	}
	sites := map[string]bool{}
	var sitesMu sync.Mutex
	infra := func(msg string) {
		rep.Infra(msg)
		_ = rep.Write()
		t.Fatal(msg)
	}
	type job struct {
		variant, mode, class string
		n                    int
	}
	var jobs []job
	refCount := map[string]int{}
	variants := []string{"seq", "conc"}
	if only := os.Getenv("C17_ONLY"); only != "" { // debugging aid
		variants = []string{only}
		if only == "replay" {
			variants = nil
		}
	}
	// deterministic family first (a wall-budget cap of the kill-point families never removes it): the replay path
	// driven with every payload cut and Commit placement, image of the database files after every callback
	if only := os.Getenv("C17_ONLY"); only == "" || only == "replay" {
		if err := c17ReplayFamily(cfg, rep, emit); err != nil {
			infra(err.Error())
		}
	}
	// two unkilled reference runs per (workload, mode), all in parallel: M = max number of matching syscalls per class
	type refKey struct{ variant, mode string }
	refs := map[refKey][]*c17Run{}
	var refMu sync.Mutex
	var refWg sync.WaitGroup
	var refErr atomic.Value
	for _, variant := range variants {
		for _, mode := range []string{"wait", "nowait"} {
			for k := 0; k < 2; k++ {
				refWg.Add(1)
				go func(variant, mode string) {
					defer refWg.Done()
					r, err := cfg.runChild(variant, mode, "", 0)
					if err != nil {
						refErr.Store("reference run: " + err.Error())
						return
					}
					if !r.Closed {
						refErr.Store(fmt.Sprintf("reference run (%s, %s) did not complete: exit=%d other=%v bad=%v", variant, mode, r.Exit, r.Other, r.Bad))
						return
					}
					refMu.Lock()
					refs[refKey{variant, mode}] = append(refs[refKey{variant, mode}], r)
					refMu.Unlock()
				}(variant, mode)
			}
		}
	}
	refWg.Wait()
	if v := refErr.Load(); v != nil {
		infra(v.(string))
	}
	for _, variant := range variants {
		for _, mode := range []string{"wait", "nowait"} {
			m := map[string]int{}
			for k, r := range refs[refKey{variant, mode}] {
				execs.Add(1)
				countDoReads(r)
				vs, _, _ := cfg.check(r, rep)
				emit(vs)
				cnt := map[string]int{}
				for _, s := range r.Traced {
					cnt[c17Class(s[strings.Index(s, " ")+1:])]++
				}
				for c, n := range cnt {
					if n > m[c] {
						m[c] = n
					}
				}
				if k == 0 {
					rep.Sample(map[string]any{"workload": variant, "mode": mode, "unkilled_run_syscalls": len(r.Traced), "per_class": cnt, "first_sites": c17Head(r.Traced, 16), "acks": r.Acks})
				}
				c17Remove(r.Dir)
			}
			for _, class := range []string{"binlog", "sqlite"} {
				margin := 2
				if class == "sqlite" || variant == "conc" {
					margin = m[class]/10 + 5 // the number of SQLite commits, and in the concurrent workload of binlog batches, depends on timing
				}
				refCount[variant+"/"+mode+"/"+class] = m[class]
				for n := 1; n <= m[class]+margin; n++ {
					if mx, _ := strconv.Atoi(os.Getenv("C17_MAXN")); mx > 0 && n > mx { // debugging aid
						break
					}
					jobs = append(jobs, job{variant, mode, class, n})
				}
			}
		}
	}
	rep.Bounds["kill_points"] = fmt.Sprintf("per workload and mode: every k-th write-family syscall on the binlog files and every k-th on the database/journal files of the unkilled run (+10%% margin where the count depends on timing); every such syscall belongs to exactly one of the two counters. unkilled-run counts: %v", refCount)

	// binlog kill points first (their sequence is the deterministic one), then the database ones, modes interleaved,
	// so that a wall-budget cap never removes a whole mode
	sort.SliceStable(jobs, func(i, j int) bool {
		a, b := jobs[i], jobs[j]
		if a.class != b.class {
			return a.class == "binlog"
		}
		if a.n != b.n {
			return a.n < b.n
		}
		if a.variant != b.variant {
			return a.variant < b.variant
		}
		return a.mode > b.mode
	})
	workers := runtime.GOMAXPROCS(0) // the children mostly wait on timers and fsyncs
	if workers > 16 {
		workers = 16
	}
	ch := make(chan job)
	var wg sync.WaitGroup
	var capped, timeouts, survived atomic.Int64
	var firstErr atomic.Value
	for w := 0; w < workers; w++ {
		wg.Add(1)
		go func() {
			defer wg.Done()
			for j := range ch {
				if mc.Expired() {
					capped.Add(1)
					continue
				}
				r, err := cfg.runChild(j.variant, j.mode, j.class, j.n)
				if err != nil {
					firstErr.Store(err.Error())
					continue
				}
				execs.Add(1)
				trans.Add(int64(len(r.Traced)))
				if r.TimedOut {
					timeouts.Add(1)
					c17Remove(r.Dir)
					continue
				}
				if !r.Killed {
					survived.Add(1)
				} else if len(r.Traced) > 0 {
					sitesMu.Lock()
					sites[j.variant+" "+j.mode+" "+r.Traced[len(r.Traced)-1]] = true
					sitesMu.Unlock()
					rep.Outcome(j.variant + " " + j.mode + " kill at " + r.Traced[len(r.Traced)-1])
				}
				countDoReads(r)
				vs, key, nt := cfg.check(r, rep)
				execs.Add(1) // the restart runs the real engine too
				emit(vs)
				if key != "" {
					rep.State(key)
					if nt {
						rep.Nontrivial(key)
						nontriv.Add(1)
					}
				}
				c17Remove(r.Dir)
			}
		}()
	}
	for i, j := range jobs {
		if i%shards == shard {
			ch <- j
		}
	}
	close(ch)
	wg.Wait()
	if v := firstErr.Load(); v != nil {
		infra("child run: " + v.(string))
	}
	sort.Slice(late, func(i, j int) bool { return late[i].Desc < late[j].Desc })
	for _, v := range late {
		rep.Violate(v.Sig, v.Desc, v.Detail)
	}
	if capped.Load() > 0 {
		rep.Cap("wall_budget")
	}
	if timeouts.Load() > 0 {
		rep.Cap("child_timeout")
	}
	var siteList []string
	for s := range sites {
		siteList = append(siteList, s)
	}
	sort.Strings(siteList)
	rep.Parts["kill_sites"] = map[string]any{"distinct": len(siteList), "list": siteList}
	rep.Parts["violations_by_signature"] = sigCount
	rep.Parts["tracer"] = map[string]any{"ptrace_stops": cfg.stops.Load(), "child_wall_s_total": float64(cfg.childNs.Load()) / 1e9}
	rep.Parts["do_reads"] = map[string]any{"returned": doReads.Load(), "returned_with_callers_queued_ahead": doReadsQueued.Load(),
		"returned_in_wait_mode": doReadsWait.Load(), "returned_in_wait_mode_after_waiting_behind_unacknowledged_callers": doReadsWaitQueued.Load()}
	rep.Parts["runs"] = map[string]any{"kill_points_tried": len(jobs), "not_killed_because_run_was_shorter": survived.Load(), "child_timeouts": timeouts.Load(), "crash_states_with_db_and_binlog_disagreeing": nontriv.Load()}
	execs.Add(cfg.rebuilds.Load()) // fresh rebuilds run the real engine too
	rep.AddCounts(execs.Load(), trans.Load(), 0, 0)
	if err := rep.Write(); err != nil {
		t.Fatal(err)
	}
	t.Logf("C17: %d kill points, %d executions, %d distinct kill sites, violations=%d", len(jobs), execs.Load(), len(siteList), rep.NumViolations())
}

// c17Remove deletes a run directory (kept for debugging when C17_KEEP is set).
func c17Remove(dir string) {
	if os.Getenv("C17_KEEP") == "" {
		os.RemoveAll(dir)
	}
}

func c17Head(s []string, n int) []string {
	if len(s) > n {
		return s[:n]
	}
	return s
}
