//go:build verif

package sqlite

// Export shim for the /verif harnesses of internal/metadata (C15, C16, C19), which open and
// close thousands of engines in one process.
//
// Engine.Close never cancels the engine's context, so the commit-timer goroutine (txLoop,
// started by OpenEngine in WaitCommit mode) of a closed engine lives forever and keeps
// calling commitTXAndStartNew on the closed connection once a second. A service exits after
// Close, so this does not matter there; a harness has to stop the loop itself.

// VerifMetaStopLoops cancels the engine context (ends txLoop) and drops the closed engine's
// reference to its binlog. Call after Close.
//
// Why the second part: when a replay queues events, newApplyQueue registers a callback with the
// process-global statshouse client (statshouse.StartRegularMeasurement) that is never
// unregistered and captures a pointer into the Engine; every engine that has replayed more than
// one event therefore stays reachable for the life of the process, together with its fsbinlog
// and that binlog's ~1 MB of buffers (60 GB after 100 000 reopens). Irrelevant for a service
// with one engine per process; a harness has to cut the big part loose.
func (e *Engine) VerifMetaStopLoops() {
	if e == nil {
		return
	}
	if e.stop != nil {
		e.stop()
	}
	e.rw.mu.Lock() // txLoop may be inside its last commitTXAndStartNew
	e.binlog = nil
	e.apply, e.scan = nil, nil
	e.rw.mu.Unlock()
}

// VerifMetaCommit commits the engine's open SQLite transaction now and starts the next one —
// exactly the call txLoop makes every CommitEvery (1 s by default). Lets a harness put the
// commit point after a chosen operation instead of waiting for the wall-clock timer, so that
// Engine.Backup (which reads committed state only) captures the state after that operation.
func (e *Engine) VerifMetaCommit() error {
	return e.commitTXAndStartNew(true, e.opt.DurabilityMode == WaitCommit)
}
