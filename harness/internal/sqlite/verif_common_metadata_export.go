//go:build verif

package sqlite

// Export shim for the /verif harnesses of internal/metadata (C15, C16, C19), which open and
// close thousands of engines in one process.
//
// Engine.Close never cancels the engine's context, so the commit-timer goroutine (txLoop,
// started by OpenEngine in WaitCommit mode) of a closed engine lives forever and keeps
// calling commitTXAndStartNew on the closed connection once a second. A service exits after
// Close, so this does not matter there; a harness has to stop the loop itself.

// VerifMetaStopLoops cancels the engine context (ends txLoop). Call after Close.
func (e *Engine) VerifMetaStopLoops() {
	if e != nil && e.stop != nil {
		e.stop()
	}
}

// VerifMetaCommit commits the engine's open SQLite transaction now and starts the next one —
// exactly the call txLoop makes every CommitEvery (1 s by default). Lets a harness put the
// commit point after a chosen operation instead of waiting for the wall-clock timer, so that
// Engine.Backup (which reads committed state only) captures the state after that operation.
func (e *Engine) VerifMetaCommit() error {
	return e.commitTXAndStartNew(true, e.opt.DurabilityMode == WaitCommit)
}
