//go:build verif

package queue

// C29 (queue half): per-user round-robin admission queue under all interleavings.
// The real Queue (round_robin_queue.go, instrumented by tools/vinstr: modelled mutex,
// scheduler-owned select) is driven by 3-4 controlled threads; mc.Explore enumerates every
// schedule up to a preemption bound for every scenario of a small program family.

import (
	"context"
	"fmt"
	"os"
	"sort"
	"strings"
	"sync"
	"testing"
	"time"

	"github.com/VKCOM/statshouse/internal/verif/mc"
	"github.com/VKCOM/statshouse/internal/verif/vsched"
	"github.com/VKCOM/statshouse/internal/verif/vsync"
)

const (
	c29Acq    = iota // Acquire(background ctx) then Release
	c29AcqCtx        // Acquire(cancellable ctx k); Release if granted
	c29Cancel        // cancel ctx k
	c29Adjust        // AdjustCapacity(arg)
)

type c29Op struct {
	kind int
	user string
	arg  int
}

type c29Scenario struct {
	name    string
	cap     int64
	threads [][]c29Op
}

func c29A(u string) c29Op         { return c29Op{kind: c29Acq, user: u} }
func c29AC(u string, k int) c29Op { return c29Op{kind: c29AcqCtx, user: u, arg: k} }
func c29C(k int) c29Op            { return c29Op{kind: c29Cancel, arg: k} }
func c29Adj(n int) c29Op          { return c29Op{kind: c29Adjust, arg: n} }

// c29Scenarios builds the program family. Users collide (u1 appears in several threads),
// capacity is small so that every acquisition contends.
func c29Scenarios(thorough bool) []c29Scenario {
	var out []c29Scenario
	add := func(name string, cap int64, th ...[]c29Op) {
		out = append(out, c29Scenario{name: name, cap: cap, threads: th})
	}
	// plain contention, round robin between users
	add("3x1 cap1 users u1,u2,u1", 1, []c29Op{c29A("u1")}, []c29Op{c29A("u2")}, []c29Op{c29A("u1")})
	add("2+1 cap1", 1, []c29Op{c29A("u1"), c29A("u1")}, []c29Op{c29A("u2")}, []c29Op{c29A("u1")})
	add("3 users cap1", 1, []c29Op{c29A("u1")}, []c29Op{c29A("u2")}, []c29Op{c29A("u3")})
	add("3 users cap2", 2, []c29Op{c29A("u1"), c29A("u1")}, []c29Op{c29A("u2")}, []c29Op{c29A("u3")})
	// cancellation racing with the grant
	add("cancel vs grant cap1", 1, []c29Op{c29A("u1")}, []c29Op{c29AC("u2", 0)}, []c29Op{c29C(0)})
	add("cancel vs grant, third waits", 1, []c29Op{c29A("u1")}, []c29Op{c29AC("u2", 0)}, []c29Op{c29C(0)}, []c29Op{c29A("u3")})
	add("cancel same user queue", 1, []c29Op{c29A("u1")}, []c29Op{c29AC("u1", 0)}, []c29Op{c29C(0)}, []c29Op{c29A("u1")})
	add("two cancels", 1, []c29Op{c29A("u1")}, []c29Op{c29AC("u2", 0)}, []c29Op{c29AC("u2", 1)}, []c29Op{c29C(0), c29C(1)})
	// capacity changes
	add("lower 2->1", 2, []c29Op{c29A("u1")}, []c29Op{c29A("u2")}, []c29Op{c29Adj(1)}, []c29Op{c29A("u3")})
	add("raise 1->2", 1, []c29Op{c29A("u1")}, []c29Op{c29A("u2")}, []c29Op{c29Adj(2)}, []c29Op{c29A("u3")})
	add("lower 3->1 with backlog", 3, []c29Op{c29A("u1"), c29A("u1")}, []c29Op{c29A("u2")}, []c29Op{c29A("u3")}, []c29Op{c29Adj(1), c29A("u2")})
	add("lower and cancel", 2, []c29Op{c29A("u1")}, []c29Op{c29AC("u2", 0)}, []c29Op{c29Adj(1), c29C(0)}, []c29Op{c29A("u1")})
	if thorough {
		add("4 threads 2 users cap1", 1, []c29Op{c29A("u1"), c29A("u2")}, []c29Op{c29A("u2"), c29A("u1")}, []c29Op{c29A("u1")}, []c29Op{c29A("u2")})
		add("cap2 cancel mix", 2, []c29Op{c29A("u1"), c29A("u1")}, []c29Op{c29AC("u2", 0), c29A("u2")}, []c29Op{c29C(0)}, []c29Op{c29A("u3")})
		add("lower 2->1 raise back", 2, []c29Op{c29A("u1"), c29A("u1")}, []c29Op{c29A("u2")}, []c29Op{c29Adj(1), c29Adj(2)}, []c29Op{c29A("u3")})
		add("three cancellable", 1, []c29Op{c29A("u1")}, []c29Op{c29AC("u2", 0)}, []c29Op{c29AC("u3", 1)}, []c29Op{c29C(1), c29C(0)})
	}
	return out
}

// c29Mon is the monitor evaluated at quiescent points where the queue's mutex is free.
type c29Mon struct {
	q          *Queue
	curOp      map[string]c29Op // thread name -> operation in progress
	prevSet    map[*query]bool
	prevList   []*query
	prevAct    int64
	counts     map[*query]map[string]int // (unused since the per-user monitor)
	userCounts map[string]map[string]int // waiting user -> grants to other users since it was last served
	raised     bool
	everWaited bool
	viol       string
	sig        string
	grants     []string
}

func c29Closed(ch chan struct{}) bool {
	select {
	case <-ch:
		return true
	default:
		return false
	}
}

func (m *c29Mon) waiting() (set map[*query]bool, list []*query) {
	set = map[*query]bool{}
	var users []string
	for u := range m.q.waitingUsersByName {
		users = append(users, u)
	}
	sort.Strings(users)
	for _, u := range users {
		for e := m.q.waitingUsersByName[u].qry.Front(); e != nil; e = e.Next() {
			qq := e.Value.(*query)
			set[qq] = true
			list = append(list, qq)
		}
	}
	return
}

func (m *c29Mon) fail(sig, msg string) {
	if m.viol == "" {
		m.sig, m.viol = sig, msg
	}
}

func (m *c29Mon) check(s *vsched.Sched) {
	if m.q == nil || m.q.mx.Held() {
		return // inside a critical section: state is compared at the next lock-free point
	}
	q := m.q
	set, list := m.waiting()
	if len(list) > 0 {
		m.everWaited = true
	}
	op, hasOp := m.curOp[s.LastThread()]
	// grants delivered during the last critical section
	var granted []string
	for _, w := range m.prevList {
		if !set[w] && c29Closed(w.ch) {
			granted = append(granted, w.token)
		}
	}
	delta := q.activeQuery - m.prevAct
	if hasOp && (op.kind == c29Acq || op.kind == c29AcqCtx) && delta-int64(len(granted)) == 1 {
		granted = append(granted, op.user) // fast path, or queued and granted in the same critical section
	}
	// (a) admission never exceeds capacity: active grows only up to the capacity in force
	if delta > 0 && q.activeQuery > q.maxActiveQuery {
		m.fail("C29:queue-admits-above-capacity", fmt.Sprintf("active queries grew from %d to %d with capacity %d", m.prevAct, q.activeQuery, q.maxActiveQuery))
	}
	// ... also when the count does not grow: a release that hands its slot to a waiter while the
	// queue is still above a lowered capacity admits above capacity just the same
	if len(granted) > 0 && q.activeQuery > q.maxActiveQuery {
		m.fail("C29:queue-admits-above-capacity", fmt.Sprintf("query of user %s admitted while %d queries are active with capacity %d (active was %d)", granted[0], q.activeQuery, q.maxActiveQuery, m.prevAct))
	}
	// (b) no lost wake-up: free capacity implies nobody waits (after a capacity raise the code
	// grants at the next release only, which the statement does not forbid: monitor off)
	if !m.raised && q.activeQuery < q.maxActiveQuery && len(list) > 0 {
		m.fail("C29:queue-waiter-not-granted-with-free-capacity", fmt.Sprintf("active=%d capacity=%d but %d queries wait", q.activeQuery, q.maxActiveQuery, len(list)))
	}
	// (d) round robin, as the statement words it: a user is not granted twice while another USER that was
	// already waiting is still waiting, i.e. without that user being served in between. (The first version
	// of this monitor counted per waiting query; with two queries of one user in the queue it then reported
	// the legal order u1 u2 u1 u2 u1 in the thorough-only scenario "4 threads 2 users cap1".)
	for _, g := range granted {
		m.grants = append(m.grants, g)
		delete(m.userCounts, g) // g was served: whoever waits for g starts counting afresh
		waitingUsers := map[string]bool{}
		for _, w := range m.prevList {
			if set[w] && w.token != g {
				waitingUsers[w.token] = true
			}
		}
		for u := range waitingUsers {
			if m.userCounts[u] == nil {
				m.userCounts[u] = map[string]int{}
			}
			m.userCounts[u][g]++
			if m.userCounts[u][g] >= 2 {
				m.fail("C29:queue-user-granted-twice-while-other-waits", fmt.Sprintf("user %s granted twice while user %s kept waiting without being served (grants so far %v)", g, u, m.grants))
			}
		}
	}
	for u := range m.userCounts { // a user with nothing waiting any more is not "still waiting"
		still := false
		for _, w := range list {
			if w.token == u {
				still = true
			}
		}
		if !still {
			delete(m.userCounts, u)
		}
	}
	m.prevSet, m.prevList, m.prevAct = set, list, q.activeQuery
}

func c29RunScenario(x *mc.Exec, sc c29Scenario, rep *mc.Report) mc.Verdict {
	mon := &c29Mon{curOp: map[string]c29Op{}, counts: map[*query]map[string]int{}, userCounts: map[string]map[string]int{}}
	var cancels []context.CancelFunc
	held := 0
	var log []string
	res := vsched.Run(x, vsched.Config{
		FreeBlockedSwitch: true,
		AtQuiescence:      func(s *vsched.Sched) { mon.check(s) },
		Cleanup: func() {
			for _, c := range cancels {
				c()
			}
		},
	}, func() {
		q := NewQueue(sc.cap)
		curCap := sc.cap
		mon.q = q
		mon.prevAct = 0
		ctxs := make([]context.Context, 4)
		cancels = make([]context.CancelFunc, 4)
		for i := range ctxs {
			ctxs[i], cancels[i] = context.WithCancel(context.Background())
		}
		var wg vsync.WaitGroup
		for ti, prog := range sc.threads {
			name := fmt.Sprintf("T%d", ti)
			prog := prog
			wg.Add(1)
			vsched.GoNamed(name, false, func() {
				defer wg.Done()
				for _, op := range prog {
					mon.curOp[name] = op
					switch op.kind {
					case c29Acq:
						if err := q.Acquire(context.Background(), op.user); err != nil {
							mon.fail("C29:queue-acquire-error-without-cancel", "Acquire with background context failed: "+err.Error())
							return
						}
						held++
						log = append(log, name+":granted:"+op.user)
						vsched.Point("hold")
						mon.curOp[name] = c29Op{kind: -1}
						held--
						q.Release()
					case c29AcqCtx:
						err := q.Acquire(ctxs[op.arg], op.user)
						if err == nil {
							held++
							log = append(log, name+":granted:"+op.user)
							vsched.Point("hold")
							mon.curOp[name] = c29Op{kind: -1}
							held--
							q.Release()
						} else {
							log = append(log, name+":cancelled:"+op.user)
						}
					case c29Cancel:
						vsched.Point("cancel")
						cancels[op.arg]()
					case c29Adjust:
						if int64(op.arg) > curCap { // relative to the capacity in force, not to the initial one
							mon.raised = true
						}
						curCap = int64(op.arg)
						q.AdjustCapacity(uint64(op.arg))
					}
					delete(mon.curOp, name)
				}
			})
		}
		wg.Wait()
	})
	if res.Panic != nil {
		return mc.Verdict{Violation: fmt.Sprintf("panic in code under test: %v", res.Panic), Sig: "C29:queue-panic", Detail: res.PanicStack}
	}
	if mon.viol != "" {
		return mc.Verdict{Violation: sc.name + ": " + mon.viol, Sig: mon.sig, Detail: map[string]any{"scenario": sc.name, "log": log}}
	}
	if res.Deadlock || res.StepCap || res.Horizon {
		return mc.Verdict{Violation: fmt.Sprintf("%s: a request waits forever (%s); log %v", sc.name, strings.Join(res.Blocked, "; "), log), Sig: "C29:queue-request-waits-forever", Detail: map[string]any{"scenario": sc.name, "blocked": res.Blocked}}
	}
	if res.Leaked > 0 && !vsched.NoteLeak(res.Leaked) {
		panic(c29Infra(fmt.Sprintf("too many leaked goroutines (%d more in scenario %s)", res.Leaked, sc.name)))
	}
	// (c) at the end everything was released: no leaked capacity, nobody queued
	q := mon.q
	if q.activeQuery != 0 || len(q.waitingUsersByName) != 0 || q.waitingUsersByPriority.Len() != 0 || held != 0 {
		return mc.Verdict{Violation: fmt.Sprintf("%s: after all requests finished active=%d waitingUsers=%d tree=%d held=%d; log %v", sc.name, q.activeQuery, len(q.waitingUsersByName), q.waitingUsersByPriority.Len(), held, log),
			Sig: "C29:queue-capacity-leaked", Detail: map[string]any{"scenario": sc.name, "log": log}}
	}
	key := sc.name + "|" + strings.Join(log, ",")
	rep.State(key)
	rep.Outcome(key)
	if mon.everWaited {
		rep.Nontrivial(key)
	}
	if x.Deviations() > 0 {
		rep.Sample(map[string]any{"scenario": sc.name, "schedule_choices": append([]int{}, x.Choices...), "observed": log})
	}
	return mc.Verdict{}
}

// c29FreeRun is the free-running companion for the race detector: same thread bodies, real
// goroutines, no scheduler (under the cooperative scheduler the detector is blind).
func c29FreeRun(t *testing.T, rep *mc.Report) {
	scs := c29Scenarios(true)
	n := 0
	for _, sc := range scs {
		for it := 0; it < 300; it++ {
			q := NewQueue(sc.cap)
			ctxs := make([]context.Context, 4)
			cancels := make([]context.CancelFunc, 4)
			for i := range ctxs {
				ctxs[i], cancels[i] = context.WithCancel(context.Background())
			}
			base, cancelBase := context.WithCancel(context.Background())
			watchdog := time.AfterFunc(300*time.Millisecond, cancelBase) // liveness of the companion only
			var wg sync.WaitGroup
			for _, prog := range sc.threads {
				prog := prog
				wg.Add(1)
				go func() {
					defer wg.Done()
					for _, op := range prog {
						switch op.kind {
						case c29Acq:
							if q.Acquire(base, op.user) == nil {
								q.Release()
							}
						case c29AcqCtx:
							if q.Acquire(ctxs[op.arg], op.user) == nil {
								q.Release()
							}
						case c29Cancel:
							cancels[op.arg]()
						case c29Adjust:
							q.AdjustCapacity(uint64(op.arg))
						}
					}
				}()
			}
			wg.Wait()
			watchdog.Stop()
			cancelBase()
			for _, c := range cancels {
				c()
			}
			n++
		}
	}
	rep.AddCounts(int64(n), int64(n), 1, 0)
	rep.Rule = "free-running -race companion"
	rep.Sample("free-running executions of every scenario x300")
	rep.Write()
}

type c29Infra string

func (c c29Infra) MCInfra() string { return string(c) }

func TestVerifC29(t *testing.T) {
	rep := mc.NewReport("C29")
	if os.Getenv("VERIF_FREERUN") == "1" {
		c29FreeRun(t, rep)
		return
	}
	scs := c29Scenarios(mc.Thorough())
	bound := mc.Pick(2, 3)
	rep.Bounds["queue_preemption_bound"] = bound
	rep.Bounds["queue_scenarios"] = len(scs)
	rep.Rule = "every schedule with at most B preemptions (switches away from a runnable thread, non-default select probe order) of every scenario of a program family (3-4 threads; Acquire/Release, cancellable Acquire + canceller, AdjustCapacity; users forced to collide; capacity 1-2). Non-trivial = execution in which at least one request had to wait (queued) or a cancellation raced"
	shard, shards := mc.ShardFromEnv()
	body := func(x *mc.Exec) mc.Verdict {
		si := x.ChooseFree(len(scs), "scenario")
		return c29RunScenario(x, scs[si], rep)
	}
	st := mc.Explore(body, mc.Options{Bound: bound, Workers: 1, SplitDepth: 3, Shard: shard, Shards: shards})
	rep.MergeExplore("queue", st)
	if err := rep.Write(); err != nil {
		t.Fatal(err)
	}
	t.Logf("C29 queue: %+v", st)
}
