//go:build verif

// Package verif_c09os is the file-system seam of the C09 harness. tools/vinstr rewrites the import "os" of
// internal/agent/disk_cache.go to this package (checks.d/C09.json, "-import os=..."), which mirrors the few
// names that file uses. Every call goes straight to the real package os; in addition, while the calling
// goroutine has a recorder installed (Start/Stop), every call that changes the directory - file creation,
// WriteAt with its offset and bytes, Remove - is appended to the recorder in the order the code issued it.
// The harness builds its crash images from that list (a crash applies a prefix of the calls, the last applied
// WriteAt only up to some byte; bytes of the file nobody wrote yet read as zero).
package verif_c09os

import (
	"io/fs"
	"os"
	"runtime"
	"sync"
)

const (
	O_CREATE = os.O_CREATE
	O_EXCL   = os.O_EXCL
	O_RDWR   = os.O_RDWR
	O_WRONLY = os.O_WRONLY
	O_RDONLY = os.O_RDONLY
	ModePerm = os.ModePerm
)

type (
	FileMode = os.FileMode
	FileInfo = os.FileInfo
	DirEntry = os.DirEntry
)

// CallKind names a recorded directory-changing call.
type CallKind int

const (
	CallCreate CallKind = iota // OpenFile with O_CREATE that made a new file
	CallWrite                  // WriteAt(Data, Off)
	CallRemove                 // Remove
)

type Call struct {
	Kind CallKind
	Path string
	Off  int64
	Data []byte
}

type recorder struct{ calls []Call }

var recorders sync.Map // goroutine id -> *recorder

func goid() int64 {
	var buf [64]byte
	n := runtime.Stack(buf[:], false)
	var id int64
	for _, c := range buf[len("goroutine "):n] {
		if c < '0' || c > '9' {
			break
		}
		id = id*10 + int64(c-'0')
	}
	return id
}

// Start installs an empty recorder for the calling goroutine.
func Start() { recorders.Store(goid(), &recorder{}) }

// Stop removes the calling goroutine's recorder and returns what it recorded.
func Stop() []Call {
	if r, ok := recorders.LoadAndDelete(goid()); ok {
		return r.(*recorder).calls
	}
	return nil
}

func record(c Call) {
	if r, ok := recorders.Load(goid()); ok {
		r.(*recorder).calls = append(r.(*recorder).calls, c)
	}
}

// File wraps *os.File; only WriteAt is intercepted.
type File struct {
	*os.File
	path string
}

func (f *File) WriteAt(b []byte, off int64) (int, error) {
	n, err := f.File.WriteAt(b, off)
	if n > 0 {
		record(Call{Kind: CallWrite, Path: f.path, Off: off, Data: append([]byte(nil), b[:n]...)})
	}
	return n, err
}

func OpenFile(name string, flag int, perm FileMode) (*File, error) {
	existed := true
	if flag&os.O_CREATE != 0 {
		if _, err := os.Lstat(name); err != nil {
			existed = false
		}
	}
	fp, err := os.OpenFile(name, flag, perm)
	if err != nil {
		return nil, err
	}
	if !existed {
		record(Call{Kind: CallCreate, Path: name})
	}
	return &File{File: fp, path: name}, nil
}

func Remove(name string) error {
	err := os.Remove(name)
	if err == nil {
		record(Call{Kind: CallRemove, Path: name})
	}
	return err
}

func MkdirAll(path string, perm FileMode) error { return os.MkdirAll(path, perm) }
func ReadDir(name string) ([]DirEntry, error)   { return os.ReadDir(name) }
func Stat(name string) (FileInfo, error)        { return os.Stat(name) }

var _ fs.FileInfo = FileInfo(nil)
