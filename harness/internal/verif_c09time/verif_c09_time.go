//go:build verif

// Package verif_c09time is the clock seam of the C09 harness. tools/vinstr rewrites the import "time" of
// internal/agent/disk_cache.go to this package (checks.d/C09.json, "-import time=..."), which mirrors the few
// names that file uses. Now() answers from a per-goroutine virtual clock when the harness installed one
// (every explorer worker runs its executions synchronously on its own goroutine) and from the real clock
// otherwise. Each Now() call advances the virtual clock by 1 ms so that file names (creation time with
// nanoseconds) stay unique and ordered, exactly as they are with the real clock.
package verif_c09time

import (
	"runtime"
	"sync"
	"time"
)

type (
	Time     = time.Time
	Duration = time.Duration
)

const (
	Nanosecond  = time.Nanosecond
	Microsecond = time.Microsecond
	Millisecond = time.Millisecond
	Second      = time.Second
	Minute      = time.Minute
	Hour        = time.Hour
)

type clock struct{ ns int64 }

var clocks sync.Map // goroutine id -> *clock

func goid() int64 {
	var buf [64]byte
	n := runtime.Stack(buf[:], false)
	// "goroutine 123 [running]:..."
	var id int64
	for _, c := range buf[len("goroutine "):n] {
		if c < '0' || c > '9' {
			break
		}
		id = id*10 + int64(c-'0')
	}
	return id
}

// Install gives the calling goroutine a virtual clock starting at unix nanoseconds ns.
func Install(ns int64) { clocks.Store(goid(), &clock{ns: ns}) }

// Uninstall returns the calling goroutine to the real clock.
func Uninstall() { clocks.Delete(goid()) }

// Advance moves the calling goroutine's virtual clock forward.
func Advance(d Duration) {
	if c, ok := clocks.Load(goid()); ok {
		c.(*clock).ns += int64(d)
	}
}

// Installed reports whether the calling goroutine has a virtual clock and its reading.
func Installed() (int64, bool) {
	if c, ok := clocks.Load(goid()); ok {
		return c.(*clock).ns, true
	}
	return 0, false
}

func Now() Time {
	if c, ok := clocks.Load(goid()); ok {
		k := c.(*clock)
		k.ns += int64(Millisecond)
		return time.Unix(0, k.ns).UTC()
	}
	return time.Now()
}

func Since(t Time) Duration { return Now().Sub(t) }
