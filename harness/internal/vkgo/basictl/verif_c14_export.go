//go:build verif

package basictl

// C14 (shared part): generic round-trip checker for generated TL types, used by the C14 harnesses of several
// packages (the generated factories live in different directories, one of them `internal` to fsbinlog).
// It lives in package basictl because every generated package already depends on basictl and because the
// choice-backed random source needs to construct a RandGenerator directly.
//
// The values are produced by the generator's own FillRandom, driven by a Rand whose draws are choice points of the
// mc explorer: the all-default object first, then every object within a deviation bound.

import (
	"bytes"
	"fmt"
	"math"
	"reflect"
	"runtime"
	"sort"
	"strconv"
	"strings"
	"sync/atomic"
	"unsafe"

	"github.com/VKCOM/statshouse/internal/verif/mc"
)

// VerifC14Object is the method set shared by the Object interfaces of all generated factories (the older generator
// version used for the fsbinlog and sqlite schemas emits neither FillRandom nor TL2: both are optional, see
// verifC14Filler / verifC14TL2).
type VerifC14Object interface {
	TLName() string
	TLTag() uint32
	ReadTL1(w []byte) ([]byte, error)
	ReadTL1Boxed(w []byte) ([]byte, error)
	WriteTL1General(w []byte) ([]byte, error)
	WriteTL1BoxedGeneral(w []byte) ([]byte, error)
	MarshalJSON() ([]byte, error)
	UnmarshalJSON([]byte) error
	ReadJSONGeneral(jctx *JSONReadContext, in *JsonLexer) error
	WriteJSONGeneral(jctx *JSONWriteContext, w []byte) ([]byte, error)
}

type verifC14Filler interface {
	FillRandom(rg *RandGenerator)
}

type verifC14TL2 interface {
	ReadTL2(r []byte, tctx *TL2ReadContext) ([]byte, error)
	WriteTL2(w []byte, tctx *TL2WriteContext) []byte
}

// VerifC14Function adds the result transcoders of generated functions.
type VerifC14Function interface {
	VerifC14Object
	FillRandomResultTL1(rg *RandGenerator, w []byte) ([]byte, error)
	ReadResultTL1WriteResultJSON(jctx *JSONWriteContext, r []byte, w []byte) ([]byte, []byte, error)
	ReadResultJSONWriteResultTL1(jctx *JSONReadContext, r []byte, w []byte) ([]byte, []byte, error)
	ReadResultTL1WriteResultTL2(tctx *TL2WriteContext, r []byte, w []byte) ([]byte, []byte, error)
	ReadResultTL2WriteResultTL1(tctx *TL2ReadContext, r []byte, w []byte) ([]byte, []byte, error)
}

// VerifC14Item describes one TL item of a factory.
type VerifC14Item struct {
	Family   string
	Name     string
	Tag      uint32
	HasTL2   bool
	New      func() VerifC14Object // string variant
	NewBytes func() VerifC14Object // byte-slice variant (the same type when none is generated)
	NewFunc  func() VerifC14Function
}

// ---------------------------------------------------------------------------------------------------------------
// choice-backed random source

var verifC14NatMenu = []uint32{0, 1, 2, 3, 4, 5, 0x7fffffff, 0x80000000, 0xffffffff}
var verifC14StrLenMenu = []uint32{0, 1, 2, 3, 4, 5, 31}
var verifC14Int31Menu = []int32{0, 1, -1, math.MaxInt32, math.MinInt32}
var verifC14Int63Menu = []int64{0, 1, -1, math.MaxInt64, math.MinInt64}
var verifC14FloatMenu = []float64{0, 1, -1.5, math.MaxFloat64, math.SmallestNonzeroFloat64, math.Copysign(0, -1), math.Inf(1), math.NaN()}

// verifC14Rand implements Rand. The purpose of a Uint32 draw is recovered from the call stack (the functions of this
// package that consume draws: RandomUint, RandomString[Bytes], RandomByte): a draw that only selects the bit-width
// category inside RandomUint is answered with "full width" without a choice point, draws whose result is overridden by
// the size / field-mask handlers are answered 0 without a choice point, everything else is a choice over a small menu
// whose first entry is the default (zero) answer.
type verifC14Rand struct {
	x         *mc.Exec
	uintPhase int
	strLeft   uint32
	strPos    uint32
	draws     int
}

func verifC14Callers() (string, string) {
	var pcs [4]uintptr
	n := runtime.Callers(3, pcs[:]) // 0 Callers, 1 verifC14Callers, 2 Uint32, 3 the consumer
	fr := runtime.CallersFrames(pcs[:n])
	short := func(f string) string {
		if i := strings.LastIndex(f, "."); i >= 0 {
			return f[i+1:]
		}
		return f
	}
	a, more := fr.Next()
	if !more {
		return short(a.Function), ""
	}
	b, _ := fr.Next()
	return short(a.Function), short(b.Function)
}

func (r *verifC14Rand) Uint32() uint32 {
	r.draws++
	f, outer := verifC14Callers()
	switch f {
	case "RandomUint":
		if outer == "RandomSize" || outer == "RandomFieldMask" {
			return 0 // the handler decides (verifC14Size / verifC14Mask)
		}
		r.uintPhase ^= 1
		if r.uintPhase == 1 {
			return 0xffffffff // category draw: all 32 bits may be set by the value draw
		}
		return verifC14NatMenu[r.x.Choose(len(verifC14NatMenu), "nat")]
	case "RandomString", "RandomStringBytes":
		if r.strLeft == 0 {
			n := verifC14StrLenMenu[r.x.Choose(len(verifC14StrLenMenu), "strlen")]
			r.strLeft = n
			return n
		}
		r.strLeft--
		r.strPos++
		return r.strPos * 7 // letters: a fixed non-constant pattern (contents are varied by the string substitution step)
	case "RandomByte":
		return verifC14NatMenu[r.x.Choose(len(verifC14NatMenu), "byte")]
	case "NewRandGenerator":
		return 3
	}
	return verifC14NatMenu[r.x.Choose(len(verifC14NatMenu), "u32")]
}

func (r *verifC14Rand) Int31() int32 {
	r.draws++
	return verifC14Int31Menu[r.x.Choose(len(verifC14Int31Menu), "int")]
}
func (r *verifC14Rand) Int63() int64 {
	r.draws++
	return verifC14Int63Menu[r.x.Choose(len(verifC14Int63Menu), "long")]
}
func (r *verifC14Rand) NormFloat64() float64 {
	r.draws++
	return verifC14FloatMenu[r.x.Choose(len(verifC14FloatMenu), "float")]
}

func (r *verifC14Rand) size(uint32) uint32 {
	r.draws++
	return uint32(r.x.Choose(3, "size"))
}

// mask: 0 = no optional field, then each single bit, then all bits.
func (r *verifC14Rand) mask(_ uint32, bitMask uint32) uint32 {
	r.draws++
	var bits []uint32
	for i := 0; i < 32; i++ {
		if bitMask&(1<<i) != 0 {
			bits = append(bits, 1<<i)
		}
	}
	if len(bits) == 0 {
		return 0
	}
	n := 1 + len(bits)
	if len(bits) > 1 {
		n++
	}
	c := r.x.Choose(n, "mask")
	switch {
	case c == 0:
		return 0
	case c <= len(bits):
		return bits[c-1]
	}
	return bitMask
}

func verifC14NewGenerator(x *mc.Exec) (*RandGenerator, *verifC14Rand) {
	r := &verifC14Rand{x: x}
	// maxDepth only limits RandomUint; nesting is bounded by the deviation bound (default size is 0)
	rg := &RandGenerator{maxDepth: 1000, r: r, SizeHandler: r.size, FieldMaskHandler: r.mask}
	return rg, r
}

// ---------------------------------------------------------------------------------------------------------------
// canonical value (for "reading back yields an equal value")

// verifC14Canon renders a value structurally: nil and empty slices/maps are the same value, floats are compared by
// bits, maps are sorted, []byte and string render alike.
func verifC14Canon(v any) string {
	var b strings.Builder
	verifC14CanonRec(&b, reflect.ValueOf(v), false)
	return b.String()
}

// verifC14CanonJSON is the value as far as the JSON form can represent it: JSON omits fields equal to zero, so the
// sign of a floating-point zero is not carried (-0 == 0 is "default"), and NaN is written as the string "NaN" (one
// NaN, no payload). Both are canonicalisations by design of the format, not defects.
func verifC14CanonJSON(v any) string {
	var b strings.Builder
	verifC14CanonRec(&b, reflect.ValueOf(v), true)
	return b.String()
}

func verifC14CanonRec(b *strings.Builder, v reflect.Value, js bool) {
	switch v.Kind() {
	case reflect.Ptr, reflect.Interface:
		if v.IsNil() {
			b.WriteString("nil")
			return
		}
		verifC14CanonRec(b, v.Elem(), js)
	case reflect.Struct:
		b.WriteString("{")
		t := v.Type()
		for i := 0; i < v.NumField(); i++ {
			b.WriteString(t.Field(i).Name)
			b.WriteString(":")
			verifC14CanonRec(b, v.Field(i), js)
			b.WriteString(" ")
		}
		b.WriteString("}")
	case reflect.Slice:
		if v.Type().Elem().Kind() == reflect.Uint8 {
			b.WriteString(strconv.Quote(string(v.Bytes())))
			return
		}
		b.WriteString("[")
		for i := 0; i < v.Len(); i++ {
			verifC14CanonRec(b, v.Index(i), js)
			b.WriteString(",")
		}
		b.WriteString("]")
	case reflect.Array:
		b.WriteString("[")
		for i := 0; i < v.Len(); i++ {
			verifC14CanonRec(b, v.Index(i), js)
			b.WriteString(",")
		}
		b.WriteString("]")
	case reflect.Map:
		var ents []string
		it := v.MapRange()
		for it.Next() {
			var e strings.Builder
			verifC14CanonRec(&e, it.Key(), js)
			e.WriteString("=>")
			verifC14CanonRec(&e, it.Value(), js)
			ents = append(ents, e.String())
		}
		sort.Strings(ents)
		b.WriteString("map[" + strings.Join(ents, ",") + "]")
	case reflect.String:
		b.WriteString(strconv.Quote(v.String()))
	case reflect.Bool:
		b.WriteString(strconv.FormatBool(v.Bool()))
	case reflect.Int, reflect.Int8, reflect.Int16, reflect.Int32, reflect.Int64:
		b.WriteString(strconv.FormatInt(v.Int(), 10))
	case reflect.Uint, reflect.Uint8, reflect.Uint16, reflect.Uint32, reflect.Uint64:
		b.WriteString(strconv.FormatUint(v.Uint(), 10))
	case reflect.Float32:
		f := float32(v.Float())
		if js && f == 0 {
			f = 0
		}
		if js && f != f {
			f = float32(math.NaN())
		}
		b.WriteString("f" + strconv.FormatUint(uint64(math.Float32bits(f)), 16))
	case reflect.Float64:
		f := v.Float()
		if js && f == 0 {
			f = 0
		}
		if js && f != f {
			f = math.NaN()
		}
		b.WriteString("d" + strconv.FormatUint(math.Float64bits(f), 16))
	default:
		b.WriteString("?" + v.Kind().String())
	}
}

// ---------------------------------------------------------------------------------------------------------------
// reflective generator for types whose generator version emits no FillRandom (same menus, same choice points)

// verifC14ReflectFill fills the struct behind obj field by field. A field with a generated Set<Field> method is
// conditional on a field-mask bit: it is either left absent (zero) or given a value through its setter, which also
// sets the bit, so the object is always one the writer can represent.
func verifC14ReflectFill(x *mc.Exec, obj any) {
	pv := reflect.ValueOf(obj)
	if pv.Kind() != reflect.Ptr || pv.Elem().Kind() != reflect.Struct {
		return
	}
	sv := pv.Elem()
	t := sv.Type()
	for i := 0; i < sv.NumField(); i++ {
		f := sv.Field(i)
		if !f.CanSet() {
			continue
		}
		if m := pv.MethodByName("Set" + t.Field(i).Name); m.IsValid() && m.Type().NumIn() == 1 && m.Type().In(0) == f.Type() {
			if x.Choose(2, "present") == 1 {
				tmp := reflect.New(f.Type()).Elem()
				verifC14ReflectValue(x, tmp)
				m.Call([]reflect.Value{tmp})
			}
			continue
		}
		verifC14ReflectValue(x, f)
	}
}

func verifC14ReflectValue(x *mc.Exec, v reflect.Value) {
	pattern := func(n uint32) string {
		b := make([]byte, n)
		for i := range b {
			b[i] = letters[(i*7+7)%len(letters)]
		}
		return string(b)
	}
	switch v.Kind() {
	case reflect.Uint32:
		v.SetUint(uint64(verifC14NatMenu[x.Choose(len(verifC14NatMenu), "nat")]))
	case reflect.Int32:
		v.SetInt(int64(verifC14Int31Menu[x.Choose(len(verifC14Int31Menu), "int")]))
	case reflect.Int64:
		v.SetInt(verifC14Int63Menu[x.Choose(len(verifC14Int63Menu), "long")])
	case reflect.Uint64:
		v.SetUint(uint64(verifC14Int63Menu[x.Choose(len(verifC14Int63Menu), "ulong")]))
	case reflect.Float32, reflect.Float64:
		v.SetFloat(verifC14FloatMenu[x.Choose(len(verifC14FloatMenu), "float")])
	case reflect.Bool:
		v.SetBool(x.Choose(2, "bool") == 1)
	case reflect.String:
		v.SetString(pattern(verifC14StrLenMenu[x.Choose(len(verifC14StrLenMenu), "strlen")]))
	case reflect.Slice:
		if v.Type().Elem().Kind() == reflect.Uint8 {
			v.SetBytes([]byte(pattern(verifC14StrLenMenu[x.Choose(len(verifC14StrLenMenu), "strlen")])))
			return
		}
		n := x.Choose(3, "size")
		s := reflect.MakeSlice(v.Type(), n, n)
		for i := 0; i < n; i++ {
			verifC14ReflectValue(x, s.Index(i))
		}
		v.Set(s)
	case reflect.Array:
		for i := 0; i < v.Len(); i++ {
			verifC14ReflectValue(x, v.Index(i))
		}
	case reflect.Struct:
		if v.CanAddr() {
			verifC14ReflectFill(x, v.Addr().Interface())
		}
	}
}

// ---------------------------------------------------------------------------------------------------------------
// string substitution (FillRandom only produces [A-Za-z0-9+/]{0,31})

type verifC14MenuString struct {
	class string // part of violation signatures
	s     string
}

var verifC14StringMenu = func() []verifC14MenuString {
	var m []verifC14MenuString
	add := func(class string, ss ...string) {
		for _, s := range ss {
			m = append(m, verifC14MenuString{class, s})
		}
	}
	add("plain", "a", "ab", "abc", "abcd", "abcde", "/", "\x7f", "<>&", "{", "\u00e9", "\u00a0", "\U0001F600") // every padding length
	add("escape", "\"", "\\", "\n", "\t", "\x00", "\x1f", "\u2028", "\u2029")                              // JSONWriteString escapes these
	add("invalid-utf8", "\xff", "a\xc0\xafb", "\xed\xa0\x80")                                         // JSON: base64 form
	add("long", strings.Repeat("x", 253), strings.Repeat("y", 254), strings.Repeat("z", 255), strings.Repeat("w", 256), strings.Repeat("q", 257), strings.Repeat("L", 70000))
	add("keyword", "NaN", "base64", "0", "null", "true")
	return m
}()

type verifC14StrLoc struct {
	kind string // mapkey, mapvalue, field.<Name>: part of violation signatures
	set  func(s string)
}

// verifC14StringLocations lists every string-typed location of an object (string and []byte fields, slice elements,
// map keys and map values), each with a setter.
func verifC14StringLocations(obj any) []verifC14StrLoc {
	var out []verifC14StrLoc
	cur := "value" // name of the innermost struct field being visited
	var rec func(v reflect.Value)
	settable := func(v reflect.Value) reflect.Value {
		if v.CanSet() {
			return v
		}
		if v.CanAddr() {
			return reflect.NewAt(v.Type(), unsafe.Pointer(v.UnsafeAddr())).Elem()
		}
		return v
	}
	rec = func(v reflect.Value) {
		switch v.Kind() {
		case reflect.Ptr, reflect.Interface:
			if !v.IsNil() {
				rec(v.Elem())
			}
		case reflect.Struct:
			// only locations the writer will emit: a field conditional on a field-mask bit counts when IsSet<Field>()
			// holds (fields conditional on an external mask are skipped), a union member when As<Member>() holds
			var pv reflect.Value
			if v.CanAddr() {
				pv = v.Addr()
				if !pv.CanInterface() {
					pv = reflect.NewAt(v.Type(), unsafe.Pointer(v.UnsafeAddr()))
				}
			}
			_, isUnion := v.Type().FieldByName("index")
			for i := 0; i < v.NumField(); i++ {
				name := v.Type().Field(i).Name
				if isUnion {
					if !strings.HasPrefix(name, "value") || !pv.IsValid() {
						continue
					}
					m := pv.MethodByName("As" + strings.TrimPrefix(name, "value"))
					if !m.IsValid() || m.Type().NumIn() != 0 || m.Type().NumOut() != 2 {
						continue
					}
					if r := m.Call(nil); !r[1].Bool() {
						continue
					}
				} else if pv.IsValid() {
					if m := pv.MethodByName("IsSet" + name); m.IsValid() {
						if m.Type().NumIn() != 0 {
							continue
						}
						if r := m.Call(nil); !r[0].Bool() {
							continue
						}
					}
				}
				saved := cur
				cur = "field." + name
				rec(v.Field(i))
				cur = saved
			}
		case reflect.String:
			sv := settable(v)
			if sv.CanSet() {
				out = append(out, verifC14StrLoc{kind: cur, set: func(s string) { sv.SetString(s) }})
			}
		case reflect.Slice:
			if v.Type().Elem().Kind() == reflect.Uint8 {
				sv := settable(v)
				if sv.CanSet() {
					out = append(out, verifC14StrLoc{kind: cur, set: func(s string) { sv.SetBytes([]byte(s)) }})
				}
				return
			}
			for i := 0; i < v.Len(); i++ {
				rec(v.Index(i))
			}
			// an empty vector of structs with string members (e.g. the byte-slice form of a dictionary): one element
			// holding the string, everything else default
			if et := v.Type().Elem(); v.Len() == 0 && et.Kind() == reflect.Struct {
				sv := settable(v)
				for j := 0; sv.CanSet() && j < et.NumField(); j++ {
					j := j
					ft := et.Field(j)
					isStr := ft.Type.Kind() == reflect.String || (ft.Type.Kind() == reflect.Slice && ft.Type.Elem().Kind() == reflect.Uint8)
					if !isStr || !ft.IsExported() {
						continue
					}
					out = append(out, verifC14StrLoc{kind: "field." + ft.Name, set: func(s string) {
						ns := reflect.MakeSlice(v.Type(), 1, 1)
						if ft.Type.Kind() == reflect.String {
							ns.Index(0).Field(j).SetString(s)
						} else {
							ns.Index(0).Field(j).SetBytes([]byte(s))
						}
						sv.Set(ns)
					}})
				}
			}
		case reflect.Array:
			for i := 0; i < v.Len(); i++ {
				rec(v.Index(i))
			}
		case reflect.Map:
			mv := settable(v)
			if !mv.CanSet() || v.Type().Key().Kind() != reflect.String {
				return
			}
			if v.Len() == 0 {
				// an empty dictionary: one entry with the string as key and a default value
				out = append(out, verifC14StrLoc{kind: "mapkey", set: func(s string) {
					nm := reflect.MakeMap(v.Type())
					nm.SetMapIndex(reflect.ValueOf(s).Convert(v.Type().Key()), reflect.Zero(v.Type().Elem()))
					mv.Set(nm)
				}})
			}
			keys := v.MapKeys()
			sort.Slice(keys, func(i, j int) bool { return keys[i].String() < keys[j].String() })
			for _, k := range keys {
				k := k
				out = append(out, verifC14StrLoc{kind: "mapkey", set: func(s string) {
					val := mv.MapIndex(k)
					mv.SetMapIndex(k, reflect.Value{})
					mv.SetMapIndex(reflect.ValueOf(s).Convert(v.Type().Key()), val)
				}})
				if v.Type().Elem().Kind() == reflect.String {
					out = append(out, verifC14StrLoc{kind: "mapvalue", set: func(s string) {
						mv.SetMapIndex(k, reflect.ValueOf(s).Convert(v.Type().Elem()))
					}})
				}
			}
		}
	}
	rec(reflect.ValueOf(obj))
	return out
}

// ---------------------------------------------------------------------------------------------------------------
// the oracle

type verifC14Fail struct {
	form string // tl1 tl1boxed json tl2 variants result
	what string
}

func verifC14Hex(b []byte) string {
	if len(b) > 96 {
		return fmt.Sprintf("%x...(%d bytes)", b[:96], len(b))
	}
	return fmt.Sprintf("%x", b)
}

func verifC14Short(s string) string {
	if len(s) > 300 {
		return s[:300] + "..."
	}
	return s
}

var verifC14Sentinel = []byte{0xa5, 0x5a, 0xc3, 0x3c, 0x01}

// verifC14RoundTrip checks read(write(v)) == v in every form for one object of one variant; fresh() makes an empty
// object of the same variant. Returns the encodings for the cross-variant comparison.
func verifC14RoundTrip(it *VerifC14Item, v VerifC14Object, fresh func() VerifC14Object) (enc map[string][]byte, fails []verifC14Fail) {
	enc = map[string][]byte{}
	want := verifC14Canon(v)
	fail := func(form, f string, a ...any) { fails = append(fails, verifC14Fail{form, fmt.Sprintf(f, a...)}) }

	type binForm struct {
		name  string
		write func(o VerifC14Object, w []byte) ([]byte, error)
		read  func(o VerifC14Object, r []byte) ([]byte, error)
	}
	forms := []binForm{
		{"tl1", func(o VerifC14Object, w []byte) ([]byte, error) { return o.WriteTL1General(w) }, func(o VerifC14Object, r []byte) ([]byte, error) { return o.ReadTL1(r) }},
		{"tl1boxed", func(o VerifC14Object, w []byte) ([]byte, error) { return o.WriteTL1BoxedGeneral(w) }, func(o VerifC14Object, r []byte) ([]byte, error) { return o.ReadTL1Boxed(r) }},
	}
	if _, ok := v.(verifC14TL2); ok && it.HasTL2 {
		forms = append(forms, binForm{"tl2",
			func(o VerifC14Object, w []byte) ([]byte, error) {
				return o.(verifC14TL2).WriteTL2(w, &TL2WriteContext{}), nil
			},
			func(o VerifC14Object, r []byte) ([]byte, error) { return o.(verifC14TL2).ReadTL2(r, &TL2ReadContext{}) }})
	}
	for _, f := range forms {
		b, err := f.write(v, nil)
		if err != nil {
			fail(f.name, "writer refused the generated value: %v", err)
			continue
		}
		enc[f.name] = b
		if f.name != "tl2" && len(b)%4 != 0 {
			fail(f.name, "encoding is not 4-byte aligned: %d bytes %s", len(b), verifC14Hex(b))
		}
		// appending to a non-empty buffer must give prefix + the same bytes
		if b2, err := f.write(v, []byte{0x11, 0x22, 0x33, 0x44}); err != nil || !bytes.Equal(b2[4:], b) || !bytes.Equal(b2[:4], []byte{0x11, 0x22, 0x33, 0x44}) {
			fail(f.name, "writing after a prefix gives different bytes: %s vs %s (%v)", verifC14Hex(b2), verifC14Hex(b), err)
		}
		o := fresh()
		rest, err := f.read(o, b)
		if err != nil {
			fail(f.name, "reader rejects the writer's output %s: %v", verifC14Hex(b), err)
			continue
		}
		if len(rest) != 0 {
			fail(f.name, "reader left %d of %d bytes unread: %s", len(rest), len(b), verifC14Hex(b))
		}
		if got := verifC14Canon(o); got != want {
			fail(f.name, "value read back differs: wrote %s, read %s (bytes %s)", verifC14Short(want), verifC14Short(got), verifC14Hex(b))
		}
		if b3, err := f.write(o, nil); err != nil || !bytes.Equal(b3, b) {
			fail(f.name, "re-encoding the value read back gives other bytes: %s vs %s (%v)", verifC14Hex(b3), verifC14Hex(b), err)
		}
		// the reader must consume exactly its own bytes when more data follows (composition of messages)
		o2 := fresh()
		rest, err = f.read(o2, append(append([]byte{}, b...), verifC14Sentinel...))
		if err != nil || !bytes.Equal(rest, verifC14Sentinel) {
			fail(f.name, "with trailing data the reader returns rest %s, err %v (encoding %s)", verifC14Hex(rest), err, verifC14Hex(b))
		} else if got := verifC14Canon(o2); got != want {
			fail(f.name, "value read back with trailing data differs: %s vs %s", verifC14Short(want), verifC14Short(got))
		}
		// reading into a dirty object (previous value present) gives the same value
		o3 := fresh()
		if _, err := f.read(o3, b); err == nil {
			if _, err := f.read(o3, b); err != nil {
				fail(f.name, "second read into the same object fails: %v", err)
			} else if got := verifC14Canon(o3); got != want {
				fail(f.name, "second read into the same object differs: %s vs %s", verifC14Short(want), verifC14Short(got))
			}
		}
	}
	// JSON
	type jsonForm struct {
		name  string
		write func(o VerifC14Object) ([]byte, error)
		read  func(o VerifC14Object, b []byte) error
	}
	jforms := []jsonForm{
		{"json", func(o VerifC14Object) ([]byte, error) { return o.MarshalJSON() }, func(o VerifC14Object, b []byte) error { return o.UnmarshalJSON(b) }},
		{"json-general", func(o VerifC14Object) ([]byte, error) { return o.WriteJSONGeneral(&JSONWriteContext{}, nil) },
			func(o VerifC14Object, b []byte) error {
				return o.ReadJSONGeneral(&JSONReadContext{}, &JsonLexer{Data: b})
			}},
		{"json-legacy-names", func(o VerifC14Object) ([]byte, error) {
			return o.WriteJSONGeneral(&JSONWriteContext{LegacyTypeNames: true}, nil)
		},
			func(o VerifC14Object, b []byte) error {
				return o.ReadJSONGeneral(&JSONReadContext{LegacyTypeNames: true}, &JsonLexer{Data: b})
			}},
	}
	for _, f := range jforms {
		j, err := f.write(v)
		if err != nil {
			fail(f.name, "writer refused the generated value: %v", err)
			continue
		}
		enc[f.name] = j
		o := fresh()
		if err := f.read(o, j); err != nil {
			fail(f.name, "reader rejects the writer's output %s: %v", verifC14Short(string(j)), err)
			continue
		}
		if got, want := verifC14CanonJSON(o), verifC14CanonJSON(v); got != want {
			fail(f.name, "value read back differs: wrote %s, read %s (json %s)", verifC14Short(want), verifC14Short(got), verifC14Short(string(j)))
		}
		if j2, err := f.write(o); err != nil || !bytes.Equal(j2, j) {
			fail(f.name, "re-encoding the value read back gives other JSON: %s vs %s (%v)", verifC14Short(string(j2)), verifC14Short(string(j)), err)
		}
	}
	return enc, fails
}

// VerifC14Stats is what VerifC14Run measured.
type VerifC14Stats struct {
	Items       int
	Executions  int64
	Points      int64
	MaxDepth    int
	Exhaustive  bool
	Caps        []string
	Values      int64 // generated objects
	Nontrivial  int64 // objects that differ from the all-default object
	Violations  []mc.FoundViolation
	InfraErrors []string
}

// VerifC14Run explores every item: variants {string, bytes} x generated values within the deviation bound, plus one
// string substitution; function results are transcoded TL1 -> JSON -> TL1 (and TL2 where generated).
func VerifC14Run(rep *mc.Report, items []VerifC14Item, bound int, withStrings bool) VerifC14Stats {
	st := VerifC14Stats{Exhaustive: true}
	for i := range items {
		it := &items[i]
		st.Items++
		for _, variant := range []string{"string", "bytes"} {
			mk, other := it.New, it.NewBytes
			if variant == "bytes" {
				mk, other = it.NewBytes, it.New
				if reflect.TypeOf(it.New()) == reflect.TypeOf(it.NewBytes()) {
					continue // no separate byte-slice variant generated for this type
				}
			}
			// enum constructors are represented by one shared factory object (CreateObject returns the same pointer
			// every time): it has no state to generate and must not be written to
			shared := reflect.ValueOf(mk()).Pointer() == reflect.ValueOf(mk()).Pointer()
			defaultCanon := verifC14Canon(mk())
			body := func(x *mc.Exec) mc.Verdict {
				rg, _ := verifC14NewGenerator(x)
				v := mk()
				if shared {
					// nothing to generate
				} else if f, ok := v.(verifC14Filler); ok {
					f.FillRandom(rg)
				} else {
					verifC14ReflectFill(x, v)
				}
				subst := ""
				if withStrings && !shared {
					locs := verifC14StringLocations(v)
					if len(locs) > 0 {
						c := x.Choose(1+len(locs)*len(verifC14StringMenu), "string-substitution")
						if c > 0 {
							c--
							l, m := locs[c/len(verifC14StringMenu)], verifC14StringMenu[c%len(verifC14StringMenu)]
							// a dictionary key that is not UTF-8 has no JSON form (a JSON member name must be a string; the
							// writer would emit its {"base64":..} object in key position): not representable by design, skipped
							if !(m.class == "invalid-utf8" && (l.kind == "mapkey" || l.kind == "field.Key")) {
								l.set(m.s)
								subst = ":subst=" + l.kind + "/" + m.class
							}
						}
					}
				}
				canon := verifC14Canon(v)
				atomic.AddInt64(&st.Values, 1)
				if canon != defaultCanon {
					atomic.AddInt64(&st.Nontrivial, 1)
				}
				if x.Deviations() <= 1 {
					rep.Outcome(it.Family + "|" + it.Name + "|" + variant + "|" + canon)
				}
				enc, fails := verifC14RoundTrip(it, v, mk)
				// byte-slice and string variants: identical encodings of the same value (value transferred through TL1)
				if variant == "string" && len(fails) == 0 && reflect.TypeOf(it.New()) != reflect.TypeOf(it.NewBytes()) {
					o := other()
					if rest, err := o.ReadTL1(enc["tl1"]); err != nil || len(rest) != 0 {
						fails = append(fails, verifC14Fail{"variants", fmt.Sprintf("byte-slice variant cannot read the string variant's TL1 bytes %s: rest %d, %v", verifC14Hex(enc["tl1"]), len(rest), err)})
					} else {
						enc2, f2 := verifC14RoundTrip(it, o, other)
						for _, f := range f2 {
							fails = append(fails, verifC14Fail{"variants-" + f.form, "byte-slice variant after reading the string variant's bytes: " + f.what})
						}
						var names []string
						for n := range enc {
							names = append(names, n)
						}
						sort.Strings(names)
						for _, n := range names {
							if !bytes.Equal(enc[n], enc2[n]) {
								fails = append(fails, verifC14Fail{"variants-" + n, fmt.Sprintf("string and byte-slice variants encode the same value differently in form %s: %s vs %s", n, verifC14Hex(enc[n]), verifC14Hex(enc2[n]))})
							}
						}
					}
				}
				if len(fails) == 0 {
					return mc.Verdict{}
				}
				forms := map[string]bool{}
				var desc []string
				for _, f := range fails {
					forms[f.form] = true
					desc = append(desc, f.form+": "+f.what)
				}
				var fl []string
				for f := range forms {
					fl = append(fl, f)
				}
				sort.Strings(fl)
				return mc.Verdict{
					Sig:       "C14:roundtrip:" + it.Family + ":" + it.Name + ":" + variant + ":" + strings.Join(fl, "+") + subst,
					Violation: fmt.Sprintf("%s %s (%s variant), value %s: %s", it.Family, it.Name, variant, verifC14Short(canon), verifC14Short(strings.Join(desc, " | "))),
					Detail:    map[string]any{"item": it.Name, "variant": variant, "value": verifC14Short(canon), "failures": desc},
				}
			}
			s := mc.Explore(body, mc.Options{Bound: bound, SplitDepth: 1})
			verifC14Merge(&st, s)
		}
		if it.NewFunc != nil {
			body := func(x *mc.Exec) mc.Verdict {
				rg, _ := verifC14NewGenerator(x)
				fn := it.NewFunc()
				r1, err := fn.FillRandomResultTL1(rg, nil)
				if err != nil {
					return mc.Verdict{} // the generator could not produce a result (not a codec question)
				}
				atomic.AddInt64(&st.Values, 1)
				if len(r1) > 4 {
					atomic.AddInt64(&st.Nontrivial, 1)
				}
				if x.Deviations() <= 1 {
					rep.Outcome(it.Family + "|" + it.Name + "|result|" + string(r1))
				}
				var fails []string
				rest, j, err := fn.ReadResultTL1WriteResultJSON(&JSONWriteContext{}, r1, nil)
				if err != nil || len(rest) != 0 {
					fails = append(fails, fmt.Sprintf("result TL1 %s cannot be transcoded to JSON: rest %d, %v", verifC14Hex(r1), len(rest), err))
				} else {
					_, r2, err := fn.ReadResultJSONWriteResultTL1(&JSONReadContext{}, j, nil)
					if err != nil || !bytes.Equal(r1, r2) {
						fails = append(fails, fmt.Sprintf("result TL1 %s -> JSON %s -> TL1 %s (%v)", verifC14Hex(r1), verifC14Short(string(j)), verifC14Hex(r2), err))
					}
				}
				if it.HasTL2 {
					rest, t2, err := fn.ReadResultTL1WriteResultTL2(&TL2WriteContext{}, r1, nil)
					if err != nil || len(rest) != 0 {
						fails = append(fails, fmt.Sprintf("result TL1 %s cannot be transcoded to TL2: rest %d, %v", verifC14Hex(r1), len(rest), err))
					} else {
						rest, r3, err := fn.ReadResultTL2WriteResultTL1(&TL2ReadContext{}, t2, nil)
						if err != nil || len(rest) != 0 || !bytes.Equal(r1, r3) {
							fails = append(fails, fmt.Sprintf("result TL1 %s -> TL2 %s -> TL1 %s (rest %d, %v)", verifC14Hex(r1), verifC14Hex(t2), verifC14Hex(r3), len(rest), err))
						}
					}
				}
				if len(fails) == 0 {
					return mc.Verdict{}
				}
				return mc.Verdict{Sig: "C14:roundtrip:" + it.Family + ":" + it.Name + ":result", Violation: fmt.Sprintf("%s %s result: %s", it.Family, it.Name, verifC14Short(strings.Join(fails, " | "))),
					Detail: map[string]any{"item": it.Name, "failures": fails}}
			}
			s := mc.Explore(body, mc.Options{Bound: bound, SplitDepth: 1})
			verifC14Merge(&st, s)
		}
		if mc.Expired() {
			st.Exhaustive = false
			st.Caps = append(st.Caps, "wall_budget")
			break
		}
	}
	return st
}

func verifC14Merge(st *VerifC14Stats, s mc.Stats) {
	st.Executions += s.Executions
	st.Points += s.Points
	if s.MaxDepth > st.MaxDepth {
		st.MaxDepth = s.MaxDepth
	}
	if !s.Exhaustive {
		st.Exhaustive = false
	}
	for _, c := range s.Caps {
		dup := false
		for _, e := range st.Caps {
			dup = dup || e == c
		}
		if !dup {
			st.Caps = append(st.Caps, c)
		}
	}
	st.Violations = append(st.Violations, s.Violations...)
	st.InfraErrors = append(st.InfraErrors, s.InfraErrors...)
}

// VerifC14Report folds the statistics of one family into the report.
func VerifC14Report(rep *mc.Report, part string, st VerifC14Stats, bound int) {
	rep.MergeExplore(part, mc.Stats{Executions: st.Executions, Points: st.Points, MaxDepth: st.MaxDepth, Exhaustive: st.Exhaustive,
		Caps: st.Caps, BoundDone: bound, Units: st.Items, Violations: st.Violations, InfraErrors: st.InfraErrors})
}
