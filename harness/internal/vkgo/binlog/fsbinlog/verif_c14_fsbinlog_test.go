//go:build verif

package fsbinlog

// C14 (fsbinlog part): the generated fsbinlog schema is `internal` to this directory, so its items are explored from
// here with the shared engine in basictl (verif_c14_export.go).

import (
	"testing"

	_ "github.com/VKCOM/statshouse/internal/vkgo/binlog/fsbinlog/internal/gen/factory"
	c14fsmeta "github.com/VKCOM/statshouse/internal/vkgo/binlog/fsbinlog/internal/gen/meta"

	"github.com/VKCOM/statshouse/internal/verif/mc"
	"github.com/VKCOM/statshouse/internal/vkgo/basictl"
)

func TestVerifC14Fsbinlog(t *testing.T) {
	rep := mc.NewReport("C14")
	var items []basictl.VerifC14Item
	for _, ti := range c14fsmeta.GetAllTLItems() {
		ti := ti
		it := basictl.VerifC14Item{Family: "fsbinlog", Name: ti.TLName(), Tag: ti.TLTag(), HasTL2: ti.HasTL2(),
			New:      func() basictl.VerifC14Object { return ti.CreateObject() },
			NewBytes: func() basictl.VerifC14Object { return ti.CreateObjectBytes() }}
		if ti.IsFunction() {
			t.Fatalf("fsbinlog schema got a function (%s): extend the harness", ti.TLName())
		}
		items = append(items, it)
	}
	if len(items) == 0 {
		t.Fatal("fsbinlog factory is empty")
	}
	bound := mc.Pick(2, 3)
	rep.Bounds["fsbinlog_items"] = len(items)
	rep.Bounds["fsbinlog_deviation_bound"] = bound
	st := basictl.VerifC14Run(rep, items, bound, true)
	basictl.VerifC14Report(rep, "tl_fsbinlog", st, bound)
	rep.AddCounts(0, 0, st.Values, st.Nontrivial)
	if err := rep.Write(); err != nil {
		t.Fatal(err)
	}
	t.Logf("C14 fsbinlog: items=%d executions=%d violations=%d", st.Items, st.Executions, len(st.Violations))
}
