//go:build verif

package fsbinlog

// C18, continuation family: the history goes on after the damage.
//
// The damage enumeration of verif_c18_test.go truncates the newest file at every byte and REPLAYS the result
// with a read-only reader. A production binlog that lost its tail in a crash is not only read: the engine is
// started on it again as a WRITING master, accepts new events behind whatever the crash left, and is replayed
// again later. So for every truncation point of every damaged log:
//
//   1. a writing master (Run without ReadAndExit) is started on the truncated files. It may refuse to write
//      (Run returns before ChangeRole(ready master)) - that is safe, nothing was acknowledged, and the
//      statement does not demand that a damaged log is writable;
//   2. if it accepts: its own replay must obey the truncation clause (complete events only), then every
//      sequence of 1..L new payloads over the size alphabet is appended (for L = 2 in one write buffer and in two),
//      each new payload carrying a sequence number no event of the original log had (a lost event and a new one
//      of the same size are different byte strings), commits are awaited, the master shuts down;
//   3. the files are replayed from 0 and resumed from every commit notification of the restarted master.
//
// Oracle = the statement's first clause for the continued history: the replay delivers exactly the events the
// restarted master itself replayed, followed by the events it acknowledged (Append returned without error and a
// commit covering them was notified), in order, each at the engine offset Append returned for it, with the
// appended bytes, ends at the last returned offset without error, and every Apply payload is a prefix of the
// file bytes at that position. Events appended but not covered by a commit (only when the writer loop failed)
// may or may not be delivered, in order.

import (
	"fmt"
	"path"
	"runtime/debug"
	"time"

	"github.com/myxo/gofs"

	"github.com/VKCOM/statshouse/internal/vkgo/binlog"
)

type c18Ref struct {
	Seq, Idx int
	Off, End int64
}

type c18Cont struct {
	Accepted  bool
	Refuse    string // why Run ended before the writer became ready
	ReaderGot []c18Got
	ReaderPos int64
	New       []c18Ref // appends the restarted master acknowledged; End = the offset Append returned
	AppendErr string
	Committed int64 // highest offset the writer of this session notified
	Commits   []c18Commit
	RunErr    error
	mem       *gofs.InMemoryFS
	dir       string
	Execs     int64
	Calls     int64
}

// c18Continue starts a writing master on the given files and appends sizes (indexes into c18Sizes) with sequence
// numbers seqBase.. ; oneBatch: all of them in one write buffer (last one ASAP), otherwise one buffer each.
func c18Continue(im *c18Image, chunk uint32, seqBase int, sizes []int, oneBatch bool) *c18Cont {
	c := &c18Cont{Committed: -1}
	mem := gofs.NewThreadSafeMemoryFs()
	dir := mem.TempDir()
	c.mem, c.dir = mem, dir
	for _, f := range im.Files {
		if err := mem.WriteFile(path.Join(dir, f.Name), f.Data, 0640); err != nil {
			panic(c18Infra("WriteFile: " + err.Error()))
		}
	}
	bl, err := NewFsBinlog(&binlog.EmptyLogger{}, c18Opts(mem, dir, chunk))
	if err != nil {
		panic(c18Infra("NewFsBinlog: " + err.Error()))
	}
	eng := &c18Eng{pos: 0, park: true, sig: make(chan c18Sig), resume: make(chan struct{}), maxCalls: 100000}
	done := make(chan error, 1)
	go func() {
		defer func() {
			if r := recover(); r != nil {
				if inf, ok := r.(c18Infra); ok {
					done <- inf
					return
				}
				done <- fmt.Errorf("panic in Run: %v\n%s", r, debug.Stack())
			}
		}()
		done <- bl.Run(0, nil, nil, eng)
	}()
	c.Execs++
	wait := func() (c18Sig, error, bool) {
		select {
		case s := <-eng.sig:
			return s, nil, false
		case err := <-done:
			if inf, ok := err.(c18Infra); ok {
				panic(inf)
			}
			return c18Sig{}, err, true
		case <-time.After(c18Wait):
			panic(c18Infra("harness wait timed out: restarted writer neither committed nor exited"))
		}
	}
	finish := func() {
		c.Calls = int64(eng.steps)
		c.Commits = eng.commits
		for _, cm := range eng.commits {
			if cm.Writing && cm.Off > c.Committed {
				c.Committed = cm.Off
			}
		}
	}
	s, err, ended := wait()
	if ended {
		c.Refuse = fmt.Sprint(err)
		finish()
		return c
	}
	if !s.ready {
		panic(c18Infra("protocol: first signal of the restarted writer is not ChangeRole"))
	}
	c.Accepted = true
	c.ReaderGot = append([]c18Got{}, eng.got...)
	c.ReaderPos = eng.pos
	i := 0
	for i < len(sizes) && c.AppendErr == "" {
		end := i + 1
		if oneBatch {
			end = len(sizes)
		}
		target := int64(-1)
		for ; i < end; i++ {
			payload := c18PayloadTab[seqBase+i][sizes[i]]
			var ret int64
			var err error
			if i == end-1 {
				ret, err = bl.AppendASAP(eng.pos, payload)
			} else {
				ret, err = bl.Append(eng.pos, payload)
			}
			if err != nil {
				c.AppendErr = fmt.Sprintf("Append of new event #%d at %d: %v", i, eng.pos, err)
				break
			}
			c.New = append(c.New, c18Ref{Seq: seqBase + i, Idx: sizes[i], Off: eng.pos, End: ret})
			eng.pos = ret
			target = ret
		}
		if target < 0 {
			break
		}
		eng.resume <- struct{}{} // release the writer: it takes the whole batch
		for {
			s, err, ended := wait()
			if ended {
				c.RunErr = err
				if err == nil {
					c.RunErr = fmt.Errorf("Run returned without shutdown request")
				}
				finish()
				return c
			}
			if s.off >= target {
				break
			}
			eng.resume <- struct{}{}
		}
	}
	bl.RequestShutdown()
	eng.resume <- struct{}{}
	for {
		_, err, ended := wait()
		if ended {
			c.RunErr = err
			break
		}
		eng.resume <- struct{}{}
	}
	finish()
	return c
}

// c18CheckRefs: got must be want[:k] for some must <= k <= len(want), element by element.
func c18CheckRefs(got []c18Got, want []c18Ref, old, must int) string {
	name := func(k int) string {
		if k < old {
			return fmt.Sprintf("event #%d of the truncated log", k)
		}
		return fmt.Sprintf("new event #%d (acknowledged by the restarted master at offset %d)", k-old, want[k].Off)
	}
	for k, g := range got {
		if k >= len(want) {
			return fmt.Sprintf("extra delivery #%d: seq=%d size=%d at engine offset %d; only %d events exist (%d replayed by the restarted master + %d it acknowledged)",
				k, g.Seq, c18Sizes[g.Idx], g.Off, len(want), old, len(want)-old)
		}
		x := want[k]
		if g.Seq != x.Seq || g.Idx != x.Idx {
			return fmt.Sprintf("delivery #%d is an event nobody appended there: seq=%d size=%d at engine offset %d, expected %s seq=%d size=%d",
				k, g.Seq, c18Sizes[g.Idx], g.Off, name(k), x.Seq, c18Sizes[x.Idx])
		}
		if g.Off != x.Off {
			return fmt.Sprintf("%s delivered at engine offset %d, not at %d", name(k), g.Off, x.Off)
		}
		if !g.BodyOK {
			return fmt.Sprintf("%s delivered with bytes different from the appended payload", name(k))
		}
	}
	if len(got) < must {
		return fmt.Sprintf("%s (size %d) was never delivered: replay delivered %d of %d events", name(len(got)), c18Sizes[want[len(got)].Idx], len(got), must)
	}
	return ""
}

// c18ContSeqs: the continuations, shortest first.
type c18ContSeq struct {
	sizes    []int
	oneBatch bool
}

func c18ContSeqs(maxLen int) []c18ContSeq {
	var out []c18ContSeq
	for _, seq := range c18Seqs([]int{0, 1, 2, 3}, 1, maxLen) {
		out = append(out, c18ContSeq{seq, true})
	}
	for _, seq := range c18Seqs([]int{0, 1, 2, 3}, 2, maxLen) {
		out = append(out, c18ContSeq{seq, false})
	}
	return out
}

// continueAfter explores the continuations of one damaged log (tim). must/may are the truncation clause's
// bounds for the events of the original log (see damage). Returns whether a violation was reported.
func (c *c18Ctx) continueAfter(w *c18Written, tim *c18Image, what string, extra map[string]any, must, may int64, outcomes map[string]struct{}) bool {
	n := len(w.H.Sizes)
	for ci, cs := range c.contSeqs {
		ct := c18Continue(tim, w.H.Chunk, n, cs.sizes, cs.oneBatch)
		c.execs.Add(ct.Execs)
		c.trans.Add(ct.Calls)
		if !ct.Accepted {
			// the reader phase and the writer's start-up do not depend on what would be appended
			c.contRefused.Add(1)
			outcomes["continue/refused"] = struct{}{}
			return false
		}
		if ci == 0 {
			c.contPoints.Add(1)
		}
		c.conts.Add(1)
		var sz []string
		for _, s := range cs.sizes {
			sz = append(sz, fmt.Sprint(c18Sizes[s]))
		}
		how := "one write buffer each"
		if cs.oneBatch && len(cs.sizes) > 1 {
			how = "one write buffer"
		}
		what2 := fmt.Sprintf("%s; a master restarted on it accepted writes at offset %d; new payloads %v appended (%s)", what, ct.ReaderPos, sz, how)
		det := map[string]any{"new_sizes": sz, "one_write_buffer": cs.oneBatch, "restarted_master_position": ct.ReaderPos,
			"acknowledged": fmt.Sprint(ct.New), "append_error": ct.AppendErr, "run_error": fmt.Sprint(ct.RunErr), "highest_commit": ct.Committed}
		for k, v := range extra {
			det[k] = v
		}
		bad := false
		report := func(sig, desc string) {
			bad = true
			c.report(w, sig, desc, det)
		}
		if d := c18CheckDelivered(ct.ReaderGot, w, n, 0, must, may); d != "" {
			report("C18:restart-after-truncation-replay-mismatch", what+": replay of the restarted master: "+d)
		}
		want := make([]c18Ref, 0, len(ct.ReaderGot)+len(ct.New))
		for _, g := range ct.ReaderGot {
			want = append(want, c18Ref{Seq: g.Seq, Idx: g.Idx, Off: g.Off})
		}
		old := len(want)
		mustN := old
		for _, r := range ct.New {
			want = append(want, r)
			if r.End <= ct.Committed {
				mustN = len(want)
			}
		}
		endOff := ct.ReaderPos
		if len(ct.New) > 0 {
			endOff = ct.New[len(ct.New)-1].End
		}
		out := "ok"
		switch {
		case ct.RunErr != nil:
			out = "writer-failed"
			c.contWFail.Add(1)
		case ct.AppendErr != "":
			out = "append-refused"
			c.contARef.Add(1)
		}
		img, _ := c18ReadImage(ct.mem, ct.dir) // nil when a file has no readable header: the foreign-bytes clause is skipped then
		r := &c18Replayer{mem: ct.mem, dir: ct.dir, im: img}
		r.opts = c18Opts(ct.mem, ct.dir, w.H.Chunk)
		r.opts.ReadAndExit = true
		check := func(kind string, from int64, meta []byte) {
			res := r.run(from, meta, img)
			c.execs.Add(1)
			c.trans.Add(int64(res.Calls))
			where := fmt.Sprintf("%s; %s from offset %d", what2, kind, from)
			var wantFrom []c18Ref
			oldFrom, mustFrom := 0, 0
			for k, x := range want {
				if x.Off < from {
					continue
				}
				wantFrom = append(wantFrom, x)
				if k < old {
					oldFrom++
				}
				if k < mustN {
					mustFrom++
				}
			}
			switch {
			case res.Panic != "":
				report("C18:append-after-truncation-"+kind+"-panics", where+" panics: "+res.Panic)
			case res.Err != nil:
				d := c18CheckRefs(res.Got, wantFrom, oldFrom, mustFrom)
				if d == "" {
					d = "all events were delivered before the error"
				}
				report("C18:append-after-truncation-"+kind+"-fails", where+" fails: "+res.Err.Error()+" ("+d+")")
			default:
				if d := c18CheckRefs(res.Got, wantFrom, oldFrom, mustFrom); d != "" {
					report("C18:append-after-truncation-"+kind+"-mismatch", where+": "+d)
				} else if len(res.Got) == len(wantFrom) && res.Pos != endOff && ct.RunErr == nil {
					report("C18:append-after-truncation-"+kind+"-end-offset", fmt.Sprintf("%s ends at engine offset %d, the restarted master's last returned offset is %d", where, res.Pos, endOff))
				} else if res.BadPay != "" {
					report("C18:append-after-truncation-"+kind+"-foreign-bytes", where+": "+res.BadPay)
				}
			}
		}
		check("replay", 0, nil)
		seen := map[string]bool{}
		for _, cm := range ct.Commits {
			if cm.Off < ct.ReaderPos {
				continue // reader-side notifications of the old part: resumes of the old part are the base family's business
			}
			mk := cm.Meta
			if len(mk) >= 20 {
				mk = mk[:20] // without the wall-clock CommitTs field, see writeAndReplay
			}
			k := fmt.Sprintf("%d/%x", cm.Off, mk)
			if seen[k] {
				continue
			}
			seen[k] = true
			check("resume", cm.Off, cm.Meta)
		}
		if bad {
			outcomes["continue/accepted/VIOLATION"] = struct{}{}
			return true
		}
		outcomes["continue/accepted/"+out] = struct{}{}
	}
	return false
}
