//go:build verif

package fsbinlog

// C18, concurrent part: appends racing with the writer loop and with a requested shutdown.
//
// The sequential part (verif_c18_test.go) owns the batching: the writer goroutine is parked in an engine
// callback whenever the harness appends, so an Append never runs *between two statements* of
// binlogWriter.loop. The clause "replay delivers exactly the appended events, each at the offset the writer
// returned" also quantifies over histories in which the engine appends while the writer goroutine is anywhere
// in its loop - in particular while it is on its way out after RequestShutdown. That is a fault family of its
// own (an acknowledged Append that no replaceBuff() ever takes: buffered, offset returned, err == nil, never
// written), and it lives entirely in the ordering of two goroutines.
//
// Here the real fsBinlog.Run (reader phase, setupWriterWorker, binlogWriter.loop, writeBuffer, rotate), the real
// Append/AppendASAP/putLevToBuffer/buffExchange and the real RequestShutdown run as threads of the controlled
// scheduler (engine vsched; writer.go, buffer_exchange.go, binlog.go and reader.go are instrumented by
// tools/vinstr: modelled mutexes and Once, scheduler-owned selects, virtual time incl. the 500 ms flush timer and
// the write-call delay) over the in-memory gofs file system:
//
//	writer    bl.Run(0, nil, nil, engine)                              (the code's own writer goroutine)
//	appender  waits for ChangeRole(ready master), then 2-3 Append / AppendASAP calls, one after the other,
//	          each on the offset the previous one returned (the engine protocol)
//	stopper   optionally sleeps one flush interval (so that the flush timer and the stop race), RequestShutdown
//
// For every scenario of the family every execution with at most B deviations from the default schedule
// (delay bounding: running another thread than the default one, a due timer before a runnable thread, a
// non-source-order select probe) is run. When all threads have finished, the files are replayed by the real
// reader (from 0, and from every commit notification of the writer with its meta) and compared with what the
// appender was told:
//
//	every Append that returned (offset, nil) is delivered, in order, at the offset it was made on, with its
//	bytes - unless the engine was told to Revert to a position at or before it; nothing else is delivered;
//	replay ends at the last returned offset; commit notifications are monotone and never exceed the bytes
//	written before the last fsync; Run returns nil after a requested shutdown; every thread finishes.
//
// A refused Append (any error) is never required to be in the log - and must not be.

import (
	"fmt"
	"os"
	"runtime"
	"strings"
	"sync"
	"testing"
	"time"

	"github.com/myxo/gofs"

	"github.com/VKCOM/statshouse/internal/verif/mc"
	"github.com/VKCOM/statshouse/internal/verif/vsched"
	"github.com/VKCOM/statshouse/internal/verif/vsync"
	"github.com/VKCOM/statshouse/internal/vkgo/binlog"
)

type c18sAppend struct {
	Size int  // index into c18Sizes
	ASAP bool // AppendASAP
}

type c18sScenario struct {
	Name      string
	Chunk     uint32
	Appends   []c18sAppend
	Delay     time.Duration // Options.WriteCallDelay (0, or the production default of 1 ms)
	StopAfter time.Duration // virtual sleep of the stopper before RequestShutdown
	PauseLast time.Duration // virtual sleep of the appender before its last append
}

func (sc c18sScenario) String() string {
	var a []string
	for _, p := range sc.Appends {
		s := fmt.Sprint(c18Sizes[p.Size])
		if p.ASAP {
			s += "!"
		}
		a = append(a, s)
	}
	return fmt.Sprintf("chunk=%d appends=[%s] write_call_delay=%s stop_after=%s pause_before_last_append=%s", sc.Chunk, strings.Join(a, " "), sc.Delay, sc.StopAfter, sc.PauseLast)
}

// c18sScenarios: payload sequences over {4,18,257} bytes x ASAP/lazy patterns, MaxChunkSize 200 (a 257-byte
// payload rotates the file inside the write buffer) and 512, with and without the production write-call delay,
// stop requested at once or after one flush interval, the last append made at once or after one flush interval
// (then the flush timer, the stop and the last append are due at the same virtual instant and race).
func c18sScenarios(wide bool) []c18sScenario {
	var out []c18sScenario
	type pat struct {
		sizes []int
		asap  []bool
	}
	T, F := true, false
	// core family: six payload/ASAP patterns, each with two (write-call delay, timers) combinations; patterns with a
	// 257-byte payload run with MaxChunkSize 200 (rotation), the others with 512
	pats := []pat{
		{[]int{0, 1}, []bool{T, T}},
		{[]int{0, 1}, []bool{F, F}},
		{[]int{0, 1, 0}, []bool{T, T, T}},
		{[]int{1, 0, 1}, []bool{F, F, F}},
		{[]int{0, 3, 1}, []bool{T, F, T}},
		{[]int{3, 0, 3}, []bool{F, T, F}},
	}
	if wide {
		// wide family (thorough tier): every sequence of 2-3 payloads over {4,257} bytes x every ASAP/lazy pattern x
		// both MaxChunkSize values x both delays x all four timer combinations
		pats = nil
		for _, seq := range c18Seqs([]int{0, 3}, 2, 3) {
			for m := 0; m < 1<<len(seq); m++ {
				p := pat{sizes: seq}
				for i := range seq {
					p.asap = append(p.asap, m>>i&1 == 1)
				}
				pats = append(pats, p)
			}
		}
	}
	for pi, p := range pats {
		for _, chunk := range []uint32{200, 512} {
			for di, delay := range []time.Duration{0, defaultWriteCallDelay} {
				for ti, tm := range [][2]time.Duration{{0, 0}, {flushInterval, flushInterval}, {flushInterval, 0}, {0, flushInterval}} {
					after, pause := tm[0], tm[1]
					if !wide {
						if after != pause {
							continue
						}
						// two of the four (delay, timers) combinations per pattern, alternating between patterns:
						// even patterns (0, at once) and (1ms, after 500ms), odd patterns (1ms, at once) and (0, after 500ms)
						if (di+ti+pi)%2 != 0 {
							continue
						}
						big := false
						for _, s := range p.sizes {
							big = big || s == 3
						}
						if (chunk == 200) != big {
							continue
						}
					}
					sc := c18sScenario{Chunk: chunk, Delay: delay, StopAfter: after, PauseLast: pause}
					for i := range p.sizes {
						sc.Appends = append(sc.Appends, c18sAppend{Size: p.sizes[i], ASAP: p.asap[i]})
					}
					sc.Name = sc.String()
					out = append(out, sc)
				}
			}
		}
	}
	return out
}

// ---------------------------------------------------------------------------------------------------
// engine of the concurrent part: callbacks run on the writer thread; Commit and ChangeRole are scheduling
// points (an engine does work there: the code under test may not assume they are instantaneous)

type c18sEng struct {
	pos      int64 // reader-phase position (Apply/Skip)
	ready    bool  // ChangeRole(ready master) was delivered
	runDone  bool
	commits  []c18Commit
	reverts  []int64
	rec      *c18RecFS
	dir      string
	log      *[]string
	unknown  int
}

func (e *c18sEng) Apply(payload []byte) (int64, error) {
	// the log is empty before the session: nothing to apply; count and consume to stay live
	e.unknown++
	e.pos += int64(c18Pad(len(payload)))
	return e.pos, nil
}

func (e *c18sEng) Skip(n int64) (int64, error) {
	e.pos += n
	return e.pos, nil
}

func (e *c18sEng) Commit(off int64, meta []byte, safe int64) error {
	c := c18Commit{Off: off, Meta: append([]byte{}, meta...), Writing: e.ready}
	c.Written, c.Durable = c18Durable(e.rec.observe(e.dir))
	e.commits = append(e.commits, c)
	*e.log = append(*e.log, fmt.Sprintf("writer: Commit(%d) durable=%d written=%d", off, c.Durable, c.Written))
	vsched.Point("engine.Commit")
	return nil
}

func (e *c18sEng) Revert(pos int64) (bool, error) {
	e.reverts = append(e.reverts, pos)
	*e.log = append(*e.log, fmt.Sprintf("writer: Revert(%d)", pos))
	return true, nil
}

func (e *c18sEng) ChangeRole(info binlog.ChangeRoleInfo) error {
	*e.log = append(*e.log, fmt.Sprintf("writer: ChangeRole(master=%v ready=%v)", info.IsMaster, info.IsReady))
	if info.IsReadyMaster() {
		e.ready = true
	}
	vsched.Point("engine.ChangeRole")
	return nil
}
func (e *c18sEng) StartReindex(binlog.ReindexOperator) {}
func (e *c18sEng) Split(int64, string) bool            { return false }
func (e *c18sEng) Shutdown()                           {}

type c18sAck struct {
	Seq, Idx int
	Off, Ret int64
	Err      string
}

type c18sInfra string

func (c c18sInfra) MCInfra() string { return string(c) }
func (c c18sInfra) Error() string   { return string(c) }

type c18sStats struct {
	mu                                          sync.Mutex
	replays, refusedStop, refusedEarly, lostAck int64
	allAcked, someRefused, noneAcked            int64
	keys                                        map[string]int // VERIF_C18S_DUMP=1: distinct end states with the number of schedules reaching them
}

// c18sBlock parks the calling controlled thread until cond holds (evaluated by the scheduler at quiescence).
func c18sBlock(label string, cond func() bool) {
	if t := vsched.Self(); t != nil {
		t.Block(&vsched.Op{Label: label, Enabled: cond})
		return
	}
	for !cond() { // free-running companion
		time.Sleep(20 * time.Microsecond)
	}
}

func c18sRunScenario(x *mc.Exec, sc c18sScenario, rep *mc.Report, stats *c18sStats) mc.Verdict {
	mem := gofs.NewThreadSafeMemoryFs()
	mem.TrackDirtyPages()
	dir := mem.TempDir()
	rec := &c18RecFS{FS: mem, mem: mem, seen: map[string]c18FileObs{}}
	opts := c18Opts(rec, dir, sc.Chunk)
	delay := sc.Delay
	opts.WriteCallDelay = &delay
	if _, err := CreateEmptyFsBinlog(opts); err != nil {
		panic(c18sInfra("CreateEmptyFsBinlog: " + err.Error()))
	}
	blI, err := NewFsBinlog(&binlog.EmptyLogger{}, opts)
	if err != nil {
		panic(c18sInfra("NewFsBinlog: " + err.Error()))
	}
	bl := blI.(*fsBinlog)
	var log []string
	eng := &c18sEng{rec: rec, dir: dir, log: &log}
	// rotate() creates the next chunk through the FS interface: the only place inside writeBuffer where the harness
	// can put a scheduling point (gofs.File is a concrete type)
	rec.onCreate = func() { vsched.Point("fs: create next chunk (writer inside rotate)") }
	var runErr error
	var acks []c18sAck

	res := vsched.Run(x, vsched.Config{
		MaxSteps: 5000,
		Horizon:  10 * time.Second,
		Cleanup: func() {
			bl.RequestShutdown()
			if w := bl.writer; w != nil {
				select {
				case <-w.dataCh:
				default:
				}
			}
		},
	}, func() {
		var wg vsync.WaitGroup
		wg.Add(3)
		vsched.GoNamed("writer", false, func() {
			defer wg.Done()
			runErr = bl.Run(0, nil, nil, eng)
			eng.runDone = true
			log = append(log, fmt.Sprintf("writer: Run returned %v", runErr))
		})
		vsched.GoNamed("appender", false, func() {
			defer wg.Done()
			c18sBlock("engine waits for ChangeRole(ready master)", func() bool { return eng.ready || eng.runDone })
			pos := eng.pos
			for i, a := range sc.Appends {
				if sc.PauseLast > 0 && i == len(sc.Appends)-1 {
					if s, t := vsched.Active(), vsched.Self(); s != nil && t != nil {
						s.Sleep(t, sc.PauseLast)
					}
				}
				var ret int64
				var err error
				if a.ASAP {
					ret, err = bl.AppendASAP(pos, c18PayloadTab[i][a.Size])
				} else {
					ret, err = bl.Append(pos, c18PayloadTab[i][a.Size])
				}
				ack := c18sAck{Seq: i, Idx: a.Size, Off: pos, Ret: ret}
				if err != nil {
					ack.Err = err.Error()
					log = append(log, fmt.Sprintf("appender: Append #%d (%d bytes, asap=%v) on %d refused: %v", i, c18Sizes[a.Size], a.ASAP, pos, err))
				} else {
					log = append(log, fmt.Sprintf("appender: Append #%d (%d bytes, asap=%v) on %d acknowledged, next offset %d", i, c18Sizes[a.Size], a.ASAP, pos, ret))
					pos = ret
				}
				acks = append(acks, ack)
			}
		})
		vsched.GoNamed("stopper", false, func() {
			defer wg.Done()
			if sc.StopAfter > 0 {
				if s, t := vsched.Active(), vsched.Self(); s != nil && t != nil {
					s.Sleep(t, sc.StopAfter)
				}
			}
			vsched.Point("RequestShutdown")
			log = append(log, "stopper: RequestShutdown")
			bl.RequestShutdown()
		})
		wg.Wait()
	})
	detail := func(extra map[string]any) map[string]any {
		d := map[string]any{"scenario": sc.Name, "events": log, "acks": acks}
		var cm []string
		for _, c := range eng.commits {
			cm = append(cm, fmt.Sprintf("%d(durable %d, written %d, writer=%v)", c.Off, c.Durable, c.Written, c.Writing))
		}
		d["commits"] = cm
		for k, v := range extra {
			d[k] = v
		}
		return d
	}
	if res.Leaked > 0 && !vsched.NoteLeak(res.Leaked) {
		panic(c18sInfra(fmt.Sprintf("too many leaked goroutines (%d more in scenario %s)", res.Leaked, sc.Name)))
	}
	if res.Panic != nil {
		if inf, ok := res.Panic.(interface{ MCInfra() string }); ok {
			panic(c18sInfra(inf.MCInfra()))
		}
		return mc.Verdict{Violation: fmt.Sprintf("%s: panic in the code under test: %v", sc.Name, res.Panic), Sig: "C18:shutdown-race:panic", Detail: detail(map[string]any{"stack": res.PanicStack})}
	}
	if res.Deadlock || res.StepCap || res.Horizon {
		return mc.Verdict{Violation: fmt.Sprintf("%s: not every thread finishes (%s): %s", sc.Name, res.String(), strings.Join(log, " | ")),
			Sig: "C18:shutdown-race:thread-never-finishes", Detail: detail(map[string]any{"blocked": res.Blocked})}
	}
	return c18sJudge(sc, eng, runErr, acks, log, mem, dir, detail, rep, stats, x.Deviations() > 0)
}

func c18sJudge(sc c18sScenario, eng *c18sEng, runErr error, acks []c18sAck, log []string, mem *gofs.InMemoryFS, dir string,
	detail func(map[string]any) map[string]any, rep *mc.Report, stats *c18sStats, deviated bool) mc.Verdict {
	hist := strings.Join(log, " | ")
	if runErr != nil {
		return mc.Verdict{Violation: fmt.Sprintf("%s: Run returned an error on a fault-free file system: %v; history: %s", sc.Name, runErr, hist), Sig: "C18:shutdown-race:run-error", Detail: detail(nil)}
	}
	// commit clause
	prev := int64(-1)
	for ci, c := range eng.commits {
		if c.Off < prev {
			return mc.Verdict{Violation: fmt.Sprintf("%s: commit #%d notifies %d after %d; history: %s", sc.Name, ci, c.Off, prev, hist), Sig: "C18:shutdown-race:commit-not-monotone", Detail: detail(nil)}
		}
		prev = c.Off
		if c.Off > c.Durable {
			return mc.Verdict{Violation: fmt.Sprintf("%s: commit #%d notifies offset %d but only %d bytes were written before the last fsync (%d written); history: %s", sc.Name, ci, c.Off, c.Durable, c.Written, hist),
				Sig: "C18:shutdown-race:commit-beyond-fsync", Detail: detail(nil)}
		}
	}
	// what the appender was told
	revertTo := int64(1) << 62
	for _, r := range eng.reverts {
		if r < revertTo {
			revertTo = r
		}
	}
	var want []c18sAck
	end := int64(-1) // nothing acknowledged: where the replay of the (empty) log ends is the sequential part's business
	nRefStop, nRefEarly := 0, 0
	for _, a := range acks {
		if a.Err != "" {
			if strings.Contains(a.Err, errStopped.Error()) {
				nRefStop++
			} else {
				nRefEarly++
			}
			continue
		}
		if a.Ret < a.Off+int64(c18Pad(c18Sizes[a.Idx])) {
			return mc.Verdict{Violation: fmt.Sprintf("%s: Append #%d (%d bytes) on %d returned next offset %d; history: %s", sc.Name, a.Seq, c18Sizes[a.Idx], a.Off, a.Ret, hist), Sig: "C18:shutdown-race:append-offset", Detail: detail(nil)}
		}
		if a.Off >= revertTo {
			continue // explicitly reverted: the engine was told
		}
		want = append(want, a)
		end = a.Ret
	}
	im, err := c18ReadImage(mem, dir)
	if err != nil {
		return mc.Verdict{Violation: fmt.Sprintf("%s: cannot read the files after shutdown: %v; history: %s", sc.Name, err, hist), Sig: "C18:shutdown-race:final-image", Detail: detail(nil)}
	}
	r := c18NewReplayer(im, sc.Chunk)
	check := func(kind string, from int64, meta []byte) *mc.Verdict {
		rr := r.run(from, meta, im)
		stats.mu.Lock()
		stats.replays++
		stats.mu.Unlock()
		what := fmt.Sprintf("%s from offset %d", kind, from)
		fail := func(sig, msg string) *mc.Verdict {
			var fl []string
			for _, f := range im.Files {
				fl = append(fl, fmt.Sprintf("%s pos=%d size=%d", f.Name, f.Pos, len(f.Data)))
			}
			return &mc.Verdict{Violation: fmt.Sprintf("%s: after a clean shutdown (Run returned nil) %s: %s; history: %s", sc.Name, what, msg, hist), Sig: sig,
				Detail: detail(map[string]any{"replayed": rr.Got, "replay_end": rr.Pos, "files": fl})}
		}
		if rr.Panic != "" {
			return fail("C18:shutdown-race:replay-panic", "panics: "+rr.Panic)
		}
		if rr.Err != nil {
			return fail("C18:shutdown-race:"+kind+"-error", "fails: "+rr.Err.Error())
		}
		k := 0
		for _, a := range want {
			if a.Off < from {
				continue
			}
			if k >= len(rr.Got) {
				return fail("C18:shutdown-race:acknowledged-append-not-replayed", fmt.Sprintf("Append #%d (%d bytes) was acknowledged on offset %d (returned %d, err == nil) and never reverted, but replay delivers only %d events and ends at %d",
					a.Seq, c18Sizes[a.Idx], a.Off, a.Ret, len(rr.Got), rr.Pos))
			}
			g := rr.Got[k]
			if g.Seq != a.Seq || g.Idx != a.Idx {
				return fail("C18:shutdown-race:"+kind+"-mismatch", fmt.Sprintf("delivery #%d is event seq=%d size=%d, expected the acknowledged Append #%d size %d", k, g.Seq, c18Sizes[g.Idx], a.Seq, c18Sizes[a.Idx]))
			}
			if g.Off != a.Off {
				return fail("C18:shutdown-race:"+kind+"-offset", fmt.Sprintf("Append #%d delivered at engine offset %d, it was acknowledged on %d", a.Seq, g.Off, a.Off))
			}
			if !g.BodyOK {
				return fail("C18:shutdown-race:"+kind+"-bytes", fmt.Sprintf("Append #%d delivered with bytes different from the appended payload", a.Seq))
			}
			k++
		}
		if k < len(rr.Got) {
			g := rr.Got[k]
			return fail("C18:shutdown-race:unacknowledged-event-replayed", fmt.Sprintf("extra delivery #%d: seq=%d size=%d at engine offset %d; that Append was refused or reverted", k, g.Seq, c18Sizes[g.Idx], g.Off))
		}
		if end >= 0 && rr.Pos != end {
			return fail("C18:shutdown-race:"+kind+"-end-offset", fmt.Sprintf("ends at engine offset %d, the last acknowledged Append returned %d", rr.Pos, end))
		}
		if rr.BadPay != "" {
			return fail("C18:shutdown-race:"+kind+"-foreign-bytes", rr.BadPay)
		}
		return nil
	}
	if v := check("replay", 0, nil); v != nil {
		return *v
	}
	seen := map[string]bool{}
	for _, cm := range eng.commits {
		if !cm.Writing || cm.Off > revertTo {
			continue
		}
		mk := cm.Meta
		if len(mk) >= 20 {
			mk = mk[:20] // without the wall-clock CommitTs field (see verif_c18_test.go)
		}
		k := fmt.Sprintf("%d/%x", cm.Off, mk)
		if seen[k] {
			continue
		}
		seen[k] = true
		if v := check("resume", cm.Off, cm.Meta); v != nil {
			return *v
		}
	}
	// outcome bookkeeping
	var pat []string
	for _, a := range acks {
		switch {
		case a.Err == "":
			pat = append(pat, "ack")
		case strings.Contains(a.Err, errStopped.Error()):
			pat = append(pat, "stopped")
		default:
			pat = append(pat, "early")
		}
	}
	var cms []string
	for _, c := range eng.commits {
		if c.Writing {
			cms = append(cms, fmt.Sprint(c.Off))
		}
	}
	key := fmt.Sprintf("%s|%s|commits=%s|files=%d", sc.Name, strings.Join(pat, ","), strings.Join(cms, ","), len(im.Files))
	rep.State(key)
	if stats.keys != nil {
		stats.keys[key]++
	}
	rep.Outcome(fmt.Sprintf("%s|files=%d|ncommits=%d", strings.Join(pat, ","), len(im.Files), len(cms)))
	stats.mu.Lock()
	stats.refusedStop += int64(nRefStop)
	stats.refusedEarly += int64(nRefEarly)
	switch {
	case len(want) == len(acks):
		stats.allAcked++
	case len(want) == 0:
		stats.noneAcked++
	default:
		stats.someRefused++
	}
	stats.mu.Unlock()
	if len(want) > 0 && len(want) < len(acks) {
		// the shutdown cut the append sequence in the middle: the executions the family exists for
		rep.Nontrivial(key)
		if deviated {
			rep.Sample(map[string]any{"scenario": sc.Name, "events": log})
		}
	}
	return mc.Verdict{}
}

func TestVerifC18Sched(t *testing.T) {
	rep := mc.NewReport("C18")
	// performance only, as in TestVerifC18: every execution allocates ~1.2 MiB of zeroed buffers (two 512 KiB write
	// buffers, 64 KiB read buffers) while the live heap is tiny
	ballast := make([]byte, 128<<20)
	defer runtime.KeepAlive(ballast)
	if os.Getenv("VERIF_FREERUN") == "1" {
		c18sFreeRun(t, rep)
		return
	}
	type c18sGroup struct {
		name  string
		scs   []c18sScenario
		bound int
	}
	groups := []c18sGroup{{"shutdown_race", c18sScenarios(false), mc.Pick(2, 3)}}
	if mc.Thorough() {
		groups = append(groups, c18sGroup{"shutdown_race_wide", c18sScenarios(true), 2})
	}
	for gi := range groups {
		if only := os.Getenv("VERIF_C18S_ONLY"); only != "" {
			var f []c18sScenario
			for _, sc := range groups[gi].scs {
				if strings.Contains(sc.Name, only) {
					f = append(f, sc)
				}
			}
			groups[gi].scs = f
		}
		if s := os.Getenv("VERIF_C18S_BOUND"); s != "" {
			fmt.Sscan(s, &groups[gi].bound)
		}
	}
	rep.Bounds["shutdown_race_deviation_bound"] = groups[0].bound
	rep.Bounds["shutdown_race_scenarios"] = len(groups[0].scs)
	rep.Bounds["shutdown_race_threads"] = "writer (fsBinlog.Run), appender (2-3 Append/AppendASAP calls after ChangeRole(ready master)), stopper (RequestShutdown at once / after one flush interval); the last append at once / after one flush interval"
	rep.Bounds["shutdown_race_family"] = "6 payload/ASAP patterns over sizes {4,18,257}, MaxChunkSize 200 (patterns with a 257-byte payload: rotation inside the write buffer) or 512, each with two of the four combinations WriteCallDelay {0, 1ms} x (stop, last append) {both at once, both after 500ms = one flush interval}"
	if mc.Thorough() {
		rep.Bounds["shutdown_race_wide_family"] = fmt.Sprintf("%d scenarios at deviation bound 2: every sequence of 2-3 payloads over sizes {4,257} x every ASAP/lazy pattern x MaxChunkSize {200,512} x WriteCallDelay {0,1ms} x stop {at once, after 500ms} x last append {at once, after 500ms}", len(groups[1].scs))
	}
	rep.Rule = "concurrent part: a case = one schedule (at most B deviations from the deterministic default schedule: another thread than the default one, a due timer before a runnable thread, a non-source-order select probe) of the real Run / Append / RequestShutdown as threads of the controlled scheduler, followed by replays of the resulting files with the real reader (from 0 and from every writer commit); non-trivial = the shutdown cut the append sequence (some appends acknowledged, later ones refused)"
	rep.Assume("concurrent part: scheduling points are the modelled mutex/Once operations, channel operations and selects of writer.go, buffer_exchange.go, binlog.go, reader.go (vinstr), the engine's Commit/ChangeRole callbacks and the creation of the next chunk inside rotate(); file writes and fsyncs of gofs are atomic steps of the writer thread; one appender (the engine serialises its appends), default HardMemLimit (no back pressure)")
	shard, shards := mc.ShardFromEnv()
	stats := &c18sStats{}
	if os.Getenv("VERIF_C18S_DUMP") != "" {
		stats.keys = map[string]int{}
	}
	var st mc.Stats
	for _, g := range groups {
		g := g
		if len(g.scs) == 0 {
			continue
		}
		body := func(x *mc.Exec) mc.Verdict {
			si := x.ChooseFree(len(g.scs), "scenario")
			return c18sRunScenario(x, g.scs[si], rep, stats)
		}
		st = mc.Explore(body, mc.Options{Bound: g.bound, Workers: 1, SplitDepth: 3, Shard: shard, Shards: shards})
		rep.MergeExplore(g.name, st)
	}
	rep.Parts["shutdown_race_outcomes"] = map[string]any{"replays": stats.replays, "appends_refused_already_stopped": stats.refusedStop, "appends_refused_writer_not_initialized": stats.refusedEarly,
		"executions_all_appends_acknowledged": stats.allAcked, "executions_shutdown_cut_the_append_sequence": stats.someRefused, "executions_no_append_acknowledged": stats.noneAcked}
	if err := rep.Write(); err != nil {
		t.Fatal(err)
	}
	for k, n := range stats.keys {
		t.Logf("state %6d x %s", n, k)
	}
	t.Logf("C18 shutdown race: %+v", st)
}

// c18sFreeRun: free-running companion (real goroutines, no scheduler) of the same thread bodies, for a manual
// -race run that guards the granularity assumption of the controlled scheduler.
func c18sFreeRun(t *testing.T, rep *mc.Report) {
	stats := &c18sStats{}
	n := 0
	for _, sc := range c18sScenarios(false) {
		if sc.StopAfter > 0 || sc.PauseLast > 0 {
			continue
		}
		for it := 0; it < 50; it++ {
			v := c18sFreeOne(sc, rep, stats)
			if v.Violation != "" {
				rep.Violate(v.Sig, "free-running: "+v.Violation, v.Detail)
			}
			n++
		}
	}
	rep.AddCounts(int64(n), int64(n), 1, 0)
	rep.Rule = "free-running -race companion"
	rep.Sample("free-running executions of every quick scenario x50")
	rep.Write()
}

func c18sFreeOne(sc c18sScenario, rep *mc.Report, stats *c18sStats) mc.Verdict {
	mem := gofs.NewThreadSafeMemoryFs()
	mem.TrackDirtyPages()
	dir := mem.TempDir()
	rec := &c18RecFS{FS: mem, mem: mem, seen: map[string]c18FileObs{}}
	opts := c18Opts(rec, dir, sc.Chunk)
	delay := sc.Delay
	opts.WriteCallDelay = &delay
	if _, err := CreateEmptyFsBinlog(opts); err != nil {
		panic(c18sInfra("CreateEmptyFsBinlog: " + err.Error()))
	}
	blI, _ := NewFsBinlog(&binlog.EmptyLogger{}, opts)
	bl := blI.(*fsBinlog)
	var log []string
	eng := &c18sFreeEng{}
	var runErr error
	var acks []c18sAck
	var wg sync.WaitGroup
	wg.Add(3)
	go func() {
		defer wg.Done()
		runErr = bl.Run(0, nil, nil, eng)
		eng.mu.Lock()
		eng.runDone = true
		eng.mu.Unlock()
	}()
	go func() {
		defer wg.Done()
		var pos int64
		for {
			eng.mu.Lock()
			ok := eng.ready || eng.runDone
			pos = eng.pos
			eng.mu.Unlock()
			if ok {
				break
			}
			time.Sleep(10 * time.Microsecond)
		}
		for i, a := range sc.Appends {
			var ret int64
			var err error
			if a.ASAP {
				ret, err = bl.AppendASAP(pos, c18PayloadTab[i][a.Size])
			} else {
				ret, err = bl.Append(pos, c18PayloadTab[i][a.Size])
			}
			ack := c18sAck{Seq: i, Idx: a.Size, Off: pos, Ret: ret}
			if err != nil {
				ack.Err = err.Error()
			} else {
				pos = ret
			}
			acks = append(acks, ack)
		}
	}()
	go func() {
		defer wg.Done()
		bl.RequestShutdown()
	}()
	wg.Wait()
	e2 := &c18sEng{pos: eng.pos, ready: eng.ready, runDone: true, log: &log}
	return c18sJudge(sc, e2, runErr, acks, log, mem, dir, func(m map[string]any) map[string]any { return m }, rep, stats, false)
}

type c18sFreeEng struct {
	mu      sync.Mutex
	pos     int64
	ready   bool
	runDone bool
}

func (e *c18sFreeEng) Apply(p []byte) (int64, error) {
	e.mu.Lock()
	defer e.mu.Unlock()
	e.pos += int64(c18Pad(len(p)))
	return e.pos, nil
}
func (e *c18sFreeEng) Skip(n int64) (int64, error) {
	e.mu.Lock()
	defer e.mu.Unlock()
	e.pos += n
	return e.pos, nil
}
func (e *c18sFreeEng) Commit(int64, []byte, int64) error { return nil }
func (e *c18sFreeEng) Revert(int64) (bool, error)       { return true, nil }
func (e *c18sFreeEng) ChangeRole(info binlog.ChangeRoleInfo) error {
	if info.IsReadyMaster() {
		e.mu.Lock()
		e.ready = true
		e.mu.Unlock()
	}
	return nil
}
func (e *c18sFreeEng) StartReindex(binlog.ReindexOperator) {}
func (e *c18sFreeEng) Split(int64, string) bool            { return false }
func (e *c18sFreeEng) Shutdown()                           {}
