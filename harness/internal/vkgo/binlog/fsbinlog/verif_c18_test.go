//go:build verif

package fsbinlog

// C18: fsbinlog replays exactly what was appended, across rotation and damage.
//
// Bounded exhaustive exploration of the real writer (putLevToBuffer / writer.loop / rotate) and the real
// reader (readAllFromPosition / readUncompressedFile / readAndUpdateCRCIfNeed) over the in-memory gofs
// file system:
//
//   - every sequence of 1..N payloads over the size alphabet, both MaxChunkSize values, every way of
//     cutting the sequence into write batches (a batch = events the writer goroutine takes in ONE buffer,
//     so several events and several rotations inside one writeBuffer call are covered), with and without
//     a final un-ASAP tail that is committed only by shutdown, and with a writer restart (from offset 0,
//     from the last commit with its snapshot meta, from the first commit of the session with its meta)
//     at every cut;
//   - on the final log: full replay, resume from EVERY commit notification with the meta it carried;
//   - truncation of the last file at EVERY byte; one bit flipped at EVERY byte of every file;
//   - after EVERY truncation the history continues (verif_c18_continue_test.go): a writing master is restarted on
//     the truncated files and, where it accepts writes, every short sequence of new payloads is appended and the
//     files are replayed again (exactly the old complete events + the acknowledged new ones, at their offsets);
//   - a second family with 64 KiB payloads, the only way to make the unchanged writer emit levCrc32
//     records (writeCrcEveryBytes is a 64 KiB constant), with the same damage enumeration.
//
// Determinism: the writer runs in its own goroutine. The harness never sleeps; it parks the writer
// goroutine inside the engine's own callbacks (ChangeRole(ready master), Commit) and appends a whole batch
// while it is parked, so batch boundaries, commit positions and file contents (except wall-clock
// timestamps and the random tag, which no oracle reads) are the same in every run.
//
// Recording FS: gofs.File is a concrete struct, so a wrapper cannot intercept File.Write/File.Sync. The
// harness wraps the gofs.FS interface (open/create/rename/remove/truncate/chmod are logged) and reads the
// memory FS's own write log (TrackDirtyPages: every write appends its byte interval to the inode, Sync
// clears the list) by reflection at every Commit callback, which the writer issues synchronously from the
// goroutine that does all the I/O.

import (
	"encoding/binary"
	"fmt"
	"os"
	"path"
	"reflect"
	"runtime"
	"runtime/debug"
	"sort"
	"strings"
	"sync"
	"sync/atomic"
	"testing"
	"time"

	"github.com/myxo/gofs"

	"github.com/VKCOM/statshouse/internal/verif/mc"
	"github.com/VKCOM/statshouse/internal/vkgo/binlog"
	"github.com/VKCOM/statshouse/internal/vkgo/binlog/fsbinlog/internal/gen/constants"
)

const (
	c18MagicBase  = uint32(0xC1800000)
	c18Schema     = uint32(0x00C18C18)
	c18BigIdx     = 4
	c18MaxSeq     = 16
	c18Prefix     = "c18log"
	c18CutSame    = 0 // next event joins the current write batch
	c18CutBatch   = 1 // current batch is handed to the writer (last event ASAP), commit awaited
	c18CutReopen0 = 2 // as 1, then shutdown and reopen reading from offset 0 without meta
	c18CutReopenL = 3 // as 1, then shutdown and reopen from the last commit with its meta
	c18CutReopenF = 4 // as 1, then shutdown and reopen from the first commit of the closed session with its meta
	c18CutDuring  = 5 // as 1, but the next batch is appended while the writer is in the middle of writing this one (parked in rotate's chunk creation); falls back to 1 when this batch does not rotate
)

// sizes are payload lengths handed to Append; 18 and 257 are not multiples of 4 so that padding is exercised
// (on disk they occupy 20 and 260 bytes, i.e. the alphabet {4,20,100,260}); index 4 is the 64 KiB payload.
var c18Sizes = [5]int{4, 18, 100, 257, 65536}

var c18PayloadTab [c18MaxSeq][5][]byte

func init() {
	for s := 0; s < c18MaxSeq; s++ {
		for k := range c18Sizes {
			n := c18Sizes[k]
			b := make([]byte, n)
			binary.LittleEndian.PutUint32(b, c18MagicBase|uint32(s)<<4|uint32(k))
			for i := 4; i < n; i++ {
				b[i] = byte(s*37 + i*11 + (i>>8)*3 + 5)
			}
			c18PayloadTab[s][k] = b
		}
	}
}

func c18Pad(n int) int { return (n + 3) &^ 3 }

// ---------------------------------------------------------------------------------------------------
// recording FS

type c18RecFS struct {
	gofs.FS
	mem *gofs.InMemoryFS
	mu  sync.Mutex
	log []string
	// per-file observation state for synthesising write/sync entries
	seen map[string]c18FileObs
	// onCreate is called (on the caller's goroutine) when a file is created exclusively: the writer's rotate()
	onCreate func()
}

type c18FileObs struct {
	size  int64
	dirty int
}

func (r *c18RecFS) add(s string) {
	r.mu.Lock()
	if len(r.log) < 400 {
		r.log = append(r.log, s)
	}
	r.mu.Unlock()
}

func (r *c18RecFS) OpenFile(name string, flag int, perm os.FileMode) (*gofs.File, error) {
	if flag&os.O_EXCL != 0 && r.onCreate != nil {
		r.onCreate()
	}
	f, err := r.FS.OpenFile(name, flag, perm)
	if flag&(os.O_WRONLY|os.O_RDWR|os.O_CREATE) != 0 {
		r.add(fmt.Sprintf("open %s flag=%#x err=%v", path.Base(name), flag, err))
	}
	return f, err
}
func (r *c18RecFS) Create(name string) (*gofs.File, error) {
	r.add("create " + path.Base(name))
	return r.FS.Create(name)
}
func (r *c18RecFS) Rename(o, n string) error {
	r.add("rename " + path.Base(o) + " " + path.Base(n))
	return r.FS.Rename(o, n)
}
func (r *c18RecFS) Remove(n string) error {
	r.add("remove " + path.Base(n))
	return r.FS.Remove(n)
}
func (r *c18RecFS) RemoveAll(n string) error {
	r.add("removeall " + path.Base(n))
	return r.FS.RemoveAll(n)
}
func (r *c18RecFS) Truncate(n string, size int64) error {
	r.add(fmt.Sprintf("truncate %s %d", path.Base(n), size))
	return r.FS.Truncate(n, size)
}
func (r *c18RecFS) Chmod(n string, m os.FileMode) error {
	r.add(fmt.Sprintf("chmod %s %o", path.Base(n), m))
	return r.FS.Chmod(n, m)
}
func (r *c18RecFS) WriteFile(n string, d []byte, p os.FileMode) error {
	r.add(fmt.Sprintf("writefile %s %d", path.Base(n), len(d)))
	return r.FS.WriteFile(n, d, p)
}

type c18Interval struct{ from, to int64 }

// c18Inode returns size and unsynced (dirty) byte intervals of an open memory-FS file by reading gofs's
// own bookkeeping (gofs.File.mockFile.data.{buff,dirtyPages}). Panics with an infra marker when the
// layout of gofs changed.
func c18Inode(f *gofs.File) (size int64, dirty []c18Interval) {
	defer func() {
		if r := recover(); r != nil {
			panic(c18Infra(fmt.Sprintf("gofs internals not as expected (reflection failed: %v)", r)))
		}
	}()
	mf := reflect.ValueOf(f).Elem().FieldByName("mockFile")
	data := mf.Elem().FieldByName("data").Elem()
	size = int64(data.FieldByName("buff").Len())
	dp := data.FieldByName("dirtyPages")
	for i := 0; i < dp.Len(); i++ {
		iv := dp.Index(i)
		dirty = append(dirty, c18Interval{iv.FieldByName("from").Int(), iv.FieldByName("to").Int()})
	}
	return size, dirty
}

type c18Infra string

func (c c18Infra) MCInfra() string { return string(c) }
func (c c18Infra) Error() string   { return string(c) }

type c18FileState struct {
	name   string
	pos    int64 // global position of byte 0 (-1 unknown)
	size   int64
	synced int64 // length of the prefix of the file not touched by any write since the last Sync
}

// observe returns the state of every binlog file, sorted by position, and appends synthesized
// write/sync entries to the log.
func (r *c18RecFS) observe(dir string) []c18FileState {
	ents, err := r.mem.ReadDir(dir)
	if err != nil {
		panic(c18Infra("ReadDir: " + err.Error()))
	}
	var out []c18FileState
	for _, e := range ents {
		if !strings.HasPrefix(e.Name(), c18Prefix) {
			continue
		}
		full := path.Join(dir, e.Name())
		f, err := r.mem.Open(full)
		if err != nil {
			panic(c18Infra("Open: " + err.Error()))
		}
		size, dirty := c18Inode(f)
		st := c18FileState{name: e.Name(), pos: -1, size: size, synced: size}
		for _, iv := range dirty {
			if iv.from < st.synced {
				st.synced = iv.from
			}
		}
		var hdr [36]byte
		n, _ := f.ReadAt(hdr[:], 0)
		_ = f.Close()
		if n >= 4 {
			switch binary.LittleEndian.Uint32(hdr[:]) {
			case constants.FsbinlogLevStart:
				st.pos = 0
			case magicLevRotateFrom:
				if n >= 16 {
					st.pos = int64(binary.LittleEndian.Uint64(hdr[8:]))
				}
			}
		}
		r.mu.Lock()
		prev := r.seen[e.Name()]
		if size != prev.size && len(r.log) < 400 {
			r.log = append(r.log, fmt.Sprintf("write %s [%d,%d)", e.Name(), prev.size, size))
		}
		if len(dirty) == 0 && (prev.dirty > 0 || size != prev.size) && len(r.log) < 400 {
			r.log = append(r.log, fmt.Sprintf("sync %s size=%d", e.Name(), size))
		}
		if len(dirty) > 0 && len(r.log) < 400 {
			r.log = append(r.log, fmt.Sprintf("unsynced %s from=%d", e.Name(), st.synced))
		}
		r.seen[e.Name()] = c18FileObs{size: size, dirty: len(dirty)}
		r.mu.Unlock()
		out = append(out, st)
	}
	key := func(p int64) int64 {
		if p < 0 {
			return 1 << 62 // files without a readable header go last: they end the contiguous chain
		}
		return p
	}
	sort.Slice(out, func(i, j int) bool { return key(out[i].pos) < key(out[j].pos) })
	return out
}

// c18Durable computes (bytes written, bytes written before the last fsync) as global log positions:
// the chain of files is walked in position order while it is contiguous.
func c18Durable(files []c18FileState) (written, durable int64) {
	cur := int64(0)
	durable = -1
	for _, f := range files {
		if f.pos != cur {
			break
		}
		if durable < 0 && f.synced < f.size {
			durable = cur + f.synced
		}
		cur += f.size
	}
	if durable < 0 {
		durable = cur
	}
	return cur, durable
}

// ---------------------------------------------------------------------------------------------------
// engine

type c18Got struct {
	Seq, Idx int
	Off      int64
	BodyOK   bool
}

type c18Commit struct {
	Off     int64
	Meta    []byte
	Written int64
	Durable int64
	Writing bool // issued by the writer (after ChangeRole ready master)
}

type c18Sig struct {
	ready    bool
	rotating bool
	off      int64
}

var errC18Abort = fmt.Errorf("c18: callback budget exhausted (replay does not terminate)")

type c18Eng struct {
	pos      int64
	got      []c18Got
	commits  []c18Commit
	calls    int
	steps    int // Apply+Skip callbacks only: Commit callbacks can also come from the code's 500 ms wall-clock timers
	maxCalls int
	aborted  bool
	// payload check: every Apply payload must be a prefix of the log bytes at the current position
	img        *c18Image
	badPayload string
	// write sessions
	park    bool
	writing bool
	sig     chan c18Sig
	resume  chan struct{}
	rec     *c18RecFS
	dir     string
}

func (e *c18Eng) tick() bool {
	e.calls++
	if e.maxCalls > 0 && e.calls > e.maxCalls {
		e.aborted = true
		return false
	}
	return true
}

func (e *c18Eng) Apply(payload []byte) (int64, error) {
	if !e.tick() {
		return e.pos, errC18Abort
	}
	e.steps++
	if len(payload) < 4 {
		return e.pos, binlog.ErrorNotEnoughData
	}
	m := binary.LittleEndian.Uint32(payload)
	if m&0xFFF00000 != c18MagicBase {
		return e.pos, binlog.ErrorUnknownMagic
	}
	seq, idx := int(m>>4)&0xFFFF, int(m&0xF)
	if idx >= len(c18Sizes) || seq >= c18MaxSeq {
		return e.pos, binlog.ErrorUnknownMagic
	}
	n := c18Sizes[idx]
	if len(payload) < n {
		return e.pos, binlog.ErrorNotEnoughData
	}
	if e.img != nil && e.badPayload == "" {
		want := e.img.at(e.pos, len(payload))
		if want == nil || string(want) != string(payload) {
			e.badPayload = fmt.Sprintf("Apply at engine position %d got %d bytes that are not the log bytes at that position", e.pos, len(payload))
		}
	}
	e.got = append(e.got, c18Got{Seq: seq, Idx: idx, Off: e.pos, BodyOK: string(payload[:n]) == string(c18PayloadTab[seq][idx])})
	e.pos += int64(c18Pad(n))
	return e.pos, nil
}

func (e *c18Eng) Skip(n int64) (int64, error) {
	if !e.tick() {
		return e.pos, errC18Abort
	}
	e.steps++
	e.pos += n
	return e.pos, nil
}

func (e *c18Eng) Commit(off int64, meta []byte, safe int64) error {
	if !e.tick() {
		return errC18Abort
	}
	c := c18Commit{Off: off, Meta: append([]byte{}, meta...), Written: -1, Durable: -1, Writing: e.writing}
	if e.rec != nil {
		c.Written, c.Durable = c18Durable(e.rec.observe(e.dir))
	}
	e.commits = append(e.commits, c)
	if e.park && e.writing {
		e.sig <- c18Sig{off: off}
		<-e.resume
	}
	return nil
}

func (e *c18Eng) Revert(int64) (bool, error) { return false, nil }
func (e *c18Eng) ChangeRole(info binlog.ChangeRoleInfo) error {
	if info.IsReadyMaster() && e.park {
		e.writing = true
		e.sig <- c18Sig{ready: true}
		<-e.resume
	}
	return nil
}
func (e *c18Eng) StartReindex(binlog.ReindexOperator) {}
func (e *c18Eng) Split(int64, string) bool            { return false }
func (e *c18Eng) Shutdown()                           {}

// ---------------------------------------------------------------------------------------------------
// log image

type c18File struct {
	Name string
	Pos  int64
	Data []byte
}

type c18Image struct{ Files []c18File }

func (im *c18Image) total() int64 {
	if len(im.Files) == 0 {
		return 0
	}
	l := im.Files[len(im.Files)-1]
	return l.Pos + int64(len(l.Data))
}

func (im *c18Image) at(pos int64, n int) []byte {
	for i := range im.Files {
		f := &im.Files[i]
		if pos >= f.Pos && pos+int64(n) <= f.Pos+int64(len(f.Data)) {
			return f.Data[pos-f.Pos : pos-f.Pos+int64(n)]
		}
	}
	return nil
}

func c18ReadImage(fs gofs.FS, dir string) (*c18Image, error) {
	ents, err := fs.ReadDir(dir)
	if err != nil {
		return nil, err
	}
	im := &c18Image{}
	for _, e := range ents {
		if !strings.HasPrefix(e.Name(), c18Prefix) {
			continue
		}
		d, err := fs.ReadFile(path.Join(dir, e.Name()))
		if err != nil {
			return nil, err
		}
		f := c18File{Name: e.Name(), Pos: -1, Data: append([]byte{}, d...)}
		if len(d) >= 4 {
			switch binary.LittleEndian.Uint32(d) {
			case constants.FsbinlogLevStart:
				f.Pos = 0
			case magicLevRotateFrom:
				if len(d) >= 16 {
					f.Pos = int64(binary.LittleEndian.Uint64(d[8:]))
				}
			}
		}
		if f.Pos < 0 {
			return nil, fmt.Errorf("file %s has no readable header", e.Name())
		}
		im.Files = append(im.Files, f)
	}
	sort.Slice(im.Files, func(i, j int) bool { return im.Files[i].Pos < im.Files[j].Pos })
	return im, nil
}

// ---------------------------------------------------------------------------------------------------
// history and write phase

type c18Hist struct {
	Chunk uint32
	Sizes []int // indexes into c18Sizes
	Cuts  []int // len(Sizes)-1 cut kinds
	Tail  bool  // last event appended without ASAP: committed only by shutdown
}

func (h c18Hist) String() string {
	var sz []string
	for i, s := range h.Sizes {
		sz = append(sz, fmt.Sprint(c18Sizes[s]))
		if i < len(h.Cuts) {
			sz = append(sz, []string{",", "|", "|R0|", "|RL|", "|RF|", "|+|"}[h.Cuts[i]])
		}
	}
	t := ""
	if h.Tail {
		t = " tail-not-asap"
	}
	return fmt.Sprintf("chunk=%d [%s]%s", h.Chunk, strings.Join(sz, ""), t)
}

type c18Viol struct{ Sig, Desc string }

type c18Written struct {
	H        c18Hist
	EvOff    []int64 // offset of event i = the position Append said the next event would get
	EvRet    []int64 // value returned by Append for event i
	FinalOff int64
	Commits  []c18Commit // every commit notification of every session, in order of arrival per session
	Image    *c18Image
	FSLog    []string
	Viol     []c18Viol
	Execs    int64 // executions of real code (sessions)
	Calls    int64 // engine callbacks
	Rotated  int
	During   int // batches appended while the writer was inside rotate()
}

func (w *c18Written) violate(sig, format string, a ...any) {
	if len(w.Viol) < 8 {
		w.Viol = append(w.Viol, c18Viol{Sig: "C18:" + sig, Desc: fmt.Sprintf(format, a...)})
	}
}

const c18Wait = 120 * time.Second

// c18CheckDelivered compares a replay with the reference: exactly the events at offset >= from whose padded
// extent ends at or before `must`, optionally those whose unpadded extent ends at or before `may`, in
// order, each at its offset, with intact bytes.
func c18CheckDelivered(got []c18Got, w *c18Written, n int, from, must, may int64) string {
	k := 0
	for i := 0; i < n; i++ {
		if w.EvOff[i] < from {
			continue
		}
		size := c18Sizes[w.H.Sizes[i]]
		endPadded := w.EvOff[i] + int64(c18Pad(size))
		endRaw := w.EvOff[i] + int64(size)
		if endPadded > must {
			if endRaw <= may && k < len(got) && got[k].Seq == i {
				// complete payload, incomplete padding: the statement leaves it open whether this counts as complete
			} else {
				break
			}
		}
		if k >= len(got) {
			return fmt.Sprintf("event #%d (size %d, offset %d) was not delivered (replay delivered %d events)", i, size, w.EvOff[i], len(got))
		}
		g := got[k]
		if g.Seq != i || g.Idx != w.H.Sizes[i] {
			return fmt.Sprintf("delivery #%d is event seq=%d size=%d, expected event #%d size %d", k, g.Seq, c18Sizes[g.Idx], i, size)
		}
		if g.Off != w.EvOff[i] {
			return fmt.Sprintf("event #%d delivered at engine offset %d, Append had placed it at %d", i, g.Off, w.EvOff[i])
		}
		if !g.BodyOK {
			return fmt.Sprintf("event #%d delivered with bytes different from the appended payload", i)
		}
		k++
	}
	if k < len(got) {
		g := got[k]
		return fmt.Sprintf("extra delivery #%d: seq=%d size=%d at engine offset %d (only %d events expected)", k, g.Seq, c18Sizes[g.Idx], g.Off, k)
	}
	return ""
}

func c18Opts(fs gofs.FS, dir string, chunk uint32) Options {
	zero := time.Duration(0)
	return Options{PrefixPath: dir + "/" + c18Prefix, Magic: c18Schema, MaxChunkSize: chunk, Fs: fs, WriteCallDelay: &zero}
}

// c18Write runs the history on a fresh memory FS with the real writer and returns what was observed.
func c18Write(h c18Hist) *c18Written {
	w := &c18Written{H: h}
	mem := gofs.NewThreadSafeMemoryFs()
	mem.TrackDirtyPages()
	dir := mem.TempDir()
	rec := &c18RecFS{FS: mem, mem: mem, seen: map[string]c18FileObs{}}
	opts := c18Opts(rec, dir, h.Chunk)
	if _, err := CreateEmptyFsBinlog(opts); err != nil {
		panic(c18Infra("CreateEmptyFsBinlog: " + err.Error()))
	}
	n := len(h.Sizes)
	w.EvOff = make([]int64, n)
	w.EvRet = make([]int64, n)

	next := 0 // next event to append
	from, meta := int64(0), []byte(nil)
	for next < n {
		// ---- one writer session
		bl, err := NewFsBinlog(&binlog.EmptyLogger{}, opts)
		if err != nil {
			panic(c18Infra("NewFsBinlog: " + err.Error()))
		}
		eng := &c18Eng{pos: from, park: true, sig: make(chan c18Sig), resume: make(chan struct{}), rec: rec, dir: dir, maxCalls: 100000}
		rec.onCreate = func() {
			if eng.park && eng.writing {
				eng.sig <- c18Sig{rotating: true}
				<-eng.resume
			}
		}
		done := make(chan error, 1)
		go func() {
			defer func() {
				if r := recover(); r != nil {
					if inf, ok := r.(c18Infra); ok {
						done <- inf
						return
					}
					done <- fmt.Errorf("panic in Run: %v\n%s", r, debug.Stack())
				}
			}()
			done <- bl.Run(from, meta, nil, eng)
		}()
		w.Execs++
		wait := func() (c18Sig, error, bool) {
			select {
			case s := <-eng.sig:
				return s, nil, false
			case err := <-done:
				return c18Sig{}, err, true
			case <-time.After(c18Wait):
				panic(c18Infra("harness wait timed out: writer neither committed nor exited (" + h.String() + ")"))
			}
		}
		s, err, ended := wait()
		if ended {
			if inf, ok := err.(c18Infra); ok {
				panic(inf)
			}
			w.violate("run-error", "Run(from=%d) ended before the writer became ready: %v", from, err)
			w.Commits = append(w.Commits, eng.commits...)
			w.Calls += int64(eng.steps)
			return w
		}
		if !s.ready {
			panic(c18Infra("protocol: first signal is not ChangeRole"))
		}
		// the reader phase of this session must have delivered exactly the already appended suffix
		if d := c18CheckDelivered(eng.got, w, next, from, 1<<62, 1<<62); d != "" {
			w.violate("reopen-replay-mismatch", "reopening the writer from offset %d: %s", from, d)
		}
		if next > 0 && eng.pos != w.EvRet[next-1] {
			w.violate("reopen-position", "after reopening from %d the reader ended at %d, the writer had returned %d", from, eng.pos, w.EvRet[next-1])
			eng.pos = w.EvRet[next-1]
		}
		sessionEnd := -1 // cut kind that ends the session
		target := int64(-1)
		asapLast := true
		pendingDuring := false
		// appendBatch appends the next batch; the writer goroutine is parked (in a callback or in the FS hook) meanwhile
		appendBatch := func() {
			pendingDuring = false
			for {
				i := next
				last := i == n-1 || h.Cuts[i] != c18CutSame
				asap := last
				if i == n-1 && h.Tail {
					asap, asapLast = false, false
				}
				w.EvOff[i] = eng.pos
				var ret int64
				var err error
				if asap {
					ret, err = bl.AppendASAP(eng.pos, c18PayloadTab[i][h.Sizes[i]])
				} else {
					ret, err = bl.Append(eng.pos, c18PayloadTab[i][h.Sizes[i]])
				}
				if err != nil {
					w.violate("append-error", "Append of event #%d at %d failed: %v", i, eng.pos, err)
				}
				if ret < eng.pos+int64(c18Pad(c18Sizes[h.Sizes[i]])) {
					w.violate("append-offset", "Append of event #%d (size %d) at %d returned next offset %d", i, c18Sizes[h.Sizes[i]], eng.pos, ret)
				}
				w.EvRet[i] = ret
				eng.pos = ret
				target = ret
				next++
				if last {
					if i < n-1 && h.Cuts[i] >= c18CutReopen0 && h.Cuts[i] <= c18CutReopenF {
						sessionEnd = h.Cuts[i]
					}
					if i < n-1 && h.Cuts[i] == c18CutDuring {
						pendingDuring = true
					}
					break
				}
			}
		}
		for next < n && sessionEnd < 0 {
			// ---- one batch, appended while the writer goroutine is parked in a callback
			appendBatch()
			eng.resume <- struct{}{} // release the writer: it takes the whole batch
			if !asapLast {
				break // tail: only shutdown commits it
			}
			for {
				s, err, ended := wait()
				if ended {
					if inf, ok := err.(c18Infra); ok {
						panic(inf)
					}
					w.violate("run-error", "Run ended while a commit of %d was awaited: %v", target, err)
					w.Commits = append(w.Commits, eng.commits...)
					w.Calls += int64(eng.steps)
					return w
				}
				if s.rotating {
					// the writer is inside rotate(), creating the next chunk, with the current buffer half written
					if pendingDuring && next < n && sessionEnd < 0 {
						appendBatch()
						w.During++
					}
					eng.resume <- struct{}{}
					continue
				}
				if s.off >= target {
					break
				}
				eng.resume <- struct{}{}
			}
		}
		// ---- shutdown of the session (writer parked in Commit, or running when the tail is not ASAP)
		bl.RequestShutdown()
		if !(next == n && h.Tail) {
			eng.resume <- struct{}{}
		}
		for {
			_, err, ended := wait()
			if ended {
				if inf, ok := err.(c18Infra); ok {
					panic(inf)
				}
				if err != nil {
					w.violate("run-error", "Run returned %v after RequestShutdown", err)
				}
				break
			}
			eng.resume <- struct{}{}
		}
		w.Calls += int64(eng.steps)
		// ---- commit clause for this session
		prev := int64(-1)
		for ci, c := range eng.commits {
			if c.Off < prev {
				w.violate("commit-not-monotone", "commit #%d notifies %d after %d", ci, c.Off, prev)
			}
			prev = c.Off
			if c.Off > c.Durable {
				w.violate("commit-beyond-fsync", "commit #%d notifies offset %d but only %d bytes were written before the last fsync (%d written in total)", ci, c.Off, c.Durable, c.Written)
			}
		}
		if len(eng.commits) == 0 || eng.commits[len(eng.commits)-1].Off != eng.pos {
			// not stated by the property (it bounds commits from above only): recorded, not asserted
		}
		sessFirst := -1 // the commit WriteLoop issues at the session's start offset (last one before ChangeRole)
		for ci, c := range eng.commits {
			if !c.Writing {
				sessFirst = ci
			}
		}
		w.Commits = append(w.Commits, eng.commits...)
		switch sessionEnd {
		case c18CutReopen0:
			from, meta = 0, nil
		case c18CutReopenL:
			c := eng.commits[len(eng.commits)-1]
			from, meta = c.Off, c.Meta
		case c18CutReopenF:
			if sessFirst < 0 {
				sessFirst = 0
			}
			c := eng.commits[sessFirst]
			from, meta = c.Off, c.Meta
		}
		if next == n {
			w.FinalOff = eng.pos
		}
	}
	im, err := c18ReadImage(mem, dir)
	if err != nil {
		w.violate("final-image", "cannot read the final files: %v", err)
		im = &c18Image{}
	}
	w.Image = im
	w.Rotated = len(im.Files) - 1
	rec.mu.Lock()
	w.FSLog = append([]string{}, rec.log...)
	rec.mu.Unlock()
	return w
}

// ---------------------------------------------------------------------------------------------------
// replay

type c18Replayer struct {
	mem  *gofs.InMemoryFS
	dir  string
	opts Options
	im   *c18Image
}

func c18NewReplayer(im *c18Image, chunk uint32) *c18Replayer {
	mem := gofs.NewMemoryFs()
	dir := mem.TempDir()
	r := &c18Replayer{mem: mem, dir: dir, im: im}
	r.opts = c18Opts(mem, dir, chunk)
	r.opts.ReadAndExit = true
	for _, f := range im.Files {
		r.put(f.Name, f.Data)
	}
	return r
}

func (r *c18Replayer) put(name string, data []byte) {
	if err := r.mem.WriteFile(path.Join(r.dir, name), data, 0640); err != nil {
		panic(c18Infra("WriteFile: " + err.Error()))
	}
}

type c18Res struct {
	Err     error
	Panic   string
	Got     []c18Got
	Pos     int64
	Commits []c18Commit
	Aborted bool
	BadPay  string
	Calls   int
}

func (r *c18Replayer) run(from int64, meta []byte, img *c18Image) (res c18Res) {
	eng := &c18Eng{pos: from, img: img, maxCalls: 4096}
	defer func() {
		if p := recover(); p != nil {
			if inf, ok := p.(c18Infra); ok {
				panic(inf)
			}
			st := string(debug.Stack())
			site := "unknown"
			for _, l := range strings.Split(st, "\n") {
				if strings.Contains(l, "/fsbinlog.") && !strings.Contains(l, "c18") {
					site = strings.TrimSpace(l)
					if i := strings.LastIndex(site, "("); i > 0 {
						site = site[:i]
					}
					if i := strings.LastIndex(site, "/"); i >= 0 {
						site = site[i+1:]
					}
					break
				}
			}
			res.Panic = fmt.Sprintf("%v at %s", p, site)
		}
		res.Got, res.Pos, res.Commits, res.Aborted, res.BadPay, res.Calls = eng.got, eng.pos, eng.commits, eng.aborted, eng.badPayload, eng.steps
	}()
	bl, err := NewFsBinlog(&binlog.EmptyLogger{}, r.opts)
	if err != nil {
		panic(c18Infra("NewFsBinlog: " + err.Error()))
	}
	res.Err = bl.Run(from, meta, nil, eng)
	return res
}

// ---------------------------------------------------------------------------------------------------
// record layout of a clean log (for the crc clause)

type c18Layout struct {
	crc      [][]int64 // per file: local offsets of levCrc32 records
	rotateTo [][]int64
	hdrLen   []int64 // per file: bytes of the leading service records up to the first event/crc/rotate (start+tag or rotateFrom)
}

func c18LayoutOf(w *c18Written) (*c18Layout, error) {
	evAt := map[int64]int{}
	for i, o := range w.EvOff {
		evAt[o] = i
	}
	lay := &c18Layout{}
	for fi, f := range w.Image.Files {
		var crcs, rts []int64
		l := int64(0)
		hdr := int64(-1)
		for l < int64(len(f.Data)) {
			if int64(len(f.Data))-l < 4 {
				return nil, fmt.Errorf("file %d: %d stray bytes at %d", fi, int64(len(f.Data))-l, l)
			}
			m := binary.LittleEndian.Uint32(f.Data[l:])
			switch m {
			case constants.FsbinlogLevStart:
				l += 24
			case magicLevTag:
				l += 20
			case magicLevRotateFrom:
				l += levRotateSize
			case magicLevCrc32:
				if hdr < 0 {
					hdr = l
				}
				crcs = append(crcs, l)
				l += levCrcSize
			case magicLevRotateTo:
				if hdr < 0 {
					hdr = l
				}
				rts = append(rts, l)
				l += levRotateSize
			default:
				i, ok := evAt[f.Pos+l]
				if !ok {
					return nil, fmt.Errorf("file %d: unknown record %08x at local offset %d", fi, m, l)
				}
				if hdr < 0 {
					hdr = l
				}
				l += int64(c18Pad(c18Sizes[w.H.Sizes[i]]))
			}
		}
		if hdr < 0 {
			hdr = int64(len(f.Data))
		}
		lay.crc = append(lay.crc, crcs)
		lay.rotateTo = append(lay.rotateTo, rts)
		lay.hdrLen = append(lay.hdrLen, hdr)
	}
	return lay, nil
}

// ---------------------------------------------------------------------------------------------------
// the check of one history

type c18Ctx struct {
	rep     *mc.Report
	execs   atomic.Int64
	trans   atomic.Int64
	states  atomic.Int64
	nontriv atomic.Int64
	covered atomic.Int64 // flips of bytes covered by a later crc record
	caught  atomic.Int64 // ... that failed with the crc error at the record
	earlier atomic.Int64 // ... that failed before reaching the record
	uncovOK atomic.Int64 // uncovered flips giving a different successful replay (outside the statement)
	rtUndet atomic.Int64 // flips before a rotateTo record (which carries a crc32 the reader does not check) replayed successfully
	truncs  atomic.Int64
	resumes atomic.Int64
	during  atomic.Int64 // batches appended while the writer was inside rotate()
	// continuation family (verif_c18_continue_test.go)
	contSeqs    []c18ContSeq // nil: family switched off
	contUpTo    int          // original logs of at most this many events
	contPoints  atomic.Int64 // truncation points at which a restarted master accepted writes
	contRefused atomic.Int64 // truncation points at which it refused
	conts       atomic.Int64 // continued histories (restarted master + appends + replays)
	contWFail   atomic.Int64 // ... in which the restarted writer's loop ended with an error (uncommitted events become optional)
	contARef    atomic.Int64 // ... in which an Append was refused with an error
	lateMu      sync.Mutex
	late    []c18Late
}

type c18Late struct {
	key string
	f   func()
}

func (c *c18Ctx) report(w *c18Written, sig, desc string, extra map[string]any) {
	d := map[string]any{"history": w.H.String(), "sizes": w.H.Sizes, "cuts": w.H.Cuts, "chunk": w.H.Chunk, "tail": w.H.Tail,
		"event_offsets": w.EvOff, "append_returns": w.EvRet}
	var cm []string
	for _, x := range w.Commits {
		cm = append(cm, fmt.Sprintf("%d(durable %d, written %d, writer=%v)", x.Off, x.Durable, x.Written, x.Writing))
	}
	d["commits"] = cm
	if len(w.FSLog) > 0 {
		fl := w.FSLog
		if len(fl) > 60 {
			fl = fl[:60]
		}
		d["fs_log"] = fl
	}
	if w.Image != nil {
		var fs []string
		for _, f := range w.Image.Files {
			fs = append(fs, fmt.Sprintf("%s pos=%d size=%d", f.Name, f.Pos, len(f.Data)))
		}
		d["files"] = fs
	}
	for k, v := range extra {
		d[k] = v
	}
	if strings.HasPrefix(sig, "C18:truncated-header-") {
		// findings about a last file cut inside its header are emitted after everything else, so that a
		// different violation is never crowded out of the driver's short list by them
		c.lateMu.Lock()
		c.late = append(c.late, c18Late{key: fmt.Sprintf("%s/%02d/%s", sig, len(w.H.Sizes), w.H.String()+": "+desc), f: func() { c.rep.Violate(sig, w.H.String()+": "+desc, d) }})
		c.lateMu.Unlock()
		return
	}
	c.rep.Violate(sig, w.H.String()+": "+desc, d)
}

// writeAndReplay: write phase + clean replays (full and from every commit). Returns the written log.
func (c *c18Ctx) writeAndReplay(h c18Hist) *c18Written {
	w := c18Write(h)
	c.execs.Add(w.Execs)
	c.trans.Add(w.Calls)
	c.during.Add(int64(w.During))
	for _, v := range w.Viol {
		c.report(w, v.Sig, v.Desc, nil)
	}
	if len(w.Viol) > 0 || w.Image == nil || len(w.Image.Files) == 0 {
		return w
	}
	n := len(h.Sizes)
	r := c18NewReplayer(w.Image, h.Chunk)
	check := func(kind string, from int64, meta []byte) {
		res := r.run(from, meta, w.Image)
		c.execs.Add(1)
		c.trans.Add(int64(res.Calls))
		what := fmt.Sprintf("%s from offset %d (meta %x)", kind, from, meta)
		switch {
		case res.Panic != "":
			c.report(w, "C18:replay-panic", what+" panics: "+res.Panic, nil)
		case res.Err != nil:
			c.report(w, "C18:"+kind+"-error", what+" fails on an undamaged log: "+res.Err.Error(), nil)
		default:
			if d := c18CheckDelivered(res.Got, w, n, from, 1<<62, 1<<62); d != "" {
				c.report(w, "C18:"+kind+"-mismatch", what+": "+d, nil)
			} else if res.Pos != w.FinalOff {
				c.report(w, "C18:"+kind+"-end-offset", fmt.Sprintf("%s ends at engine offset %d, the writer's last returned offset is %d", what, res.Pos, w.FinalOff), nil)
			} else if res.BadPay != "" {
				c.report(w, "C18:"+kind+"-foreign-bytes", what+": "+res.BadPay, nil)
			}
			prev := int64(-1)
			for _, cm := range res.Commits {
				if cm.Off < prev || cm.Off > w.Image.total() {
					c.report(w, "C18:reader-commit", fmt.Sprintf("%s: reader commit %d after %d (log has %d bytes)", what, cm.Off, prev, w.Image.total()), nil)
				}
				prev = cm.Off
			}
		}
	}
	check("replay", 0, nil)
	seen := map[string]bool{}
	for _, cm := range w.Commits {
		// distinct by (offset, meta without its wall-clock CommitTs field): fsbinlog.snapshotMeta is
		// magic, fields_mask, CommitPosition(8), CommitCrc(4), CommitTs(4); the timestamp is the only part that
		// may differ between two notifications of the same offset (a second boundary passed) and no oracle reads it
		mk := cm.Meta
		if len(mk) >= 20 {
			mk = mk[:20]
		}
		k := fmt.Sprintf("%d/%x", cm.Off, mk)
		if seen[k] {
			continue
		}
		seen[k] = true
		check("resume", cm.Off, cm.Meta)
		c.resumes.Add(1)
	}
	return w
}

func c18FlipBit(p int64) byte { return 1 << uint(p%8) }

// damage: truncation of the last file at every byte and a bit flip at every byte of every file
// (restricted to [lo,hi) of the global flip index space when the caller shards a big log).
func (c *c18Ctx) damage(w *c18Written, doTrunc bool, flipLo, flipHi int64) {
	outcomes := map[string]struct{}{}
	defer func() {
		for k := range outcomes {
			c.rep.Outcome(k)
		}
	}()
	h := w.H
	n := len(h.Sizes)
	lay, err := c18LayoutOf(w)
	if err != nil {
		c.report(w, "C18:layout", "the clean log does not parse with the reference layout: "+err.Error(), nil)
		return
	}
	r := c18NewReplayer(w.Image, h.Chunk)
	lastI := len(w.Image.Files) - 1
	last := w.Image.Files[lastI]
	if doTrunc {
		contViol := 0 // truncation points of this log whose continuation violated (the family stops after 3 of them)
		for t := int64(0); t < int64(len(last.Data)); t++ {
			r.put(last.Name, last.Data[:t])
			tim := &c18Image{Files: append(append([]c18File{}, w.Image.Files[:lastI]...), c18File{Name: last.Name, Pos: last.Pos, Data: last.Data[:t]})}
			res := r.run(0, nil, tim)
			c.execs.Add(1)
			c.trans.Add(int64(res.Calls))
			c.truncs.Add(1)
			g := last.Pos + t
			hdrNeed := int64(levRotateSize)
			if lastI == 0 {
				hdrNeed = 24
			}
			region := "body"
			if t < hdrNeed {
				region = "header"
			}
			what := fmt.Sprintf("last file %s (position %d, %d bytes) truncated to %d bytes", last.Name, last.Pos, len(last.Data), t)
			out := "ok"
			must, may := g, g
			if region == "header" {
				must, may = last.Pos, last.Pos
			}
			switch {
			case res.Panic != "":
				out = "panic"
				c.report(w, "C18:truncated-"+region+"-replay-panics", what+": replay panics: "+res.Panic, map[string]any{"truncate_to": t})
			case res.Err != nil:
				out = "error"
				if region == "header" && lastI == 0 {
					// the log has no complete start record and no event: the statement does not say what replay must do
					break
				}
				c.report(w, "C18:truncated-"+region+"-replay-fails", what+": replay fails instead of delivering the complete events: "+res.Err.Error(), map[string]any{"truncate_to": t})
			default:
				if d := c18CheckDelivered(res.Got, w, n, 0, must, may); d != "" {
					c.report(w, "C18:truncated-replay-mismatch", what+": "+d, map[string]any{"truncate_to": t})
				} else if res.BadPay != "" {
					c.report(w, "C18:truncated-replay-partial-event", what+": "+res.BadPay, map[string]any{"truncate_to": t})
				}
				for _, cm := range res.Commits {
					if cm.Off > g {
						c.report(w, "C18:reader-commit", fmt.Sprintf("%s: reader commits %d, the log has %d bytes", what, cm.Off, g), nil)
					}
				}
			}
			outcomes["trunc/"+region+"/"+out] = struct{}{}
			// the history continues: a writing master is restarted on the truncated files
			if c.contSeqs != nil && n <= c.contUpTo && contViol < 3 {
				if c.continueAfter(w, tim, what, map[string]any{"truncate_to": t}, must, may, outcomes) {
					contViol++
				}
			}
		}
		r.put(last.Name, last.Data)
	}
	// flips
	idx := int64(0)
	for fi, f := range w.Image.Files {
		if idx+int64(len(f.Data)) <= flipLo || idx >= flipHi {
			idx += int64(len(f.Data))
			continue
		}
		buf := append([]byte{}, f.Data...)
		for p := int64(0); p < int64(len(f.Data)); p++ {
			gi := idx + p
			if gi < flipLo || gi >= flipHi {
				continue
			}
			buf[p] ^= c18FlipBit(p)
			r.put(f.Name, buf)
			res := r.run(0, nil, nil)
			buf[p] ^= c18FlipBit(p)
			c.execs.Add(1)
			c.trans.Add(int64(res.Calls))
			// first crc record strictly after the flipped byte, in the same file
			q := int64(-1)
			for _, x := range lay.crc[fi] {
				if x > p {
					q = x
					break
				}
			}
			same := res.Err == nil && res.Panic == "" && c18CheckDelivered(res.Got, w, n, 0, 1<<62, 1<<62) == "" && res.Pos == w.FinalOff
			what := fmt.Sprintf("bit %#02x of byte %d of file %s (position %d) flipped", c18FlipBit(p), p, f.Name, f.Pos)
			if res.Aborted {
				c.report(w, "C18:flip-replay-does-not-terminate", what+": replay exceeded the callback budget", map[string]any{"file": fi, "byte": p})
			}
			if q >= 0 {
				c.covered.Add(1)
				qg := f.Pos + q
				passed := res.Panic == "" && res.Err == nil && res.Pos > qg
				for _, g := range res.Got {
					if g.Off > qg {
						passed = true
					}
				}
				switch {
				case passed:
					c.report(w, "C18:covered-flip-passes-crc-record", fmt.Sprintf("%s; the byte is covered by the levCrc32 record at local offset %d (global %d), but replay went past that record (err=%v, engine offset %d, %d events delivered)",
						what, q, qg, res.Err, res.Pos, len(res.Got)), map[string]any{"file": fi, "byte": p, "crc_record_at": qg})
					outcomes["flip/covered/PASSED"] = struct{}{}
				case res.Panic != "":
					c.earlier.Add(1)
					outcomes["flip/covered/panic"] = struct{}{}
				case res.Pos == qg && res.Err != nil:
					if strings.Contains(res.Err.Error(), "crc32 mismatch") {
						c.caught.Add(1)
						outcomes["flip/covered/crc-error-at-record"] = struct{}{}
					} else {
						c.report(w, "C18:covered-flip-not-a-checksum-error", fmt.Sprintf("%s; replay reached the levCrc32 record at %d and failed with %q instead of a checksum error", what, qg, res.Err.Error()), map[string]any{"file": fi, "byte": p})
						outcomes["flip/covered/other-error-at-record"] = struct{}{}
					}
				default:
					c.earlier.Add(1)
					outcomes["flip/covered/failed-before-record"] = struct{}{}
				}
			} else {
				out := "error"
				switch {
				case res.Panic != "":
					out = "panic"
				case same:
					out = "same-replay"
				case res.Err == nil:
					out = "different-successful-replay"
					c.uncovOK.Add(1)
				}
				beforeRT := false
				for _, x := range lay.rotateTo[fi] {
					if x > p {
						beforeRT = true
					}
				}
				if beforeRT && res.Err == nil && res.Panic == "" && !same {
					c.rtUndet.Add(1)
				}
				outcomes["flip/uncovered/"+out] = struct{}{}

			}
		}
		r.put(f.Name, f.Data)
		idx += int64(len(f.Data))
	}
}

// ---------------------------------------------------------------------------------------------------
// enumeration

func c18Pool(tasks []func()) {
	nw := runtime.GOMAXPROCS(0)
	ch := make(chan func(), 64)
	var wg sync.WaitGroup
	var infra atomic.Value
	for k := 0; k < nw; k++ {
		wg.Add(1)
		go func() {
			defer wg.Done()
			for f := range ch {
				func() {
					defer func() {
						if r := recover(); r != nil {
							if inf, ok := r.(c18Infra); ok {
								infra.Store(string(inf))
								return
							}
							infra.Store(fmt.Sprintf("harness panic: %v\n%s", r, debug.Stack()))
						}
					}()
					f()
				}()
			}
		}()
	}
	for _, f := range tasks {
		ch <- f
	}
	close(ch)
	wg.Wait()
	if v := infra.Load(); v != nil {
		panic(c18Infra(v.(string)))
	}
}

// c18Seqs enumerates every sequence of length 1..maxLen over the alphabet (size indexes).
func c18Seqs(alpha []int, minLen, maxLen int) [][]int {
	var out [][]int
	var rec func(cur []int)
	rec = func(cur []int) {
		if len(cur) >= minLen {
			out = append(out, append([]int{}, cur...))
		}
		if len(cur) == maxLen {
			return
		}
		for _, a := range alpha {
			rec(append(cur, a))
		}
	}
	rec(nil)
	return out
}

// c18CutPatterns: all 2^(n-1) batchings when n <= fullUpTo, otherwise those with at most maxBoundaries batch
// boundaries plus the all-singletons one; then, when restarts are wanted, the all-same and all-batch patterns with one
// position replaced by each reopen kind.
func c18CutPatterns(n, fullUpTo, maxBoundaries int, restarts, during bool) [][]int {
	var out [][]int
	if n == 1 {
		return [][]int{{}}
	}
	// the first pattern (every event its own batch) is the one whose log the damage enumeration uses
	first := make([]int, n-1)
	for j := range first {
		first[j] = c18CutBatch
	}
	out = append(out, first)
	for m := 0; m < 1<<(n-1); m++ {
		cuts := make([]int, n-1)
		ones := 0
		for j := range cuts {
			if m>>j&1 == 1 {
				cuts[j] = c18CutBatch
				ones++
			}
		}
		if ones == n-1 {
			continue // already first
		}
		if n <= fullUpTo || ones <= maxBoundaries {
			out = append(out, cuts)
		}
	}
	if during {
		for j := 0; j < n-1; j++ {
			for _, base := range []int{c18CutSame, c18CutBatch} {
				cuts := make([]int, n-1)
				for i := range cuts {
					cuts[i] = base
				}
				cuts[j] = c18CutDuring
				out = append(out, cuts)
			}
		}
	}
	if restarts {
		for _, base := range []int{c18CutSame, c18CutBatch} {
			for j := 0; j < n-1; j++ {
				for _, kind := range []int{c18CutReopen0, c18CutReopenL, c18CutReopenF} {
					cuts := make([]int, n-1)
					for i := range cuts {
						cuts[i] = base
					}
					cuts[j] = kind
					out = append(out, cuts)
				}
			}
		}
	}
	return out
}

func TestVerifC18(t *testing.T) {
	rep := mc.NewReport("C18")
	ctx := &c18Ctx{rep: rep}
	// Performance only: the real writer/reader allocate 64 KiB..1 MiB of zeroed buffers per run while the live heap
	// is tiny, so the default pacer would run a GC cycle every few runs. An untouched (never resident) ballast
	// raises the heap goal; freed spans are reused warm instead of being returned to the OS.
	ballast := make([]byte, 192<<20)
	defer runtime.KeepAlive(ballast)
	maxLen := mc.Pick(6, 8)      // payload sequences
	fullCuts := mc.Pick(4, 6)    // all 2^(n-1) batchings up to this length
	maxBound := mc.Pick(1, 0)    // longer sequences: every batching with at most this many batch boundaries (+ all singletons)
	tailUpTo := mc.Pick(4, 5)    // un-ASAP tail variant for every batching up to this length (above: the two extreme batchings)
	restartUpTo := mc.Pick(4, 5) // writer reopen patterns up to this length
	duringUpTo := mc.Pick(5, 6)  // append-while-the-writer-is-inside-rotate patterns up to this length
	truncUpTo := mc.Pick(4, 6)   // truncation of the last file at every byte
	flipUpTo := mc.Pick(4, 5)    // bit flip at every byte of every file
	bigLen := mc.Pick(2, 3)
	bigTruncMax := mc.Pick(int64(4096), int64(1<<30)) // crc family: truncate the last file at every byte when it is at most this long
	bigAlpha := mc.Pick([]int{0, c18BigIdx}, []int{0, 2, c18BigIdx})
	contLen := mc.Pick(2, 2)  // continuation after a truncation: every sequence of 1..contLen new payloads
	contUpTo := mc.Pick(4, 5) // ... for truncated logs of at most this many events
	if s := os.Getenv("VERIF_C18_CONT_LEN"); s != "" {
		fmt.Sscan(s, &contLen)
	}
	if contLen > 0 {
		ctx.contSeqs, ctx.contUpTo = c18ContSeqs(contLen), contUpTo
	}
	chunks := []uint32{200, 512}
	bigChunks := []uint32{1 << 16, 1 << 20}

	rep.Rule = "a case = (payload-size sequence, MaxChunkSize, batching/restart pattern) written by the real writer on a memory FS, then replayed by the real reader: from 0, from every commit notification with its meta, with the last file truncated at every byte (and after each truncation continued by a restarted writing master that appends every short payload sequence, then replayed again), with one bit flipped at every byte of every file; non-trivial = the log rotated at least once or contains a levCrc32 record"
	rep.Bounds["payload_sizes"] = []int{4, 18, 100, 257}
	rep.Bounds["payload_sizes_on_disk"] = []int{4, 20, 100, 260}
	rep.Bounds["max_chunk_size"] = chunks
	rep.Bounds["sequence_length"] = fmt.Sprintf("1..%d", maxLen)
	rep.Bounds["batchings"] = fmt.Sprintf("all 2^(n-1) for n<=%d, above: every batching with <=%d boundaries, and all singletons; last event ASAP, and (all batchings n<=%d, the two extreme batchings above) last event committed by shutdown only", fullCuts, maxBound, tailUpTo)
	rep.Bounds["restarts"] = fmt.Sprintf("one writer reopen (from 0 / from last commit+meta / from the session's first commit+meta) at every cut of the one-batch and all-singleton batchings, n<=%d", restartUpTo)
	rep.Bounds["append_during_write"] = fmt.Sprintf("n<=%d: ", duringUpTo) + "at every cut of the two extreme batchings the next batch is appended while the writer goroutine is inside rotate() with the current buffer half written (the only point of writeBuffer reachable through the FS interface)"
	rep.Bounds["resume"] = "from every distinct commit notification (offset, meta) of every history"
	rep.Bounds["truncation"] = fmt.Sprintf("last file at every byte, every sequence of length <=%d, and crc-family logs whose last file has <=%d bytes", truncUpTo, bigTruncMax)
	rep.Bounds["continuation_after_truncation"] = fmt.Sprintf("at every truncation point of logs with <=%d events (and of the crc-family logs that are truncated): a writing master is restarted on the truncated files; where it accepts, every sequence of 1..%d new payloads over the size alphabet (length 2: in one write buffer and in two) is appended, committed, and the files are replayed from 0 and resumed from every commit of the restarted master", contUpTo, contLen)
	rep.Bounds["bit_flips"] = fmt.Sprintf("bit (p mod 8) of every byte p of every file, every sequence of length <=%d and the whole crc family", flipUpTo)
	rep.Bounds["crc_family"] = fmt.Sprintf("sequences of length 1..%d over %s with 1..2 payloads of 65536 bytes, MaxChunkSize %v, all batchings and reopen patterns", bigLen, mc.Pick("{4,65536}", "{4,100,65536}"), bigChunks)
	rep.Assume("file-level writes/fsyncs are read from gofs's own dirty-interval log (TrackDirtyPages) at each Commit callback, because gofs.File is a concrete type that a wrapper cannot intercept; durability of directory entries (file creation) is not modelled")
	rep.Assume("the unchanged writer emits levCrc32 only every 64 KiB (constant writeCrcEveryBytes), so the checksum clause is decided on the 64-KiB-payload family; rotateTo/rotateFrom also carry a crc32 field which the reader does not verify - not asserted (the statement says 'checksum record'), counted in parts.outside_statement.rotate_to_unverified")
	rep.Assume("engine callbacks consume one event per Apply and report padded offsets; Apply answers ErrorNotEnoughData for a short buffer (the documented protocol)")

	defer func() {
		if r := recover(); r != nil {
			if inf, ok := r.(c18Infra); ok {
				rep.Infra(string(inf))
				_ = rep.Write()
				t.Fatalf("infrastructure: %s", string(inf))
			}
			panic(r)
		}
	}()

	var tasks []func()
	var capped atomic.Bool
	// small family; phase 0 = lengths up to phaseSplit, phase 1 (run after the crc family) = the longer ones
	const phaseSplit = 4
	smallTasks := func(minLen, maxLen int) []func() {
		var tasks []func()
		for _, chunk := range chunks {
			for _, seq := range c18Seqs([]int{0, 1, 2, 3}, minLen, maxLen) {
				chunk, seq := chunk, seq
				tasks = append(tasks, func() {
					if mc.Expired() {
						capped.Store(true)
						return
					}
					n := len(seq)
					var base *c18Written
					for pi, cuts := range c18CutPatterns(n, fullCuts, maxBound, n <= restartUpTo, n <= duringUpTo) {
						hasRestart := false
						ones := 0
						for _, c := range cuts {
							if c >= c18CutReopen0 { // reopen or append-during-rotation patterns: no tail variant
								hasRestart = true
							}
							if c == c18CutBatch {
								ones++
							}
						}
						for _, tail := range []bool{false, true} {
							if tail && (hasRestart || (n > tailUpTo && ones != 0 && ones != n-1)) {
								continue
							}
							w := ctx.writeAndReplay(c18Hist{Chunk: chunk, Sizes: seq, Cuts: cuts, Tail: tail})
							if pi == 0 && !tail {
								base = w
							}
						}
					}
					ctx.states.Add(1)
					if base != nil && base.Image != nil && len(base.Viol) == 0 {
						if base.Rotated > 0 {
							ctx.nontriv.Add(1)
						}
						rep.Outcome(fmt.Sprintf("layout/files=%d", len(base.Image.Files)))
						hi := int64(0)
						if n <= flipUpTo {
							hi = 1 << 62
						}
						if n <= truncUpTo || hi > 0 {
							ctx.damage(base, n <= truncUpTo, 0, hi)
						}
						if chunk == 200 && n == 3 && seq[0] != seq[1] {
							rep.Sample(map[string]any{"history": base.H.String(), "event_offsets": base.EvOff, "files": len(base.Image.Files), "commits": len(base.Commits), "fs_log_head": c18Head(base.FSLog, 14)})
						}
					}
				})
			}
		}
		return tasks
	}
	tPhase := time.Now()
	phase := func(name string) {
		t.Logf("phase %s: %.1fs, executions so far %d", name, time.Since(tPhase).Seconds(), ctx.execs.Load())
		tPhase = time.Now()
	}
	c18Pool(smallTasks(1, min(phaseSplit, maxLen)))
	phase("small<=4")
	// crc family: the write phase is done once per history, the flips are sharded into ranges
	var bigMu sync.Mutex
	var bigW []*c18Written
	for _, chunk := range bigChunks {
		for _, seq := range c18Seqs(bigAlpha, 1, bigLen) {
			nb := 0
			for _, s := range seq {
				if s == c18BigIdx {
					nb++
				}
			}
			if nb < 1 || nb > 2 {
				continue
			}
			chunk, seq := chunk, seq
			tasks = append(tasks, func() {
				n := len(seq)
				var base *c18Written
				for pi, cuts := range c18CutPatterns(n, 4, 2, true, true) {
					w := ctx.writeAndReplay(c18Hist{Chunk: chunk, Sizes: seq, Cuts: cuts})
					if pi == 0 {
						base = w
					}
				}
				ctx.states.Add(1)
				if base != nil && base.Image != nil && len(base.Viol) == 0 {
					ctx.nontriv.Add(1)
					bigMu.Lock()
					bigW = append(bigW, base)
					bigMu.Unlock()
				}
			})
		}
	}
	c18Pool(tasks)
	tasks = nil
	phase("crc-write")
	sort.Slice(bigW, func(i, j int) bool { return bigW[i].H.String() < bigW[j].H.String() })
	const flipShard = 8192
	for _, w := range bigW {
		w := w
		lay, err := c18LayoutOf(w)
		ncrc := 0
		if err == nil {
			for _, x := range lay.crc {
				ncrc += len(x)
			}
		}
		rep.Outcome(fmt.Sprintf("layout/files=%d/crc=%d", len(w.Image.Files), ncrc))
		if len(rep.Samples) < 12 && ncrc > 0 && len(w.Image.Files) > 1 {
			rep.Sample(map[string]any{"history": w.H.String(), "event_offsets": w.EvOff, "files": len(w.Image.Files), "crc_records": ncrc})
		}
		total := w.Image.total()
		if last := w.Image.Files[len(w.Image.Files)-1]; int64(len(last.Data)) <= bigTruncMax {
			tasks = append(tasks, func() {
				if mc.Expired() {
					capped.Store(true)
					return
				}
				ctx.damage(w, true, 0, 0)
			})
		}
		for lo := int64(0); lo < total; lo += flipShard {
			lo := lo
			tasks = append(tasks, func() {
				if mc.Expired() {
					capped.Store(true)
					return
				}
				ctx.damage(w, false, lo, lo+flipShard)
			})
		}
	}
	c18Pool(tasks)
	phase("crc-damage")
	if maxLen > phaseSplit {
		c18Pool(smallTasks(phaseSplit+1, maxLen))
		phase("small>4")
	}

	sort.Slice(ctx.late, func(i, j int) bool { return ctx.late[i].key < ctx.late[j].key }) // shortest history first, deterministic
	for _, l := range ctx.late {
		l.f() // the report keeps 3 examples per signature
	}
	if capped.Load() {
		rep.Cap("wall_budget")
	}
	rep.AddCounts(ctx.execs.Load(), ctx.trans.Load(), ctx.states.Load(), ctx.nontriv.Load())
	rep.Parts["crc_clause"] = map[string]any{"flips_of_covered_bytes": ctx.covered.Load(), "failed_with_crc_error_at_record": ctx.caught.Load(), "failed_before_record": ctx.earlier.Load()}
	rep.Parts["outside_statement"] = map[string]any{"uncovered_flips_with_different_successful_replay": ctx.uncovOK.Load(), "rotate_to_unverified": ctx.rtUndet.Load()}
	rep.Parts["damage"] = map[string]any{"truncations": ctx.truncs.Load(), "resumes": ctx.resumes.Load()}
	rep.Parts["continuation_after_truncation"] = map[string]any{"truncation_points_where_restarted_master_accepted_writes": ctx.contPoints.Load(),
		"truncation_points_where_it_refused": ctx.contRefused.Load(), "continued_histories": ctx.conts.Load(),
		"continued_histories_writer_loop_failed": ctx.contWFail.Load(), "continued_histories_append_refused": ctx.contARef.Load()}
	rep.Parts["interleavings"] = map[string]any{"batches_appended_while_writer_inside_rotate": ctx.during.Load()}
	if err := rep.Write(); err != nil {
		t.Fatal(err)
	}
	t.Logf("C18: executions=%d callbacks=%d histories=%d covered flips=%d (crc error %d, earlier %d) truncations=%d resumes=%d violations=%d",
		ctx.execs.Load(), ctx.trans.Load(), ctx.states.Load(), ctx.covered.Load(), ctx.caught.Load(), ctx.earlier.Load(), ctx.truncs.Load(), ctx.resumes.Load(), rep.NumViolations())
}

func c18Head(s []string, n int) []string {
	if len(s) > n {
		return s[:n]
	}
	return s
}
