//go:build verif

package semaphore

// C29 (semaphore half): weighted semaphore under all interleavings up to a preemption bound.

import (
	"context"
	"fmt"
	"os"
	"strings"
	"sync"
	"testing"
	"time"
	"unsafe"

	"github.com/VKCOM/statshouse/internal/verif/mc"
	"github.com/VKCOM/statshouse/internal/verif/vsched"
	"github.com/VKCOM/statshouse/internal/verif/vsync"
)

const (
	c29sAcq     = iota // Acquire(n, background) ... Release(n)
	c29sAcqCtx         // Acquire(n, ctx k); Release(n) if acquired
	c29sTry            // TryAcquire(n); Release(n) if acquired
	c29sCancel         // cancel ctx k
	c29sSetSize        // SetSize(n)
	c29sForce          // ForceAcquire(n) ... Release(n)
)

type c29sOp struct {
	kind int
	n    int64
	k    int
}

type c29sScenario struct {
	name    string
	size    int64
	threads [][]c29sOp
}

func c29sScenarios(thorough bool) []c29sScenario {
	A := func(n int64) c29sOp { return c29sOp{kind: c29sAcq, n: n} }
	AC := func(n int64, k int) c29sOp { return c29sOp{kind: c29sAcqCtx, n: n, k: k} }
	T := func(n int64) c29sOp { return c29sOp{kind: c29sTry, n: n} }
	C := func(k int) c29sOp { return c29sOp{kind: c29sCancel, k: k} }
	S := func(n int64) c29sOp { return c29sOp{kind: c29sSetSize, n: n} }
	F := func(n int64) c29sOp { return c29sOp{kind: c29sForce, n: n} }
	var out []c29sScenario
	add := func(name string, size int64, th ...[]c29sOp) {
		out = append(out, c29sScenario{name: name, size: size, threads: th})
	}
	add("3 acquirers size2", 2, []c29sOp{A(2)}, []c29sOp{A(1)}, []c29sOp{A(1)})
	add("big then small (FIFO)", 2, []c29sOp{A(1)}, []c29sOp{A(2)}, []c29sOp{A(1)})
	add("cancel vs grant", 1, []c29sOp{A(1)}, []c29sOp{AC(1, 0)}, []c29sOp{C(0)})
	add("cancel front unblocks next", 2, []c29sOp{A(1)}, []c29sOp{AC(2, 0)}, []c29sOp{C(0)}, []c29sOp{A(1)})
	add("try vs waiters", 2, []c29sOp{A(2)}, []c29sOp{A(1)}, []c29sOp{T(1)})
	add("setsize up", 1, []c29sOp{A(1)}, []c29sOp{A(1)}, []c29sOp{S(2)})
	add("setsize down", 2, []c29sOp{A(1)}, []c29sOp{A(1)}, []c29sOp{S(1)}, []c29sOp{A(1)})
	add("force acquire", 2, []c29sOp{F(2)}, []c29sOp{A(1)}, []c29sOp{A(1)})
	if thorough {
		add("two cancellable", 1, []c29sOp{A(1)}, []c29sOp{AC(1, 0)}, []c29sOp{AC(1, 1)}, []c29sOp{C(1), C(0)})
		add("setsize down cancel", 2, []c29sOp{A(2)}, []c29sOp{AC(2, 0)}, []c29sOp{S(1), C(0)}, []c29sOp{A(1)})
		add("force and try", 2, []c29sOp{F(1)}, []c29sOp{T(2), T(1)}, []c29sOp{A(2)}, []c29sOp{A(1)})
		add("sequence", 2, []c29sOp{A(1), A(2)}, []c29sOp{A(2), A(1)}, []c29sOp{A(1)})
	}
	return out
}

type c29sMon struct {
	s        *Weighted
	curOp    map[string]c29sOp
	prevList []waiter
	prevCur  int64
	prevSize int64
	viol     string
	sig      string
	waited   bool
}

func (m *c29sMon) fail(sig, msg string) {
	if m.viol == "" {
		m.sig, m.viol = sig, msg
	}
}

func c29sClosed(ready chan<- struct{}) bool {
	// the waiter only keeps the send direction; a channel value is a pointer to the runtime
	// channel whatever its static direction, so view it bidirectionally to test for closure
	ch := *(*chan struct{})(unsafe.Pointer(&ready))
	select {
	case <-ch:
		return true
	default:
		return false
	}
}

func (m *c29sMon) list() []waiter {
	var l []waiter
	for e := m.s.waiters.Front(); e != nil; e = e.Next() {
		l = append(l, e.Value.(waiter))
	}
	return l
}

func (m *c29sMon) check(sc *vsched.Sched) {
	if m.s == nil || m.s.mu.Held() {
		return
	}
	s := m.s
	list := m.list()
	if len(list) > 0 {
		m.waited = true
	}
	op, hasOp := m.curOp[sc.LastThread()]
	inNow := map[chan<- struct{}]bool{}
	for _, w := range list {
		inNow[w.ready] = true
	}
	// grants delivered to queued waiters during the last critical section
	var grantedN int64
	nGranted := 0
	sawUngrantedBefore := false
	for _, w := range m.prevList {
		if inNow[w.ready] {
			sawUngrantedBefore = true
			continue
		}
		if c29sClosed(w.ready) {
			// FIFO: a granted waiter must not have an earlier waiter that still waits
			if sawUngrantedBefore {
				m.fail("C29:sem-grant-not-fifo", fmt.Sprintf("waiter for %d granted while an earlier waiter still waits", w.n))
			}
			grantedN += w.n
			nGranted++
		}
	}
	delta := s.cur - m.prevCur
	// (a) never admits more than its size (outside forced acquisition)
	forced := hasOp && op.kind == c29sForce
	if delta > 0 && !forced && s.cur > s.size {
		m.fail("C29:sem-admits-above-size", fmt.Sprintf("cur grew from %d to %d with size %d", m.prevCur, s.cur, s.size))
	}
	// direct (non-queued) admission only when nobody waits
	if hasOp && (op.kind == c29sAcq || op.kind == c29sAcqCtx || op.kind == c29sTry) && delta-grantedN == op.n && op.n > 0 && len(m.prevList) > 0 && nGranted == 0 {
		m.fail("C29:sem-overtakes-waiters", fmt.Sprintf("request for %d admitted directly while %d waiters were queued", op.n, len(m.prevList)))
	}
	// (d) no lost wake-up: the front waiter does not fit
	if len(list) > 0 && s.size-s.cur >= list[0].n {
		m.fail("C29:sem-front-waiter-fits-but-waits", fmt.Sprintf("front waiter needs %d, size-cur=%d", list[0].n, s.size-s.cur))
	}
	m.prevList, m.prevCur, m.prevSize = list, s.cur, s.size
}

func c29sRun(x *mc.Exec, sc c29sScenario, rep *mc.Report) mc.Verdict {
	mon := &c29sMon{curOp: map[string]c29sOp{}}
	var cancels []context.CancelFunc
	var log []string
	var heldSum int64
	res := vsched.Run(x, vsched.Config{
		FreeBlockedSwitch: true,
		AtQuiescence:      func(s *vsched.Sched) { mon.check(s) },
		Cleanup: func() {
			for _, c := range cancels {
				c()
			}
		},
	}, func() {
		s := NewWeighted(sc.size)
		mon.s = s
		ctxs := make([]context.Context, 4)
		cancels = make([]context.CancelFunc, 4)
		for i := range ctxs {
			ctxs[i], cancels[i] = context.WithCancel(context.Background())
		}
		var wg vsync.WaitGroup
		for ti, prog := range sc.threads {
			name := fmt.Sprintf("T%d", ti)
			prog := prog
			wg.Add(1)
			vsched.GoNamed(name, false, func() {
				defer wg.Done()
				hold := func(n int64) {
					heldSum += n
					log = append(log, fmt.Sprintf("%s:got:%d", name, n))
					vsched.Point("hold")
					mon.curOp[name] = c29sOp{kind: -1}
					heldSum -= n
					s.Release(n)
				}
				for _, op := range prog {
					mon.curOp[name] = op
					switch op.kind {
					case c29sAcq:
						if err := s.Acquire(context.Background(), op.n); err != nil {
							mon.fail("C29:sem-acquire-error-without-cancel", err.Error())
							return
						}
						hold(op.n)
					case c29sAcqCtx:
						cur0 := s.cur
						_ = cur0
						if err := s.Acquire(ctxs[op.k], op.n); err == nil {
							hold(op.n)
						} else {
							log = append(log, fmt.Sprintf("%s:cancelled:%d", name, op.n))
						}
					case c29sTry:
						if s.TryAcquire(op.n) {
							hold(op.n)
						} else {
							log = append(log, fmt.Sprintf("%s:tryfail:%d", name, op.n))
						}
					case c29sCancel:
						vsched.Point("cancel")
						cancels[op.k]()
					case c29sSetSize:
						s.SetSize(op.n)
					case c29sForce:
						s.ForceAcquire(op.n)
						hold(op.n)
					}
					delete(mon.curOp, name)
				}
			})
		}
		wg.Wait()
	})
	if res.Panic != nil {
		return mc.Verdict{Violation: fmt.Sprintf("panic in code under test: %v", res.Panic), Sig: "C29:sem-panic", Detail: res.PanicStack}
	}
	if mon.viol != "" {
		return mc.Verdict{Violation: sc.name + ": " + mon.viol, Sig: mon.sig, Detail: map[string]any{"scenario": sc.name, "log": log}}
	}
	if res.Deadlock && !res.StepCap && !res.Horizon {
		// A request heavier than the size in force waits until its context ends: that is the semaphore's
		// documented behaviour, not a lost wake-up (reached in "setsize down cancel": SetSize(1) before the
		// plain Acquire(2) of T0). Such an execution is an outcome of its own, not a violation.
		legit := true
		for _, b := range res.Blocked {
			name := b
			if i := strings.Index(b, ":"); i >= 0 {
				name = b[:i]
			}
			if name == "main" {
				continue
			}
			op, ok := mon.curOp[name]
			if !ok || !(op.kind == c29sAcq || op.kind == c29sAcqCtx) {
				legit = false
				continue
			}
			// either the request itself can never fit (Acquire then waits for its context without queueing),
			// or it queued behind a front waiter that can never fit and waits with it, as FIFO order demands
			front := mon.s.waiters.Front()
			if op.n <= mon.s.size && (front == nil || front.Value.(waiter).n <= mon.s.size) {
				legit = false
			}
		}
		if legit {
			key := sc.name + "|" + strings.Join(log, ",") + "|request-heavier-than-size-parked"
			rep.State(key)
			rep.Outcome(key)
			rep.Nontrivial(key)
			return mc.Verdict{}
		}
	}
	if res.Deadlock || res.StepCap || res.Horizon {
		return mc.Verdict{Violation: fmt.Sprintf("%s: a request waits forever (%s); log %v", sc.name, strings.Join(res.Blocked, "; "), log), Sig: "C29:sem-request-waits-forever", Detail: map[string]any{"scenario": sc.name, "blocked": res.Blocked}}
	}
	if res.Leaked > 0 && !vsched.NoteLeak(res.Leaked) {
		panic(c29sInfra(fmt.Sprintf("too many leaked goroutines (%d more in scenario %s)", res.Leaked, sc.name)))
	}
	// a cancelled waiter leaves the semaphore unchanged; at the end everything was released
	if mon.s.cur != 0 || mon.s.waiters.Len() != 0 || heldSum != 0 {
		return mc.Verdict{Violation: fmt.Sprintf("%s: at the end cur=%d waiters=%d held=%d; log %v", sc.name, mon.s.cur, mon.s.waiters.Len(), heldSum, log), Sig: "C29:sem-not-restored", Detail: map[string]any{"scenario": sc.name, "log": log}}
	}
	key := sc.name + "|" + strings.Join(log, ",")
	rep.State(key)
	rep.Outcome(key)
	if mon.waited {
		rep.Nontrivial(key)
	}
	if x.Deviations() > 0 {
		rep.Sample(map[string]any{"scenario": sc.name, "schedule_choices": append([]int{}, x.Choices...), "observed": log})
	}
	return mc.Verdict{}
}

type c29sInfra string

func (c c29sInfra) MCInfra() string { return string(c) }

func c29sFreeRun(rep *mc.Report) {
	n := 0
	for _, sc := range c29sScenarios(true) {
		for it := 0; it < 300; it++ {
			s := NewWeighted(sc.size)
			ctxs := make([]context.Context, 4)
			cancels := make([]context.CancelFunc, 4)
			for i := range ctxs {
				ctxs[i], cancels[i] = context.WithCancel(context.Background())
			}
			// a request larger than the size in force waits until its context ends (SetSize racing with an
			// Acquire): the companion must not hang on it, so plain acquisitions get a context that a watchdog
			// ends (liveness of the companion only, nothing is judged by it)
			base, cancelBase := context.WithCancel(context.Background())
			watchdog := time.AfterFunc(300*time.Millisecond, cancelBase)
			var wg sync.WaitGroup
			for _, prog := range sc.threads {
				prog := prog
				wg.Add(1)
				go func() {
					defer wg.Done()
					for _, op := range prog {
						switch op.kind {
						case c29sAcq:
							if s.Acquire(base, op.n) == nil {
								s.Release(op.n)
							}
						case c29sAcqCtx:
							if s.Acquire(ctxs[op.k], op.n) == nil {
								s.Release(op.n)
							}
						case c29sTry:
							if s.TryAcquire(op.n) {
								s.Release(op.n)
							}
						case c29sCancel:
							cancels[op.k]()
						case c29sSetSize:
							s.SetSize(op.n)
						case c29sForce:
							s.ForceAcquire(op.n)
							s.Release(op.n)
						}
					}
				}()
			}
			wg.Wait()
			watchdog.Stop()
			cancelBase()
			for _, c := range cancels {
				c()
			}
			n++
		}
	}
	rep.AddCounts(int64(n), int64(n), 1, 0)
	rep.Rule = "free-running -race companion"
	rep.Sample("free-running executions of every semaphore scenario x300")
}

func TestVerifC29Sem(t *testing.T) {
	rep := mc.NewReport("C29")
	if os.Getenv("VERIF_FREERUN") == "1" {
		c29sFreeRun(rep)
		rep.Write()
		return
	}
	scs := c29sScenarios(mc.Thorough())
	bound := mc.Pick(2, 3)
	rep.Bounds["sem_preemption_bound"] = bound
	rep.Bounds["sem_scenarios"] = len(scs)
	rep.Rule = "every schedule with at most B preemptions of every scenario of a program family (3-4 threads; Acquire/TryAcquire/Release/SetSize/ForceAcquire/cancel; sizes 1-2, weights 1-2). Non-trivial = execution in which a request had to wait"
	shard, shards := mc.ShardFromEnv()
	body := func(x *mc.Exec) mc.Verdict {
		si := x.ChooseFree(len(scs), "scenario")
		return c29sRun(x, scs[si], rep)
	}
	st := mc.Explore(body, mc.Options{Bound: bound, Workers: 1, SplitDepth: 3, Shard: shard, Shards: shards})
	rep.MergeExplore("semaphore", st)
	if err := rep.Write(); err != nil {
		t.Fatal(err)
	}
	t.Logf("C29 semaphore: %+v", st)
}
