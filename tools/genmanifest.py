#!/usr/bin/env python3
"""Generate /verif/MANIFEST.json from checks.json (single source of truth for what is claimed)."""
import json, os, glob
V = os.path.dirname(os.path.dirname(os.path.abspath(__file__)))
checks = {os.path.basename(p)[:-5]: json.load(open(p)) for p in sorted(glob.glob(os.path.join(V, "checks.d", "*.json")))}
props = [json.loads(l) for l in open(os.path.join(V, "properties.jsonl"))]
na_reasons = {}
p = os.path.join(V, "not_applicable.json")
if os.path.exists(p):
    na_reasons = json.load(open(p))
m = {
    "version": 1,
    "setup_cmd": "bin/setup",
    "hooks": {
        "guard": "verif",
        "enable": "go test -c -overlay <generated> -tags verif -vet=off: harness test files, export shims, engine packages and instrumented copies of repository files are overlaid at build time by bin/vcheck; no hook is committed to /repo",
        "baseline_off_cmd": "cd /repo && go test -mod=mod -json -vet=off -count=1 -timeout 25m ./...",
        "source_commits": [],
        "add_only": True,
    },
    "engines": [
        {"name": "mc", "path": "engine/mc", "kind_free_text": "choice-tree explorer on the real implementation: full DFS, deviation-bounded DFS, state-hashing BFS (replay-from-prefix, 5x deterministic replay of every violation, process sharding)",
         "serves_properties": sorted(checks.keys())},
    ],
    "checks": [],
    "not_applicable": [],
    "notes": "All checks are bounded exhaustive explorations of the real code (see DESIGN.md). bin/vcheck <ID> quick|thorough [--replay file].",
}
for extra in json.load(open(os.path.join(V, "engines.json"))) if os.path.exists(os.path.join(V, "engines.json")) else []:
    m["engines"].append(extra)
for pr in props:
    pid = pr["id"]
    if pid in checks and not checks[pid].get("disabled"):
        c = checks[pid]
        m["checks"].append({
            "property_id": pid,
            "quick_cmd": "bin/vcheck %s quick" % pid,
            "thorough_cmd": "bin/vcheck %s thorough" % pid,
            "evidence_file": "evidence/%s.json" % pid,
            "replay_cmd_template": "bin/vcheck %s quick --replay {path}" % pid,
            "engine": c.get("engine", "mc"),
            "level_claimed": {"category": c.get("level", "model_checking"), "text": c.get("level_text", ""), "design_ref": "DESIGN.md section 3, " + pid},
            "level_note": c.get("level_note", "trusted: the Go toolchain, the harness reference model, the stated bounds"),
            "technique": c.get("technique", "bounded exhaustive enumeration on the real code"),
        })
    else:
        m["not_applicable"].append({"property_id": pid, "reason": na_reasons.get(pid, "check not built yet (work in progress; planned in DESIGN.md section 3)")})
json.dump(m, open(os.path.join(V, "MANIFEST.json"), "w"), indent=1)
print("claimed:", len(m["checks"]), "not claimed:", len(m["not_applicable"]))
