#!/usr/bin/env python3
"""Print the markdown table of independently seeded changes from seeded/*/meta.json (for DESIGN.md 6.5)."""
import json, glob, os
rows = []
for f in sorted(glob.glob(os.path.join(os.path.dirname(__file__), "..", "seeded", "*", "meta.json"))):
    m = json.load(open(f))
    d = os.path.basename(os.path.dirname(f))
    c = m.get("check", {})
    rows.append((d, m.get("summary", ""), m.get("needs_to_manifest", ""), "caught" if m.get("caught") else "MISSED", ", ".join(s.split(":", 1)[-1] for s in c.get("signatures", [])[:3]), m.get("history", "")))
print("| seeded | change | needs to manifest | verdict of our check | signatures | note |")
print("|---|---|---|---|---|---|")
for r in rows:
    print("| " + " | ".join(x.replace("|", "/") for x in r) + " |")

import sys
if "--update" in sys.argv:
    p = os.path.join(os.path.dirname(__file__), "..", "DESIGN.md")
    s = open(p).read()
    a = s.index("<!-- seedtable:begin")
    a = s.index("\n", a) + 1
    b = s.index("<!-- seedtable:end -->")
    lines = ["| seeded | change | needs to manifest | verdict of our check | signatures | note |", "|---|---|---|---|---|---|"]
    lines += ["| " + " | ".join(x.replace("|", "/") for x in r) + " |" for r in rows]
    open(p, "w").write(s[:a] + "\n".join(lines) + "\n" + s[b:])
