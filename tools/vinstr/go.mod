module vinstr

go 1.24
