// vinstr: syntactic instrumenter for the /verif controlled scheduler.
//
//	vinstr -in file.go -out instrumented.go [-nosync] [-notime] [-const name=value]...
//	       [-redirect Func|Type.Method]... [-chanrange name]... [-atomicpoint field]...
//
// It rewrites one Go file of the repository's *current working tree* (so a mutated or
// repaired file is what gets instrumented):
//  1. import "sync" -> .../verif/vsync, "time" -> .../verif/vtime (same local name);
//  2. go f(a,b)     -> vsched.Go(func(){ f(a0,b0) }) with arguments evaluated at the go statement;
//  3. vsched.Point(..) before every statement that contains a channel send, receive or close
//     (not descending into nested blocks and function literals);
//  4. every select is rewritten probe-block-dispatch so that the choice among simultaneously
//     ready cases is made by the scheduler (vsched.SelectOrder) instead of the runtime;
//  5. for x := range ch over names given by -chanrange becomes an explicit receive loop;
//  6. -const rewrites the value of a named constant, -redirect renames a function/method to
//     <name>_orig so that the harness supplies the replacement.
//
// Purely syntactic (go/parser, go/ast, go/printer), no type information.
package main

import (
	"bytes"
	"flag"
	"fmt"
	"go/ast"
	"go/format"
	"go/parser"
	"go/printer"
	"go/token"
	"os"
	"strconv"
	"strings"
)

const base = "github.com/VKCOM/statshouse/internal/verif/"

type multi []string

func (m *multi) String() string     { return strings.Join(*m, ",") }
func (m *multi) Set(s string) error { *m = append(*m, s); return nil }

var (
	fset     = token.NewFileSet()
	tmpN     int
	fileBase string
	chanRng  = map[string]bool{}
	atomicPt = map[string]bool{}
	used     = false // vsched referenced
)

func tmp(p string) string { tmpN++; return fmt.Sprintf("_vs%s%d", p, tmpN) }

func src(n ast.Node) string {
	var b bytes.Buffer
	printer.Fprint(&b, fset, n)
	return b.String()
}

func parseStmts(code string) []ast.Stmt {
	f, err := parser.ParseFile(token.NewFileSet(), "", "package p\nfunc _(){\n"+code+"\n}", 0)
	if err != nil {
		fmt.Fprintf(os.Stderr, "vinstr: internal: generated code does not parse: %v\n%s\n", err, code)
		os.Exit(1)
	}
	body := f.Decls[0].(*ast.FuncDecl).Body.List
	for _, s := range body {
		clearPos(s)
	}
	return body
}

func parseStmt(code string) ast.Stmt {
	l := parseStmts(code)
	if len(l) == 1 {
		return l[0]
	}
	return &ast.BlockStmt{List: l}
}

// clearPos zeroes positions so the printer lays generated code out afresh.
func clearPos(n ast.Node) {
	ast.Inspect(n, func(x ast.Node) bool {
		switch v := x.(type) {
		case *ast.Ident:
			v.NamePos = 0
		case *ast.BasicLit:
			v.ValuePos = 0
		case *ast.CallExpr:
			v.Lparen, v.Rparen = 0, 0
		case *ast.BlockStmt:
			v.Lbrace, v.Rbrace = 0, 0
		case *ast.CompositeLit:
			v.Lbrace, v.Rbrace = 0, 0
		case *ast.ParenExpr:
			v.Lparen, v.Rparen = 0, 0
		case *ast.FuncLit:
			v.Type.Func = 0
		case *ast.UnaryExpr:
			v.OpPos = 0
		case *ast.BinaryExpr:
			v.OpPos = 0
		}
		return true
	})
}

func label(n ast.Node) string {
	p := fset.Position(n.Pos())
	return strconv.Quote(fmt.Sprintf("%s:%d", fileBase, p.Line))
}

// hasChanOp reports whether expression/statement n (not descending into function literals
// and nested blocks) contains a receive, send or close.
func hasChanOp(n ast.Node) bool {
	found := false
	ast.Inspect(n, func(x ast.Node) bool {
		if found || x == nil {
			return false
		}
		switch v := x.(type) {
		case *ast.FuncLit, *ast.BlockStmt:
			if x != n {
				return false
			}
		case *ast.SelectStmt:
			return false // handled by the select rewrite itself
		case *ast.UnaryExpr:
			if v.Op == token.ARROW {
				found = true
			}
		case *ast.SendStmt:
			found = true
		case *ast.CallExpr:
			if id, ok := v.Fun.(*ast.Ident); ok && id.Name == "close" && len(v.Args) == 1 {
				found = true
			}
			if len(atomicPt) > 0 {
				if se, ok := v.Fun.(*ast.SelectorExpr); ok {
					if inner, ok := se.X.(*ast.SelectorExpr); ok && atomicPt[inner.Sel.Name] {
						found = true
					}
				}
			}
		}
		return true
	})
	return found
}

// stmtHeaderHasChanOp looks only at the parts of a statement evaluated before its body.
func stmtNeedsPoint(s ast.Stmt) bool {
	switch v := s.(type) {
	case *ast.ExprStmt, *ast.AssignStmt, *ast.SendStmt, *ast.ReturnStmt, *ast.IncDecStmt, *ast.DeclStmt:
		return hasChanOp(s)
	case *ast.IfStmt:
		return (v.Init != nil && hasChanOp(v.Init)) || hasChanOp(v.Cond)
	case *ast.ForStmt:
		return (v.Init != nil && hasChanOp(v.Init)) || (v.Cond != nil && hasChanOp(v.Cond))
	case *ast.SwitchStmt:
		return (v.Init != nil && hasChanOp(v.Init)) || (v.Tag != nil && hasChanOp(v.Tag))
	case *ast.RangeStmt:
		return hasChanOp(v.X)
	case *ast.LabeledStmt:
		return false
	}
	return false
}

func point(n ast.Node) ast.Stmt {
	used = true
	return parseStmt("vsched.Point(" + label(n) + ")")
}

// rewriteGo turns `go f(args)` into a controlled thread start.
func rewriteGo(g *ast.GoStmt) ast.Stmt {
	used = true
	var pre []string
	var args []string
	for _, a := range g.Call.Args {
		switch v := a.(type) {
		case *ast.BasicLit:
			args = append(args, src(a))
			continue
		case *ast.Ident:
			if v.Name == "nil" || v.Name == "true" || v.Name == "false" {
				args = append(args, v.Name)
				continue
			}
		}
		t := tmp("a")
		pre = append(pre, t+" := "+src(a))
		args = append(args, t)
	}
	call := src(g.Call.Fun)
	if _, ok := g.Call.Fun.(*ast.FuncLit); ok {
		call = "(" + call + ")"
	}
	ell := ""
	if g.Call.Ellipsis.IsValid() {
		ell = "..."
	}
	code := "{\n" + strings.Join(pre, "\n") + "\nvsched.Go(func() { " + call + "(" + strings.Join(args, ", ") + ell + ") })\n}"
	return parseStmt(code)
}

// rewriteSelect produces the probe-block-dispatch form.
func rewriteSelect(sel *ast.SelectStmt, lbl string) ast.Stmt {
	used = true
	type cs struct {
		comm    ast.Stmt
		body    []ast.Stmt
		probe   string // non-blocking form "case ...:"
		assign  string // statements at the top of the dispatched body
		isDeflt bool
	}
	var cases []cs
	var pre []string
	hasDefault := false
	for i, c := range sel.Body.List {
		cc := c.(*ast.CommClause)
		k := cs{comm: cc.Comm, body: cc.Body}
		if cc.Comm == nil {
			k.isDeflt = true
			hasDefault = true
			cases = append(cases, k)
			continue
		}
		chv := fmt.Sprintf("_vsc%d_%d", tmpN, i)
		switch st := cc.Comm.(type) {
		case *ast.SendStmt:
			val := fmt.Sprintf("_vsv%d_%d", tmpN, i)
			pre = append(pre, chv+" := "+src(st.Chan), val+" := "+src(st.Value))
			k.probe = "case " + chv + " <- " + val + ":"
		case *ast.ExprStmt: // <-ch
			u := st.X.(*ast.UnaryExpr)
			pre = append(pre, chv+" := "+src(u.X))
			k.probe = "case <-" + chv + ":"
		case *ast.AssignStmt: // v := <-ch ; v, ok = <-ch
			u := st.Rhs[0].(*ast.UnaryExpr)
			rv := fmt.Sprintf("_vsr%d_%d", tmpN, i)
			okv := fmt.Sprintf("_vso%d_%d", tmpN, i)
			pre = append(pre, chv+" := "+src(u.X), "var "+rv+" = vsched.ZeroOf("+chv+")", "_ = "+rv)
			if len(st.Lhs) == 2 {
				pre = append(pre, "var "+okv+" bool", "_ = "+okv)
				k.probe = "case " + rv + ", " + okv + " = <-" + chv + ":"
				k.assign = src(st.Lhs[0]) + ", " + src(st.Lhs[1]) + " " + st.Tok.String() + " " + rv + ", " + okv
			} else {
				k.probe = "case " + rv + " = <-" + chv + ":"
				k.assign = src(st.Lhs[0]) + " " + st.Tok.String() + " " + rv
			}
			// `_ := x` is illegal; `_ = x` is fine
			if st.Tok == token.DEFINE {
				allBlank := true
				for _, l := range st.Lhs {
					if id, ok := l.(*ast.Ident); !ok || id.Name != "_" {
						allBlank = false
					}
				}
				if allBlank {
					k.assign = strings.Replace(k.assign, ":=", "=", 1)
				}
			}
		}
		cases = append(cases, k)
	}
	tmpN++
	selv := tmp("sel")
	var b strings.Builder
	b.WriteString("{\n")
	for _, p := range pre {
		b.WriteString(p + "\n")
	}
	nComm := 0
	for _, k := range cases {
		if !k.isDeflt {
			nComm++
		}
	}
	b.WriteString("vsched.Point(" + label(sel) + ")\n")
	b.WriteString(selv + " := -1\n")
	if nComm > 0 {
		b.WriteString("for _, _vsk := range vsched.SelectOrder(" + strconv.Itoa(nComm) + ") {\nswitch _vsk {\n")
		j := 0
		for i, k := range cases {
			if k.isDeflt {
				continue
			}
			b.WriteString(fmt.Sprintf("case %d:\nselect {\n%s\n%s = %d\ndefault:\n}\n", j, k.probe, selv, i))
			j++
		}
		b.WriteString("}\nif " + selv + " >= 0 {\nbreak\n}\n}\n")
		if !hasDefault {
			b.WriteString("if " + selv + " < 0 {\nselect {\n")
			for i, k := range cases {
				b.WriteString(fmt.Sprintf("%s\n%s = %d\n", k.probe, selv, i))
			}
			b.WriteString("}\n}\n")
		}
	}
	if lbl != "" {
		b.WriteString(lbl + ":\n")
	}
	b.WriteString("switch " + selv + " {\n")
	for i, k := range cases {
		switch {
		case i == len(cases)-1:
			// the last clause becomes `default:` so that a terminating select stays a
			// terminating statement (the selector always names an existing clause)
			b.WriteString("default:\n")
		case k.isDeflt:
			b.WriteString("case -1:\n")
		default:
			b.WriteString(fmt.Sprintf("case %d:\n", i))
		}
		if k.assign != "" {
			b.WriteString(k.assign + "\n")
		}
		b.WriteString(fmt.Sprintf("_vsBODY%d()\n", i))
	}
	b.WriteString("}\n}")
	blk := parseStmt(b.String()).(*ast.BlockStmt)
	// splice the original bodies in place of the _vsBODYi() markers
	ast.Inspect(blk, func(n ast.Node) bool {
		c, ok := n.(*ast.CaseClause)
		if !ok {
			return true
		}
		for idx, st := range c.Body {
			es, ok := st.(*ast.ExprStmt)
			if !ok {
				continue
			}
			call, ok := es.X.(*ast.CallExpr)
			if !ok {
				continue
			}
			id, ok := call.Fun.(*ast.Ident)
			if !ok || !strings.HasPrefix(id.Name, "_vsBODY") {
				continue
			}
			i, _ := strconv.Atoi(strings.TrimPrefix(id.Name, "_vsBODY"))
			body := cases[i].body
			nb := append([]ast.Stmt{}, c.Body[:idx]...)
			nb = append(nb, body...)
			c.Body = nb
			return false
		}
		return true
	})
	return blk
}

func rewriteChanRange(r *ast.RangeStmt) ast.Stmt {
	used = true
	chv := tmp("rc")
	okv := tmp("ok")
	var decl string
	if r.Key != nil {
		decl = src(r.Key) + ", " + okv + " " + r.Tok.String() + " <-" + chv
	} else {
		decl = "_, " + okv + " := <-" + chv
	}
	code := "{\n" + chv + " := " + src(r.X) + "\nfor {\nvsched.Point(" + label(r) + ")\n" + decl + "\nif !" + okv + " {\nbreak\n}\n_vsBODY()\n}\n}"
	blk := parseStmt(code).(*ast.BlockStmt)
	loop := blk.List[1].(*ast.ForStmt)
	n := len(loop.Body.List)
	loop.Body.List = append(loop.Body.List[:n-1], r.Body.List...)
	return blk
}

var mapRng = map[string]bool{}

func isMapRange(r *ast.RangeStmt) bool {
	switch v := r.X.(type) {
	case *ast.Ident:
		return mapRng[v.Name]
	case *ast.SelectorExpr:
		return mapRng[v.Sel.Name]
	}
	return false
}

// rewriteMapRange turns `for k, v := range m` into a loop over vsched.MapOrder(m) (sorted keys,
// permuted by an explorer choice). Entries deleted during the iteration are skipped, as Go does;
// entries added during it are not visited (Go may or may not visit them).
func rewriteMapRange(r *ast.RangeStmt) ast.Stmt {
	used = true
	if r.Tok != token.DEFINE && !(r.Key == nil && r.Value == nil) {
		fmt.Fprintln(os.Stderr, "vinstr: -maprange needs := in", label(r))
		os.Exit(1)
	}
	kv := tmp("mk")
	okv := tmp("ok")
	mv := tmp("mm")
	val := "_"
	if r.Value != nil {
		val = src(r.Value)
	}
	code := "{\n" + mv + " := " + src(r.X) + "\nfor _, " + kv + " := range vsched.MapOrder(" + mv + ") {\n" + val + ", " + okv + " := " + mv + "[" + kv + "]\nif !" + okv + " {\ncontinue\n}\n"
	if r.Key != nil && src(r.Key) != "_" {
		code += src(r.Key) + " := " + kv + "\n_ = " + src(r.Key) + "\n"
	}
	code += "_vsBODY()\n}\n}"
	blk := parseStmt(code).(*ast.BlockStmt)
	loop := blk.List[1].(*ast.RangeStmt)
	n := len(loop.Body.List)
	loop.Body.List = append(loop.Body.List[:n-1], r.Body.List...)
	return blk
}

func isChanRange(r *ast.RangeStmt) bool {
	switch v := r.X.(type) {
	case *ast.Ident:
		return chanRng[v.Name]
	case *ast.SelectorExpr:
		return chanRng[v.Sel.Name]
	}
	return false
}

// processList rewrites a statement list in place.
func processList(list []ast.Stmt) []ast.Stmt {
	var out []ast.Stmt
	for _, s := range list {
		lbl := ""
		inner := s
		var ls *ast.LabeledStmt
		if l, ok := s.(*ast.LabeledStmt); ok {
			ls = l
			lbl = l.Label.Name
			inner = l.Stmt
		}
		switch v := inner.(type) {
		case *ast.GoStmt:
			walkChildren(v)
			ns := rewriteGo(v)
			out = append(out, relabel(ls, ns))
			continue
		case *ast.SelectStmt:
			if len(v.Body.List) == 0 {
				out = append(out, s)
				continue
			}
			for _, c := range v.Body.List {
				cc := c.(*ast.CommClause)
				cc.Body = processList(cc.Body)
			}
			out = append(out, rewriteSelect(v, lbl)) // label moves onto the dispatch switch
			continue
		case *ast.RangeStmt:
			if isMapRange(v) {
				v.Body.List = processList(v.Body.List)
				ns := rewriteMapRange(v)
				if ls != nil {
					blk := ns.(*ast.BlockStmt)
					blk.List[1] = &ast.LabeledStmt{Label: ls.Label, Stmt: blk.List[1]}
				}
				out = append(out, ns)
				continue
			}
			if isChanRange(v) {
				v.Body.List = processList(v.Body.List)
				ns := rewriteChanRange(v)
				if ls != nil {
					// keep the label on the generated for statement
					blk := ns.(*ast.BlockStmt)
					blk.List[1] = &ast.LabeledStmt{Label: ls.Label, Stmt: blk.List[1]}
				}
				out = append(out, ns)
				continue
			}
		case *ast.DeferStmt:
			if id, ok := v.Call.Fun.(*ast.Ident); ok && id.Name == "close" && len(v.Call.Args) == 1 {
				used = true
				ns := parseStmt("defer func() { vsched.Point(" + label(v) + "); close(" + src(v.Call.Args[0]) + ") }()")
				out = append(out, relabel(ls, ns))
				continue
			}
		}
		walkChildren(inner)
		if stmtNeedsPoint(inner) {
			out = append(out, point(inner))
		}
		out = append(out, s)
	}
	return out
}

func relabel(ls *ast.LabeledStmt, ns ast.Stmt) ast.Stmt {
	if ls == nil {
		return ns
	}
	ls.Stmt = ns
	return ls
}

// walkChildren processes nested statement lists (blocks, case bodies, function literals).
func walkChildren(n ast.Node) {
	ast.Inspect(n, func(x ast.Node) bool {
		switch v := x.(type) {
		case *ast.BlockStmt:
			v.List = processList(v.List)
			return false
		case *ast.CaseClause:
			v.Body = processList(v.Body)
			return false
		case *ast.CommClause:
			v.Body = processList(v.Body)
			return false
		}
		return true
	})
}

func main() {
	var in, out string
	var consts, redirects, ranges, atomics, imports, mapRanges multi
	var noSync, noTime, noChan bool
	flag.StringVar(&in, "in", "", "input file")
	flag.StringVar(&out, "out", "", "output file")
	flag.Var(&consts, "const", "name=value")
	flag.Var(&redirects, "redirect", "Func or Type.Method to rename to <name>_orig")
	flag.Var(&ranges, "chanrange", "identifier/field name that is a channel when ranged over")
	flag.Var(&mapRanges, "maprange", "identifier/field name that is a map when ranged over: iteration order becomes an explorer choice")
	flag.Var(&atomics, "atomicpoint", "field name whose atomic operations become scheduling points")
	flag.Var(&imports, "import", "old=new import path rewrite (local name kept), e.g. net=github.com/VKCOM/statshouse/internal/verif/vnet")
	flag.BoolVar(&noSync, "nosync", false, "do not rewrite import sync")
	flag.BoolVar(&noTime, "notime", false, "do not rewrite import time")
	flag.BoolVar(&noChan, "nochan", false, "do not insert points / rewrite go and select")
	flag.Parse()
	for _, r := range ranges {
		chanRng[r] = true
	}
	for _, a := range atomics {
		atomicPt[a] = true
	}
	for _, r := range mapRanges {
		mapRng[r] = true
	}
	fileBase = in
	if i := strings.LastIndex(in, "/"); i >= 0 {
		fileBase = in[i+1:]
	}
	f, err := parser.ParseFile(fset, in, nil, parser.ParseComments)
	if err != nil {
		fmt.Fprintln(os.Stderr, "vinstr:", err)
		os.Exit(1)
	}
	// keep build constraints and package doc only; other comments are dropped because
	// statement insertion would misplace them
	var keep []*ast.CommentGroup
	for _, cg := range f.Comments {
		if cg.End() < f.Package {
			keep = append(keep, cg)
		}
	}
	f.Comments = keep

	// 6. constants and redirects
	for _, c := range consts {
		kv := strings.SplitN(c, "=", 2)
		done := false
		ast.Inspect(f, func(n ast.Node) bool {
			vs, ok := n.(*ast.ValueSpec)
			if !ok {
				return true
			}
			for i, nm := range vs.Names {
				if nm.Name == kv[0] && i < len(vs.Values) {
					e, err := parser.ParseExpr(kv[1])
					if err == nil {
						vs.Values[i] = e
						done = true
					}
				}
			}
			return true
		})
		if !done {
			fmt.Fprintf(os.Stderr, "vinstr: warning: constant %s not found in %s (continuing without it)\n", kv[0], in)
		}
	}
	for _, r := range redirects {
		typ, name := "", r
		if i := strings.Index(r, "."); i >= 0 {
			typ, name = r[:i], r[i+1:]
		}
		done := false
		for _, d := range f.Decls {
			fd, ok := d.(*ast.FuncDecl)
			if !ok || fd.Name.Name != name {
				continue
			}
			rt := ""
			if fd.Recv != nil && len(fd.Recv.List) == 1 {
				t := fd.Recv.List[0].Type
				if s, ok := t.(*ast.StarExpr); ok {
					t = s.X
				}
				if id, ok := t.(*ast.Ident); ok {
					rt = id.Name
				}
			}
			if rt == typ {
				fd.Name.Name = name + "_orig"
				done = true
			}
		}
		if !done {
			fmt.Fprintf(os.Stderr, "vinstr: warning: function %s not found in %s (continuing without redirect)\n", r, in)
		}
	}

	// 2-5. statements
	if !noChan {
		for _, d := range f.Decls {
			if fd, ok := d.(*ast.FuncDecl); ok && fd.Body != nil {
				fd.Body.List = processList(fd.Body.List)
			}
			if gd, ok := d.(*ast.GenDecl); ok {
				walkChildren(gd) // function literals in package-level vars
			}
		}
	}

	// 1. imports
	for _, im := range f.Imports {
		p, _ := strconv.Unquote(im.Path.Value)
		for _, ir := range imports {
			kv := strings.SplitN(ir, "=", 2)
			if len(kv) == 2 && kv[0] == p {
				im.Path.Value = strconv.Quote(kv[1])
				if im.Name == nil {
					nm := p
					if i := strings.LastIndex(p, "/"); i >= 0 {
						nm = p[i+1:]
					}
					im.Name = ast.NewIdent(nm)
				}
			}
		}
		switch {
		case p == "sync" && !noSync:
			im.Path.Value = strconv.Quote(base + "vsync")
			if im.Name == nil {
				im.Name = ast.NewIdent("sync")
			}
		case p == "time" && !noTime:
			im.Path.Value = strconv.Quote(base + "vtime")
			if im.Name == nil {
				im.Name = ast.NewIdent("time")
			}
		}
	}
	var buf bytes.Buffer
	if err := printer.Fprint(&buf, fset, f); err != nil {
		fmt.Fprintln(os.Stderr, "vinstr:", err)
		os.Exit(1)
	}
	res := buf.String()
	if used {
		// add the vsched import after the package clause
		idx := strings.Index(res, "\nimport ")
		imp := "\nimport vsched \"" + base + "vsched\"\n"
		if idx >= 0 {
			res = res[:idx] + imp + res[idx:]
		} else {
			pk := strings.Index(res, "package ")
			nl := strings.Index(res[pk:], "\n")
			res = res[:pk+nl+1] + imp + res[pk+nl+1:]
		}
	}
	fm, err := format.Source([]byte(res))
	if err != nil {
		fmt.Fprintln(os.Stderr, "vinstr: result does not format:", err)
		os.WriteFile(out+".bad", []byte(res), 0o644)
		os.Exit(1)
	}
	if err := os.WriteFile(out, fm, 0o644); err != nil {
		fmt.Fprintln(os.Stderr, "vinstr:", err)
		os.Exit(1)
	}
}
